#!/usr/bin/env python3
"""prints the prompt for an independent change-seeding sub-agent for one property (only the property text is given)"""
import json, sys
pid = sys.argv[1]; tag = sys.argv[2] if len(sys.argv) > 2 else 'a'
hint = sys.argv[3] if len(sys.argv) > 3 else ''
p = [json.loads(l) for l in open('/verif/properties.jsonl') if json.loads(l)['id'] == pid][0]
wt = '/tmp/seed-%s%s' % (pid, tag)
print(f"""You are a software engineer testing how good a (separately built, hidden from you) verification suite for the Python library mpmath is. Your job: produce ONE realistic change to mpmath's source that BREAKS the following semantic property while the library still imports and its existing test suite still passes.

PROPERTY {pid} — {p['title']}
Statement: {p['statement']}
Quantifier: {p['quantifier']['text']}

Rules
* Work ONLY in your own scratch git worktree: create it with `git -C /repo worktree add --detach {wt} HEAD` and edit files under {wt}/mpmath. NEVER modify /repo itself, and do not read or list anything under /verif (the hidden suite) — your change must be independent of it.
* The change must be the kind of slip a developer could really make (refactoring error, off-by-one, wrong rounding direction, dropped guard bits, missing final rounding, stale cache key, missing restore in an error path, wrong branch condition...), small (1–15 changed lines), in library code (not tests), and it must still compile/import.
* It must need something SPECIFIC to manifest — a particular interleaving/sequence of calls, a fault at a particular point, an unusual input class, a particular precision range, or two cooperating sites that each look fine alone — NOT something ordinary use would expose at once. {hint}
* The existing test suite must still pass with the change: run `cd {wt} && PYTHONPATH={wt} /venv/bin/python -m pytest -q -p no:cacheprovider -n 4 mpmath` (takes a few minutes; expect "337 passed, 2 xfailed" exactly as without the change; first confirm that `PYTHONPATH={wt} /venv/bin/python -c "import mpmath; print(mpmath.__file__)"` prints a path under {wt}). If a test fails, pick a different change.
* Write a demonstration program {wt}-out/demo.py (plain Python, uses `import mpmath` from PYTHONPATH) that exits 0 on the unchanged code and exits 1 (printing what went wrong, in terms of the property) with your change. Verify both: run it with PYTHONPATH=/repo (unchanged) and with PYTHONPATH={wt} (changed).
* Deliverables in {wt}-out/: patch.diff (`git -C {wt} diff > {wt}-out/patch.diff`), demo.py, meta.json with keys: property, summary (what was changed and why it breaks the property), needs (what specific input/sequence/precision is needed for it to manifest), files (changed files), test_suite ("337 passed, 2 xfailed" or what you saw), demo_unchanged_exit, demo_changed_exit.
* When done, remove the worktree: `git -C /repo worktree remove --force {wt}` (keep {wt}-out/). Your final message: a 5-line summary and the path of the output directory.""")
