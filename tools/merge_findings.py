#!/venv/bin/python
"""Rebuild the merged /verif/known_findings.json from findings.d/*.json (+ the lead's own C02/C43 'fixed' entries kept in it)."""
import json, glob, os
ROOT = os.path.dirname(os.path.dirname(os.path.abspath(__file__)))
k = json.load(open(os.path.join(ROOT, 'known_findings.json')))
per = {}
for path in sorted(glob.glob(os.path.join(ROOT, 'findings.d', '*.json'))):
    for f in json.load(open(path))['findings']:
        per[(f['property'], f['key'])] = f
own = [f for f in k['findings'] if (f['property'], f['key']) not in per and not os.path.exists(os.path.join(ROOT, 'findings.d', f['property'] + '.json'))]
own += [f for f in k['findings'] if (f['property'], f['key']) not in per and os.path.exists(os.path.join(ROOT, 'findings.d', f['property'] + '.json')) and f['property'] in ('C02', 'C43')]
seen = set(); out = []
for f in own + list(per.values()):
    kk = (f['property'], f['key'])
    if kk not in seen:
        seen.add(kk); out.append(f)
out.sort(key=lambda f: (f['property'], f['status'], f['key']))
k['findings'] = out
json.dump(k, open(os.path.join(ROOT, 'known_findings.json'), 'w'), indent=1)
import collections
print(len(out), collections.Counter(f['status'] for f in out))
