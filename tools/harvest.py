#!/venv/bin/python
"""tools/harvest.py <dir with evidence copies> [--apply]: list violation keys reported on the UNCHANGED tree that are not yet in
findings.d, and (with --apply) append them as known findings (witness, ceiling = max severity seen + 2).  Every key is a
cell/mechanism key computed by the check's classifier; the lead reviews the list before committing."""
import os, sys, json, glob, math, collections
ROOT = os.path.dirname(os.path.dirname(os.path.abspath(__file__)))
d = sys.argv[1]; apply = '--apply' in sys.argv
new = collections.OrderedDict()
for f in sorted(glob.glob(os.path.join(d, '*.json'))):
    ev = json.load(open(f)); p = ev['property_id']
    for v in ev['coverage'].get('new_violations', []):
        k = (p, v['key']); e = new.setdefault(k, {'sev': None, 'w': None, 'n': 0})
        e['n'] += v['count']
        s = v.get('max_severity')
        if e['w'] is None or (s is not None and (e['sev'] is None or s > e['sev'])):
            e['w'] = v.get('witness')
        if s is not None and (e['sev'] is None or s > e['sev']):
            e['sev'] = s
byprop = collections.defaultdict(list)
for (p, k), e in new.items():
    byprop[p].append((k, e))
for p, items in byprop.items():
    path = os.path.join(ROOT, 'findings.d', p + '.json')
    data = json.load(open(path)) if os.path.exists(path) else {'findings': []}
    have = {f['key']: f for f in data['findings']}
    for k, e in items:
        w = e['w'] or {}
        if k in have and have[k]['status'] == 'known':
            # severity above ceiling: raise the ceiling
            if e['sev'] is not None and have[k].get('ceiling') is not None and e['sev'] > have[k]['ceiling']:
                print('RAISE-CEILING', p, k, have[k]['ceiling'], '->', math.ceil(e['sev'] + 2))
                if apply:
                    have[k]['ceiling'] = math.ceil(e['sev'] + 2)
            continue
        print('NEW', p, k, 'count', e['n'], 'sev', e['sev'], '|', str(w.get('what'))[:120])
        if apply:
            ent = {'property': p, 'key': k, 'status': 'known',
                   'what': 'cell found by the seed sweep on the unchanged tree: ' + str(w.get('what')),
                   'witness': {'case': w.get('case'), 'observed': w.get('observed'), 'expected': w.get('expected')}}
            if e['sev'] is not None:
                ent['ceiling'] = math.ceil(e['sev'] + 2)
            if k in have:
                print('   (key exists with status', have[k]['status'], '-> left alone; a fixed mechanism fired again: look at it)')
                continue
            data['findings'].append(ent)
    if apply:
        json.dump(data, open(path, 'w'), indent=1)
