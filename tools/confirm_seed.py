#!/venv/bin/python
"""Confirm a seeded change produced by an independent sub-agent and file it under /verif/seeded/<id>/.
   tools/confirm_seed.py <outdir> <id> [--skip-tests]
Confirms: patch applies to /repo HEAD in a scratch worktree; demo exits 0 on /repo and non-zero on the changed tree;
the repository's own test suite still passes on the changed tree.  Removes the worktree."""
import os, sys, json, subprocess, shutil, tempfile, re
ROOT = os.path.dirname(os.path.dirname(os.path.abspath(__file__)))

def run(cmd, **kw):
    return subprocess.run(cmd, stdout=subprocess.PIPE, stderr=subprocess.STDOUT, text=True, **kw)

def main():
    out, sid = sys.argv[1], sys.argv[2]
    skip = '--skip-tests' in sys.argv
    meta = json.load(open(os.path.join(out, 'meta.json')))
    wt = tempfile.mkdtemp(prefix='confirm-wt-'); os.rmdir(wt)
    subprocess.check_call(['git', '-C', '/repo', 'worktree', 'add', '--detach', '-q', wt, 'HEAD'])
    res = {}
    try:
        r = run(['git', '-C', wt, 'apply', os.path.join(out, 'patch.diff')])
        res['patch_applies'] = r.returncode == 0
        if r.returncode:
            print(r.stdout); return
        env0 = dict(os.environ, PYTHONPATH='/repo', PYTHONDONTWRITEBYTECODE='1')
        env1 = dict(os.environ, PYTHONPATH=wt, PYTHONDONTWRITEBYTECODE='1')
        d0 = run(['/venv/bin/python', os.path.join(out, 'demo.py')], env=env0, cwd='/tmp', timeout=1800)
        d1 = run(['/venv/bin/python', os.path.join(out, 'demo.py')], env=env1, cwd='/tmp', timeout=1800)
        res['demo_unchanged_exit'] = d0.returncode
        res['demo_changed_exit'] = d1.returncode
        res['demo_changed_tail'] = d1.stdout[-600:]
        if not skip:
            t = run(['/venv/bin/python', '-m', 'pytest', '-q', '-p', 'no:cacheprovider', '-n', '8', 'mpmath'], env=env1, cwd=wt, timeout=3600)
            m = re.search(r'(\d+) passed.*', t.stdout)
            res['test_suite'] = m.group(0) if m else t.stdout[-300:]
        ok = res['patch_applies'] and d0.returncode == 0 and d1.returncode != 0 and (skip or res['test_suite'].startswith('337 passed'))
        res['confirmed'] = bool(ok)
        print(json.dumps(res, indent=1))
        if ok:
            dst = os.path.join(ROOT, 'seeded', sid)
            os.makedirs(dst, exist_ok=True)
            shutil.copy(os.path.join(out, 'patch.diff'), dst)
            shutil.copy(os.path.join(out, 'demo.py'), dst)
            meta['confirmed_by_lead'] = res
            meta['what_was_run'] = ('patch applied to a scratch worktree of /repo HEAD; demo.py exit 0 on /repo and %d on the changed tree; '
                                    'repository test suite on the changed tree: %s' % (d1.returncode, res.get('test_suite', 'not re-run')))
            json.dump(meta, open(os.path.join(dst, 'meta.json'), 'w'), indent=1)
    finally:
        subprocess.call(['git', '-C', '/repo', 'worktree', 'remove', '--force', wt])
        shutil.rmtree(wt, ignore_errors=True)

if __name__ == '__main__':
    main()
