#!/venv/bin/python
"""tools/sweep.py --props C21,C22 --seeds 0-7 [--tier quick]  : run checks over seeds on the unchanged tree, report
exit codes and any new violation keys / inconclusive reasons (evidence copies under /tmp/sweep)."""
import os, sys, json, subprocess, argparse, shutil
ROOT = os.path.dirname(os.path.dirname(os.path.abspath(__file__)))
ap = argparse.ArgumentParser(); ap.add_argument('--props'); ap.add_argument('--seeds', default='0-3'); ap.add_argument('--tier', default='quick')
a = ap.parse_args()
lo, hi = (a.seeds.split('-') + [a.seeds])[:2] if '-' in a.seeds else (a.seeds, a.seeds)
os.makedirs('/tmp/sweep', exist_ok=True)
bad = 0
for p in a.props.split(','):
    for s in range(int(lo), int(hi) + 1):
        r = subprocess.run(['/venv/bin/python', os.path.join(ROOT, 'check.py'), p, '--tier', a.tier, '--seed', str(s)], cwd=ROOT,
                           stdout=subprocess.PIPE, stderr=subprocess.STDOUT, text=True, env=dict(os.environ, VERIF_SEED=str(s)))
        ev = os.path.join(ROOT, 'evidence', p + '.json')
        keys, inc = [], []
        if os.path.exists(ev):
            shutil.copy(ev, '/tmp/sweep/%s-%s-%d.json' % (p, a.tier, s))
            c = json.load(open(ev))['coverage']
            keys = [(v['key'], v.get('max_severity')) for v in c.get('new_violations', [])]
            inc = c.get('inconclusive_reasons', [])
        last = [l for l in r.stdout.splitlines() if l.startswith(p + ' tier')]
        print('%s seed=%d exit=%d %s' % (p, s, r.returncode, (last[-1].split(':', 1)[1][:110] if last else r.stdout[-200:])), flush=True)
        for k in keys: print('     NEW', k)
        for k in inc: print('     INCONCLUSIVE', k)
        bad += r.returncode != 0
print('nonzero exits:', bad)
