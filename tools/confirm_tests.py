#!/venv/bin/python
"""Re-confirm, for every seeded change under /verif/seeded, that the repository's own test suite still passes with it
(scratch worktree, xdist run; a failing xdist run is repeated serially because test_interval.py is order dependent)."""
import os, sys, json, subprocess, shutil, tempfile, re, glob
ROOT = os.path.dirname(os.path.dirname(os.path.abspath(__file__)))
def run(cmd, **kw):
    return subprocess.run(cmd, stdout=subprocess.PIPE, stderr=subprocess.STDOUT, text=True, **kw)
for d in sorted(glob.glob(os.path.join(ROOT, 'seeded', 'C*'))):
    mp = os.path.join(d, 'meta.json')
    meta = json.load(open(mp))
    c = meta.setdefault('confirmed_by_lead', {})
    if str(c.get('test_suite', '')).startswith('337 passed'):
        continue
    wt = tempfile.mkdtemp(prefix='ct-wt-'); os.rmdir(wt)
    subprocess.check_call(['git', '-C', '/repo', 'worktree', 'add', '--detach', '-q', wt, 'HEAD'])
    try:
        if run(['git', '-C', wt, 'apply', os.path.join(d, 'patch.diff')]).returncode:
            c['test_suite'] = 'patch no longer applies to HEAD'; print(os.path.basename(d), c['test_suite']); continue
        env = dict(os.environ, PYTHONPATH=wt, PYTHONDONTWRITEBYTECODE='1')
        t = run(['/venv/bin/python', '-m', 'pytest', '-q', '-p', 'no:cacheprovider', '-n', '8', 'mpmath'], env=env, cwd=wt, timeout=3000)
        m = re.search(r'(\d+ failed, )?(\d+) passed.*', t.stdout)
        res = m.group(0) if m else t.stdout[-200:]
        if not res.startswith('337 passed'):
            t = run(['/venv/bin/python', '-m', 'pytest', '-q', '-p', 'no:cacheprovider', 'mpmath'], env=env, cwd=wt, timeout=3000)
            m = re.search(r'(\d+ failed, )?(\d+) passed.*', t.stdout)
            res = (m.group(0) if m else t.stdout[-200:]) + ' (serial re-run after an xdist order-dependent failure)'
        c['test_suite'] = res
        meta['what_was_run'] = (meta.get('what_was_run', '').split('; repository test suite')[0] +
                                '; repository test suite on the changed tree (re-run by the lead on the idle machine): ' + res)
        print(os.path.basename(d), res, flush=True)
    finally:
        json.dump(meta, open(mp, 'w'), indent=1)
        subprocess.call(['git', '-C', '/repo', 'worktree', 'remove', '--force', wt])
        shutil.rmtree(wt, ignore_errors=True)
