#!/venv/bin/python
"""One-off: rewrite findings.d/<P>.json known entries with the module's KEYMAP (coarse mechanism keys), merging cells and
taking the largest ceiling; then fold in the violation keys harvested from sweep evidence copies (mapped the same way)."""
import os, sys, json, glob, math, importlib, collections
ROOT = os.path.dirname(os.path.dirname(os.path.abspath(__file__)))
sys.path.insert(0, ROOT)
P = sys.argv[1]; evdir = sys.argv[2] if len(sys.argv) > 2 else None
mod = importlib.import_module('vf.props.' + P)
km = mod.KEYMAP
path = os.path.join(ROOT, 'findings.d', P + '.json')
data = json.load(open(path))
out, merged = [], collections.OrderedDict()
def add(key, what, witness, ceiling, cell):
    e = merged.get(key)
    if e is None:
        e = merged[key] = {'property': P, 'key': key, 'status': 'known', 'what': what, 'witness': witness, 'ceiling': ceiling, 'cells': []}
    else:
        if e['ceiling'] is not None:
            e['ceiling'] = None if ceiling is None and not key.endswith('accuracy') else max(e['ceiling'], ceiling or 0)
    if cell not in e['cells']:
        e['cells'].append(cell)
for f in data['findings']:
    if f['status'] != 'known':
        out.append(f); continue
    add(km(f['key']), f['what'], f.get('witness'), f.get('ceiling'), f['key'])
if evdir:
    for fn in sorted(glob.glob(os.path.join(evdir, P + '-*.json'))):
        ev = json.load(open(fn))
        for v in ev['coverage'].get('new_violations', []):
            w = v.get('witness') or {}
            s = v.get('max_severity')
            add(km(v['key']), 'cell found by the seed sweep on the unchanged tree: ' + str(w.get('what')),
                {'case': w.get('case'), 'observed': w.get('observed'), 'expected': w.get('expected')},
                (math.ceil(s + 2) if s is not None else None), v['key'])
for k, e in merged.items():
    if k.endswith('/accuracy') and e['ceiling'] is None:
        pass
    e['what'] = ('%s [coarse key covering the a-priori cells: %s]' % (e['what'], '; '.join(c.split('/', 2)[2] if c.count('/') >= 2 else c for c in e['cells'][:12])))
    out.append(e)
json.dump({'findings': out}, open(path, 'w'), indent=1)
print(P, 'known (coarse):', len(merged), 'other entries:', len(out) - len(merged))
for k, e in merged.items():
    print('  ', k, e['ceiling'], len(e['cells']))
