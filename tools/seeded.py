#!/venv/bin/python
"""Run checks against a seeded change:  tools/seeded.py <seeded-id> [--tier quick] [--props C02,C04] [--inplace]
Default: a scratch git worktree of /repo HEAD under /tmp (removed afterwards) with seeded/<id>/patch.diff applied,
checks run with VERIF_REPO pointing at it.  --inplace applies the patch to /repo itself and undoes it afterwards
(git -C /repo apply / git -C /repo checkout -- .), as the task brief describes.
Prints one line per check: property, exit code, VIOLATION/KNOWN-FINDING lines."""
import os, sys, json, subprocess, argparse, shutil, tempfile
ROOT = os.path.dirname(os.path.dirname(os.path.abspath(__file__)))

def main():
    ap = argparse.ArgumentParser()
    ap.add_argument('sid')
    ap.add_argument('--tier', default='quick')
    ap.add_argument('--props', default=None)
    ap.add_argument('--inplace', action='store_true')
    ap.add_argument('--seed', default='0')
    a = ap.parse_args()
    d = os.path.join(ROOT, 'seeded', a.sid)
    meta = json.load(open(os.path.join(d, 'meta.json')))
    props = a.props.split(',') if a.props else meta.get('expected_checks') or [meta['property']]
    patch = os.path.join(d, 'patch.diff')
    if a.inplace:
        repo = '/repo'
        subprocess.check_call(['git', '-C', repo, 'apply', patch])
    else:
        repo = tempfile.mkdtemp(prefix='seeded-wt-')
        os.rmdir(repo)
        subprocess.check_call(['git', '-C', '/repo', 'worktree', 'add', '--detach', '-q', repo, 'HEAD'])
        subprocess.check_call(['git', '-C', repo, 'apply', patch])
    rc_all = {}
    try:
        for p in props:
            env = dict(os.environ, VERIF_REPO=repo, VERIF_SEED=a.seed)
            r = subprocess.run(['/venv/bin/python', os.path.join(ROOT, 'check.py'), p, '--tier', a.tier], cwd=ROOT, env=env,
                               stdout=subprocess.PIPE, stderr=subprocess.STDOUT, text=True)
            lines = [l for l in r.stdout.splitlines() if l.startswith(('VIOLATION', 'KNOWN-FINDING', '  key=', 'INCONCLUSIVE', p + ' tier'))]
            print('== %s exit=%d' % (p, r.returncode))
            for l in lines[:12]:
                print('   ' + l[:220])
            rc_all[p] = r.returncode
    finally:
        if a.inplace:
            subprocess.check_call(['git', '-C', '/repo', 'checkout', '--', '.'])
        else:
            subprocess.call(['git', '-C', '/repo', 'worktree', 'remove', '--force', repo])
            shutil.rmtree(repo, ignore_errors=True)
    print('RESULT', a.sid, json.dumps(rc_all))

if __name__ == '__main__':
    main()
