#!/bin/bash
# tools/apply_fix.sh <diff file> <commit message (must start with "fix:")>
set -e
f="$1"; msg="$2"
case "$msg" in fix:*) ;; *) echo "message must start with fix:"; exit 2;; esac
cd /repo
git apply --check "$f" || { echo "DOES NOT APPLY: $f"; exit 1; }
git apply "$f"
/venv/bin/python -c "import sys; sys.path.insert(0,'/repo'); import mpmath; assert mpmath.__file__.startswith('/repo'); mpmath.mp.dps=15; assert abs(mpmath.exp(1)-2.718281828459045)<1e-14"
git add -A
git commit -q -m "$msg"
git log --oneline | head -1
