#!/venv/bin/python
"""Regenerates /verif/MANIFEST.json from the property modules present in vf/props (single source of truth:
each module's PROP / LEVEL / LEVEL_TEXT / LEVEL_NOTE / TECHNIQUE / DESIGN_REF / CLAIMED attributes)."""
import os, sys, json, importlib
ROOT = os.path.dirname(os.path.dirname(os.path.abspath(__file__)))
sys.path.insert(0, ROOT)

def main():
    props = [json.loads(l) for l in open(os.path.join(ROOT, 'properties.jsonl'))]
    checks, na = [], []
    claimed = set(open(os.path.join(ROOT, 'claimed.txt')).read().split())
    for p in props:
        pid = p['id']
        path = os.path.join(ROOT, 'vf', 'props', pid + '.py')
        mod = None
        if os.path.exists(path):
            mod = importlib.import_module('vf.props.' + pid)
        if mod is not None and pid not in claimed:
            na.append({'property_id': pid, 'reason': 'check built but not yet validated by the lead on the unchanged tree (work in progress); runtime monitoring applies, see DESIGN.md section 3/%s' % pid})
            continue
        if mod is None or not getattr(mod, 'CLAIMED', True):
            na.append({'property_id': pid, 'reason': getattr(mod, 'NOT_CLAIMED_REASON', 'check not built yet (work in progress); runtime monitoring applies, see DESIGN.md section 3/%s' % pid)})
            continue
        checks.append({
            'property_id': pid,
            'quick_cmd': '/venv/bin/python check.py %s --tier quick' % pid,
            'thorough_cmd': '/venv/bin/python check.py %s --tier thorough' % pid,
            'evidence_file': 'evidence/%s.json' % pid,
            'replay_cmd_template': '/venv/bin/python check.py %s --replay {path}' % pid,
            'engine': 'vf',
            'level_claimed': {
                'category': getattr(mod, 'LEVEL', 'exploration'),
                'text': getattr(mod, 'LEVEL_TEXT', 'generated executions of the real code decided by an independent oracle; held on what was observed, measured coverage in the evidence file'),
                'design_ref': getattr(mod, 'DESIGN_REF', 'DESIGN.md section 3/%s' % pid),
            },
            'level_note': getattr(mod, 'LEVEL_NOTE', '; '.join(getattr(mod, 'ASSUMPTIONS', [])) or 'oracle correctness'),
            'technique': getattr(mod, 'TECHNIQUE', 'runtime monitoring: reference-model monitor over generated executions'),
        })
    man = {
        'version': 1,
        'setup_cmd': '/venv/bin/python -m vf.setup',
        'hooks': {
            'guard': 'MPMATH_VERIF',
            'enable': 'no in-source hooks: monitors attach from outside (descriptors, wrappers, sys.monitoring); checks import mpmath from /repo working tree',
            'baseline_off_cmd': 'cd /repo && /venv/bin/python -m pytest -ra -q -p no:cacheprovider --timeout=900 --continue-on-collection-errors',
            'source_commits': [],
            'add_only': True,
        },
        'engines': [{'name': 'vf', 'path': 'vf/', 'serves_properties': [c['property_id'] for c in checks],
                     'kind_free_text': 'runtime monitors (store hooks, API-boundary wrappers, sys.monitoring taps/failpoints/step budgets) + independent oracles (exact rational model, ball arithmetic, released-version consensus, exact linear algebra) over seeded hostile workloads, sharded into subprocess workers'}],
        'checks': checks,
        'notes': 'single entry check.py <Cxx> --tier quick|thorough [--replay FILE]; VERIF_SEED honoured; exit 0 held / 1 VIOLATION / 2 inconclusive; known findings in known_findings.json (+findings.d/)',
        'not_applicable': na,
    }
    with open(os.path.join(ROOT, 'MANIFEST.json'), 'w') as f:
        json.dump(man, f, indent=1)
    print('checks:', len(checks), 'not claimed:', len(na))

if __name__ == '__main__':
    main()
