#!/venv/bin/python
"""Single entry point:  check.py <Cxx> [--tier quick|thorough] [--seed N] [--replay FILE]
VERIF_SEED (set by the harness) overrides --seed; VERIF_TIER is used when --tier is not given."""
import os, sys, argparse
sys.path.insert(0, os.path.dirname(os.path.abspath(__file__)))

def main():
    try:
        sys.set_int_max_str_digits(0)   # worker results may carry integers with more than 4300 digits
    except AttributeError:
        pass
    ap = argparse.ArgumentParser()
    ap.add_argument('prop')
    ap.add_argument('--tier', default=None, choices=['quick', 'thorough'])
    ap.add_argument('--seed', type=int, default=0)
    ap.add_argument('--replay', default=None)
    a = ap.parse_args()
    # an explicit --tier wins (the registered commands always pass it); otherwise VERIF_TIER; default quick
    tier = a.tier or os.environ.get('VERIF_TIER') or 'quick'
    if tier not in ('quick', 'thorough'):
        tier = 'quick'
    try:
        seed = int(os.environ.get('VERIF_SEED', a.seed))
    except ValueError:
        seed = a.seed
    from vf.core import run_check
    sys.exit(run_check(a.prop, tier, seed, replay=a.replay))

if __name__ == '__main__':
    main()
