"""Core of the runtime-monitoring harness: sharded runner, recorder, evidence writer,
known-findings matcher, replay files.

A property module ``vf.props.Cxx`` provides

    PROP        = 'Cxx'
    LEVEL       = 'exploration' | 'fault_enumeration'
    RULE        = text: how cases are generated and what makes one non-trivial / distinct
    ASSUMPTIONS = [text, ...]
    def shards(tier, seed) -> [dict, ...]      JSON-able shard descriptors (each gets 'tier','seed','shard' filled in)
    def run_shard(shard, rec) -> None           executed in a worker *process*; reports through ``rec``
    def replay(case, rec) -> None               re-executes one recorded case (from a replay file)
  optional
    def required(agg, tier) -> [text, ...]      reasons the run is inconclusive (e.g. an anchor/monitor saw nothing)
    SHARD_TIMEOUT = {'quick': s, 'thorough': s} wall-clock watchdog per shard (inconclusive when it fires)
    EXHAUSTIVE = bool                           evidence flag for a finitely enumerated space

Exit codes of a check: 0 held on everything explored (KNOWN-FINDING lines allowed), 1 VIOLATION,
2 inconclusive (monitor saw nothing / worker died / too many undecided).
"""
import os, sys, json, time, hashlib, subprocess, importlib, traceback, tempfile, collections
from concurrent.futures import ThreadPoolExecutor

ROOT = os.path.dirname(os.path.dirname(os.path.abspath(__file__)))
REPO = os.environ.get('VERIF_REPO', '/repo')
PY = os.environ.get('VERIF_PY', '/venv/bin/python')
NPROC = int(os.environ.get('VERIF_NPROC', str(os.cpu_count() or 4)))
# runs against a scratch copy of the repository (mutants, fix trials) must not overwrite the committed evidence
EVIDENCE_DIR = os.path.join(ROOT, 'evidence' if os.path.abspath(REPO) == '/repo' else '.scratch-evidence')
REPLAY_DIR = os.path.join(ROOT, 'replays')
KNOWN_FILE = os.path.join(ROOT, 'known_findings.json')
SAMPLE_CAP = 8
VIOL_PER_KEY = 3


def h64(obj):
    return int.from_bytes(hashlib.blake2b(repr(obj).encode(), digest_size=8).digest(), 'little')


def jsonable(o):
    """Best-effort conversion of a case description into JSON (big ints as hex strings)."""
    if isinstance(o, bool) or o is None or isinstance(o, str):
        return o
    if isinstance(o, int):
        return o if -2**53 < o < 2**53 else ('0x%x' % o if o >= 0 else '-0x%x' % -o)
    if isinstance(o, float):
        return o if o == o and abs(o) != float('inf') else repr(o)
    if isinstance(o, complex):
        return repr(o)
    if isinstance(o, dict):
        return {str(k): jsonable(v) for k, v in o.items()}
    if isinstance(o, (list, tuple, set, frozenset)):
        return [jsonable(v) for v in o]
    return repr(o)


def unjson_int(s):
    if isinstance(s, int):
        return s
    if isinstance(s, str) and (s.startswith('0x') or s.startswith('-0x')):
        return int(s, 16)
    raise ValueError(s)


class Recorder(object):
    """Collects what one worker observed."""

    def __init__(self, prop, shard):
        self.prop = prop
        self.shard = shard
        self.evals = 0
        self.nontrivial = set()
        self.classes = collections.Counter()
        self.events = collections.Counter()
        self.anchors = collections.Counter()
        self.viol = {}          # key -> {'count':n, 'items':[...]}
        self.undec = collections.Counter()
        self.undec_items = []
        self.samples = []
        self.keymap = None         # optional module-level KEYMAP(key) -> coarser mechanism key (set by the worker)
        self.auto_samples = []     # the first few evaluated cases, used when the module records no samples itself
        self.maxima = {}
        self.notes = {}
        self.t0 = time.time()

    # -- counting ---------------------------------------------------------------
    def case(self, ident, nontrivial=True, cls=None):
        """Count one evaluated case. ``ident`` canonically identifies the input (hashable/repr-able)."""
        self.evals += 1
        if len(self.auto_samples) < SAMPLE_CAP and nontrivial:
            self.auto_samples.append({'case': jsonable(ident), 'class': cls})
        if nontrivial:
            self.nontrivial.add(h64(ident))
        if cls is not None:
            self.classes[cls] += 1

    def cls(self, name, n=1):
        self.classes[name] += n

    def event(self, name, n=1):
        self.events[name] += n

    def anchor(self, name, n=1):
        self.anchors[name] += n

    def sample(self, obj):
        if len(self.samples) < SAMPLE_CAP:
            self.samples.append(jsonable(obj))

    def maximum(self, name, value, witness=None):
        cur = self.maxima.get(name)
        if cur is None or value > cur[0]:
            self.maxima[name] = (value, jsonable(witness))

    def note(self, name, obj, cap=20):
        lst = self.notes.setdefault(name, [])
        if len(lst) < cap:
            lst.append(jsonable(obj))

    # -- verdicts -----------------------------------------------------------------
    def violation(self, key, what, case, observed=None, expected=None, severity=None):
        """A soundly decided violation. ``key`` is a *mechanism* key (never a case hash)."""
        if self.keymap is not None:
            fine = key
            key = self.keymap(key)
            if isinstance(case, dict) and fine != key:
                case = dict(case, fine_key=fine)
        ent = self.viol.setdefault(key, {'count': 0, 'items': [], 'max_severity': None})
        ent['count'] += 1
        if severity is not None and (ent['max_severity'] is None or severity > ent['max_severity']):
            ent['max_severity'] = severity
            # keep the most severe one among the kept items
            item = {'key': key, 'what': what, 'case': jsonable(case), 'observed': jsonable(observed),
                    'expected': jsonable(expected), 'severity': severity}
            if len(ent['items']) >= VIOL_PER_KEY:
                ent['items'][-1] = item
            else:
                ent['items'].append(item)
            return
        if len(ent['items']) < VIOL_PER_KEY:
            ent['items'].append({'key': key, 'what': what, 'case': jsonable(case), 'observed': jsonable(observed),
                                 'expected': jsonable(expected), 'severity': severity})

    def undecided(self, reason, case=None):
        self.undec[reason] += 1
        if case is not None and len(self.undec_items) < 10:
            self.undec_items.append({'reason': reason, 'case': jsonable(case)})

    def dump(self):
        return {
            'shard': self.shard, 'evals': self.evals,
            'classes': dict(self.classes), 'events': dict(self.events), 'anchors': dict(self.anchors),
            'viol': self.viol, 'undec': dict(self.undec), 'undec_items': self.undec_items,
            'samples': self.samples or self.auto_samples, 'maxima': {k: list(v) for k, v in self.maxima.items()},
            'notes': self.notes, 'wall_s': time.time() - self.t0,
        }


# -------------------------------------------------------------------------------------
# known findings
# -------------------------------------------------------------------------------------

def load_known(prop):
    """known_findings.json (+ per-property files findings.d/<prop>.json while checks are being built)"""
    import glob
    out = {}
    for path in [KNOWN_FILE] + sorted(glob.glob(os.path.join(ROOT, 'findings.d', '*.json'))):
        try:
            data = json.load(open(path))
        except FileNotFoundError:
            continue
        for f in data.get('findings', []):
            if f.get('property') == prop:
                out[f['key']] = f        # later files win (findings.d/<prop>.json over the merged known_findings.json)
    return dict((k, f) for k, f in out.items() if f.get('status') == 'known')


def match_known(known, key, severity):
    f = known.get(key)
    if f is None:
        return None
    ceil = f.get('ceiling')
    if ceil is not None and severity is not None and severity > ceil:
        return None
    return f


# -------------------------------------------------------------------------------------
# driver
# -------------------------------------------------------------------------------------

def _run_one(prop, shard, timeout):
    fd, inpath = tempfile.mkstemp(prefix='vf-%s-' % prop, suffix='.in.json')
    os.write(fd, json.dumps(shard).encode()); os.close(fd)
    outpath = inpath[:-8] + '.out.json'
    env = dict(os.environ)
    env['PYTHONPATH'] = ROOT + (os.pathsep + env['PYTHONPATH'] if env.get('PYTHONPATH') else '')
    env['PYTHONHASHSEED'] = '0'
    env['PYTHONDONTWRITEBYTECODE'] = '1'
    env['VERIF_REPO'] = REPO
    env.setdefault('MPMATH_NOGMPY', '1')
    t0 = time.time()
    try:
        p = subprocess.run([PY, '-m', 'vf.worker', prop, inpath, outpath], env=env, cwd=ROOT,
                           stdout=subprocess.PIPE, stderr=subprocess.PIPE, timeout=timeout)
        status = 'ok' if p.returncode == 0 else 'crash'
        err = p.stderr.decode(errors='replace')[-4000:]
    except subprocess.TimeoutExpired as e:
        status = 'watchdog'
        err = (e.stderr or b'').decode(errors='replace')[-2000:]
    res = None
    if os.path.exists(outpath):
        try:
            res = json.load(open(outpath))
            import array
            nt = array.array('Q')
            if os.path.exists(outpath + '.nt'):
                with open(outpath + '.nt', 'rb') as f:
                    nt.frombytes(f.read())
            res['nontrivial'] = nt
        except Exception:
            res = None
    for pth in (inpath, outpath, outpath + '.nt'):
        try:
            os.unlink(pth)
        except OSError:
            pass
    if status == 'ok' and res is None:
        status = 'crash'
    return {'status': status, 'res': res, 'err': err, 'shard': shard, 'wall': time.time() - t0}


def aggregate(results):
    agg = {'evals': 0, 'nontrivial': 0, 'nt_arrays': [], 'classes': collections.Counter(), 'events': collections.Counter(),
           'anchors': collections.Counter(), 'viol': {}, 'undec': collections.Counter(), 'undec_items': [],
           'samples': [], 'maxima': {}, 'notes': {}, 'shards_ok': 0, 'shards_watchdog': 0, 'shards_crash': 0,
           'crash_msgs': []}
    for r in results:
        st = r['status']
        if st == 'ok':
            agg['shards_ok'] += 1
        elif st == 'watchdog':
            agg['shards_watchdog'] += 1
            agg['undec']['worker-watchdog'] += 1
        else:
            agg['shards_crash'] += 1
            agg['crash_msgs'].append({'shard': r['shard'], 'stderr': r['err'][-1500:]})
        res = r['res']
        if not res:
            continue
        agg['evals'] += res['evals']
        agg['nt_arrays'].append(res['nontrivial'])
        agg['classes'].update(res['classes'])
        agg['events'].update(res['events'])
        agg['anchors'].update(res['anchors'])
        agg['undec'].update(res['undec'])
        agg['undec_items'].extend(res['undec_items'][: max(0, 10 - len(agg['undec_items']))])
        for s in res['samples']:
            if len(agg['samples']) < SAMPLE_CAP:
                agg['samples'].append(s)
        for k, v in res['viol'].items():
            ent = agg['viol'].setdefault(k, {'count': 0, 'items': [], 'max_severity': None})
            ent['count'] += v['count']
            ent['items'].extend(v['items'][: max(0, VIOL_PER_KEY - len(ent['items']))])
            ms = v.get('max_severity')
            if ms is not None and (ent['max_severity'] is None or ms > ent['max_severity']):
                ent['max_severity'] = ms
                # make sure the most severe item is kept
                worst = [it for it in v['items'] if it.get('severity') == ms]
                if worst and worst[0] not in ent['items']:
                    ent['items'][-1:] = [worst[0]]
        for k, v in res['maxima'].items():
            cur = agg['maxima'].get(k)
            if cur is None or v[0] > cur[0]:
                agg['maxima'][k] = v
        for k, v in res['notes'].items():
            lst = agg['notes'].setdefault(k, [])
            lst.extend(v[: max(0, 20 - len(lst))])
    # distinct non-trivial cases across shards: streaming merge of the sorted per-shard hash arrays
    import heapq
    last, n = None, 0
    for h in heapq.merge(*agg.pop('nt_arrays')):
        if h != last:
            n += 1
            last = h
    agg['nontrivial'] = n
    return agg


def write_replay(prop, item, tier, seed):
    os.makedirs(REPLAY_DIR, exist_ok=True)
    body = {'property': prop, 'tier': tier, 'seed': seed}
    body.update(item)
    s = json.dumps(body, sort_keys=True, indent=1)
    name = '%s-%s.json' % (prop, hashlib.sha1(s.encode()).hexdigest()[:12])
    path = os.path.join(REPLAY_DIR, name)
    with open(path, 'w') as f:
        f.write(s)
    return path


def run_check(prop, tier='quick', seed=0, replay=None, out=sys.stdout):
    t0 = time.time()
    mod = importlib.import_module('vf.props.' + prop)
    known = load_known(prop)
    if getattr(mod, 'NEEDS_REF', False):
        from vf import refmodel
        refmodel.ensure_ref()
    if replay:
        case = json.load(open(replay))
        shard_list = [{'replay': case}]
    else:
        shard_list = list(mod.shards(tier, seed))
    for i, sh in enumerate(shard_list):
        sh.setdefault('tier', tier); sh.setdefault('seed', seed); sh.setdefault('shard', i)
    timeout = getattr(mod, 'SHARD_TIMEOUT', {}).get(tier, 600 if tier == 'quick' else 3600)
    with ThreadPoolExecutor(max_workers=NPROC) as ex:
        results = list(ex.map(lambda sh: _run_one(prop, sh, timeout), shard_list))
    agg = aggregate(results)

    # verdicts ---------------------------------------------------------------
    new_viol, known_hit = [], {}
    for key, ent in sorted(agg['viol'].items()):
        f = match_known(known, key, ent.get('max_severity'))
        if f is not None:
            known_hit[key] = {'count': ent['count'], 'what': f.get('what', ''), 'max_severity': ent.get('max_severity')}
        else:
            new_viol.append((key, ent))
    lines = []
    for key, kh in sorted(known_hit.items()):
        lines.append('KNOWN-FINDING: property=%s %s [key=%s; %d case(s) this run]' % (prop, kh['what'], key, kh['count']))
    replay_paths = []
    for key, ent in new_viol:
        items = ent['items'] or [{'key': key}]
        item = max(items, key=lambda it: (it.get('severity') is not None, it.get('severity') or 0))
        path = write_replay(prop, item, tier, seed)
        replay_paths.append(path)
        lines.append('VIOLATION property=%s replay=%s' % (prop, path))
        lines.append('  key=%s count=%d max_severity=%s what=%s' % (key, ent['count'], ent.get('max_severity'), item.get('what')))
        lines.append('  observed=%s expected=%s' % (json.dumps(item.get('observed'))[:300], json.dumps(item.get('expected'))[:300]))

    inconclusive = []
    if not replay:
        if agg['evals'] == 0:
            inconclusive.append('no case was evaluated')
        if agg['shards_crash']:
            inconclusive.append('%d worker(s) crashed (harness error)' % agg['shards_crash'])
        n_und = sum(agg['undec'].values())
        if agg['evals'] and n_und > 0.05 * agg['evals']:
            inconclusive.append('undecided cases %d exceed 5%% of %d evaluations' % (n_und, agg['evals']))
        if agg['shards_watchdog'] > max(1, len(shard_list) // 4):
            inconclusive.append('%d worker(s) stopped by the wall-clock watchdog' % agg['shards_watchdog'])
        req = getattr(mod, 'required', None)
        if req is not None:
            inconclusive.extend(req(agg, tier) or [])

    wall = time.time() - t0
    if not replay:
        write_evidence(mod, prop, tier, seed, agg, known_hit, new_viol, inconclusive, wall, len(shard_list))
    for ln in lines:
        print(ln, file=out)
    for c in agg['crash_msgs'][:3]:
        print('WORKER-CRASH shard=%s\n%s' % (json.dumps(c['shard'])[:200], c['stderr']), file=out)
    status = 1 if new_viol else (2 if inconclusive else 0)
    print('%s tier=%s seed=%d: %s; evaluations=%d distinct_nontrivial=%d undecided=%d known_findings=%d new_violations=%d wall=%.1fs'
          % (prop, tier, seed, {0: 'HELD on everything explored', 1: 'VIOLATED', 2: 'INCONCLUSIVE'}[status],
             agg['evals'], agg['nontrivial'], sum(agg['undec'].values()), len(known_hit), len(new_viol), wall), file=out)
    for r in inconclusive:
        print('INCONCLUSIVE: ' + r, file=out)
    out.flush()
    return status


def write_evidence(mod, prop, tier, seed, agg, known_hit, new_viol, inconclusive, wall, nshards):
    os.makedirs(EVIDENCE_DIR, exist_ok=True)
    cov = {
        'evaluations': agg['evals'],
        'distinct_nontrivial': agg['nontrivial'],
        'rule': getattr(mod, 'RULE', ''),
        'samples': agg['samples'] or [],
        'classes': dict(sorted(agg['classes'].items())),
        'monitor_events': dict(sorted(agg['events'].items())),
        'anchors': dict(sorted(agg['anchors'].items())),
        'undecided': dict(agg['undec']),
        'undecided_samples': agg['undec_items'],
        'maxima_observed': agg['maxima'],
        'observed_not_asserted': agg['notes'],
        'known_findings_hit': known_hit,
        'new_violation_keys': [k for k, _ in new_viol],
        'new_violations': [{'key': k, 'count': e['count'], 'max_severity': e.get('max_severity'),
                            'witness': (max(e['items'], key=lambda it: (it.get('severity') is not None, it.get('severity') or 0))
                                        if e['items'] else None)} for k, e in new_viol],
        'shards': {'total': nshards, 'ok': agg['shards_ok'], 'watchdog': agg['shards_watchdog'], 'crashed': agg['shards_crash']},
        'verdict': 'violated' if new_viol else ('inconclusive' if inconclusive else 'held on what was observed'),
        'inconclusive_reasons': inconclusive,
    }
    if getattr(mod, 'EXHAUSTIVE', None) is not None:
        cov['exhaustive'] = bool(mod.EXHAUSTIVE)
    ev = {
        'property_id': prop, 'tier': tier, 'seed': int(seed), 'level': getattr(mod, 'LEVEL', 'exploration'),
        'coverage': cov, 'assumptions': list(getattr(mod, 'ASSUMPTIONS', [])),
        'wall_s': round(wall, 2), 'violations': len(new_viol),
    }
    tmp = os.path.join(EVIDENCE_DIR, '.%s.tmp' % prop)
    with open(tmp, 'w') as f:
        json.dump(ev, f, indent=1, sort_keys=True)
    os.replace(tmp, os.path.join(EVIDENCE_DIR, prop + '.json'))
