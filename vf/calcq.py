"""calcq -- helpers shared by the calculus checks C26 / C27 / C28 (builderL).

* exact transfer of tree numbers to Fraction / Gaussian rationals (``fr``, ``cfr``) and back (``mk``, ``mkc``)
* dyadic case parameters ``[n, e]`` = n * 2**e (JSON-able, exact in the tree, in Fraction and in the reference library)
* the two deciding rules of these properties, both for  |v - V| <= 2^(logtol - p) * max(1, |V|):
    ``decide_exact``  V is an exact rational / Gaussian rational  -> exact comparison (held / violated)
    ``decide_ref``    V is a closed form evaluated with the *reference release* (mpmath 1.3.0 as mpmath_ref) at
                      2p+200 and again at 2p+264 bits (the two evaluations must agree to 2^-(p+60), otherwise the
                      oracle itself is 'undecided'); guard band 2^-(p+30) * max(1,|V|) -> three-valued verdict
  evidence label of the second one: ``tier: closed-form via reference release``.
"""
from fractions import Fraction
import math

TIER_REF = 'closed-form via reference release'
TIER_EXACT = 'exact rational closed form'


# ---------------------------------------------------------------------------------------
# numbers
# ---------------------------------------------------------------------------------------
def dy(d):
    """[n, e] -> Fraction n * 2**e"""
    n, e = d
    return Fraction(n) * Fraction(2) ** e if e < 0 else Fraction(n << e)


def _raw_to_fr(t):
    s, m, e, bc = t
    if not m:
        if e:
            raise ValueError('non-finite value')
        return Fraction(0)
    v = Fraction(int(m) << e) if e >= 0 else Fraction(int(m), 1 << (-e))
    return -v if s else v


def fr(v):
    """exact Fraction of a finite real tree/reference number (mpf, int, float, Fraction, real mpc)"""
    if isinstance(v, Fraction):
        return v
    if isinstance(v, int):
        return Fraction(v)
    if isinstance(v, float):
        return Fraction(v)
    if hasattr(v, '_mpf_'):
        return _raw_to_fr(v._mpf_)
    if hasattr(v, '_mpc_'):
        re, im = v._mpc_
        if _raw_to_fr(im) != 0:
            raise ValueError('complex value where a real one was expected')
        return _raw_to_fr(re)
    raise TypeError(type(v))


def cfr(v):
    """exact (re, im) Fractions of a finite tree number"""
    if hasattr(v, '_mpc_'):
        re, im = v._mpc_
        return (_raw_to_fr(re), _raw_to_fr(im))
    if isinstance(v, complex):
        return (Fraction(v.real), Fraction(v.imag))
    if isinstance(v, tuple):
        return v
    return (fr(v), Fraction(0))


def is_finite(v):
    try:
        cfr(v)
        return True
    except (ValueError, TypeError):
        return False


def mk(mp, q):
    """exact mpf of a dyadic Fraction (or [n, e]) in context mp, independent of the context precision"""
    if isinstance(q, (list, tuple)):
        q = dy(q)
    q = Fraction(q)
    d = q.denominator
    if d & (d - 1):
        raise ValueError('not dyadic: %r' % (q,))
    from mpmath.libmp import from_man_exp
    return mp.make_mpf(from_man_exp(q.numerator, -(d.bit_length() - 1)))


def mkc(mp, z):
    """exact mpc from a pair of dyadics"""
    return mp.mpc(mk(mp, z[0]), mk(mp, z[1]))


def rq(rmp, q):
    """Fraction -> reference-library real at the current reference precision (correctly rounded quotient)"""
    q = Fraction(q)
    if q.denominator == 1:
        return rmp.mpf(q.numerator)
    return rmp.mpf(q.numerator) / q.denominator


def rc(rmp, z):
    return rmp.mpc(rq(rmp, z[0]), rq(rmp, z[1]))


# Gaussian rationals as (re, im) tuples -------------------------------------------------
def cadd(a, b): return (a[0] + b[0], a[1] + b[1])
def csub(a, b): return (a[0] - b[0], a[1] - b[1])
def cmul(a, b): return (a[0] * b[0] - a[1] * b[1], a[0] * b[1] + a[1] * b[0])
def cscale(a, q): return (a[0] * q, a[1] * q)


def cpow(a, n):
    r = (Fraction(1), Fraction(0))
    b = a
    while n:
        if n & 1:
            r = cmul(r, b)
        b = cmul(b, b)
        n >>= 1
    return r


def cabs2(a):
    return a[0] * a[0] + a[1] * a[1]


def isqrt_floor(q):
    """floor(sqrt(q)) for a Fraction q >= 0 as a Fraction with 64 extra bits (lower bound of sqrt)"""
    n, d = q.numerator << 128, q.denominator
    return Fraction(math.isqrt(n // d), 1 << 64)


def log2f(q):
    """float log2 of a positive Fraction (any size)"""
    if q <= 0:
        return float('-inf')
    n, d = q.numerator, q.denominator
    k = n.bit_length() - d.bit_length()
    r = n / (d << k) if k >= 0 else (n << (-k)) / d      # in [1/2, 2): CPython int/int is correctly rounded
    return math.log2(r) + k


# ---------------------------------------------------------------------------------------
# verdicts
# ---------------------------------------------------------------------------------------
def decide_exact(v, V, p, logtol=10, rel=False):
    """v, V exact (Fraction or (re, im)).  Returns (verdict, log2 of err in units of 2^-p*max(1,|V|)).
    held  iff |v-V| <= 2^(logtol-p) * max(1,|V|)   (decided exactly on squares for complex values)."""
    if isinstance(v, tuple) or isinstance(V, tuple):
        v, V = cfr(v), cfr(V)
        e2 = cabs2(csub(v, V))
        s2 = cabs2(V) if rel else max(Fraction(1), cabs2(V))
        if s2 == 0:
            return ('held' if e2 == 0 else 'violated'), (float('inf') if e2 else float('-inf'))
        T2 = Fraction(4) ** (logtol - p) * s2
        units = 0.5 * (log2f(e2) - log2f(s2)) + p if e2 else float('-inf')
        return ('held' if e2 <= T2 else 'violated'), units
    e = abs(v - V)
    s = abs(V) if rel else max(Fraction(1), abs(V))
    if s == 0:
        return ('held' if e == 0 else 'violated'), (float('inf') if e else float('-inf'))
    T = Fraction(2) ** (logtol - p) * s
    units = log2f(e) - log2f(s) + p if e else float('-inf')
    return ('held' if e <= T else 'violated'), units


class RefOracle(object):
    """closed form evaluated with the reference release; ``fn(rmp)`` must build every constant exactly
    (integers, rq(), rc()) *inside* the call so that it is evaluated at the precision set here."""

    def __init__(self, fn):
        self.fn = fn
        self.cache = {}

    def value(self, p):
        """-> (V at 2p+264 bits, None) or (None, reason)"""
        if p in self.cache:
            return self.cache[p]
        from vf import refmodel
        rmp = refmodel.ref().mp
        old = rmp.prec
        try:
            rmp.prec = 2 * p + 200
            try:
                v1 = self.fn(rmp)
                rmp.prec = 2 * p + 264
                v2 = self.fn(rmp)
            except Exception as e:
                out = (None, 'oracle raised %s' % type(e).__name__)
                self.cache[p] = out
                return out
            rmp.prec = 2 * p + 300
            v1 = rmp.mpmathify(v1); v2 = rmp.mpmathify(v2)
            if not (rmp.isfinite(v1) and rmp.isfinite(v2)):
                out = (None, 'oracle not finite')
            else:
                s = max(1, abs(v2))
                if abs(v1 - v2) > rmp.ldexp(s, -(p + 60)):
                    out = (None, 'oracle unstable (closed form loses too many bits)')
                else:
                    out = (v2, None)
        finally:
            rmp.prec = old
        self.cache[p] = out
        return out


def decide_ref(v, V, p, logtol=10, guard=30, rel=False):
    """v: tree value (mpf/mpc) or exact Fraction/(re,im); V reference number accurate to 2^-(p+60)*max(1,|V|).
    -> (verdict, log2 err units)"""
    from vf import refmodel
    rmp = refmodel.ref().mp
    old = rmp.prec
    try:
        rmp.prec = 2 * p + 400
        if hasattr(v, '_mpf_') or hasattr(v, '_mpc_'):
            if not is_finite(v):
                return 'violated', float('inf')
            vr = refmodel.to_ref(rmp, v)
        elif isinstance(v, tuple):
            vr = rc(rmp, v)
        else:
            vr = rq(rmp, v)
        e = abs(vr - V)
        s = abs(V) if rel else max(1, abs(V))
        if s == 0:
            return 'undecided', float('nan')
        T = rmp.ldexp(s, logtol - p)
        g = rmp.ldexp(s, -(p + guard))
        units = float(rmp.log(e / s, 2)) + p if e else float('-inf')
        if e > T + g:
            return 'violated', units
        if e <= T - g:
            return 'held', units
        return 'undecided', units
    finally:
        rmp.prec = old


def decide(v, oracle, p, logtol=10, rel=False):
    """oracle: Fraction / (re,im) tuple (exact) or RefOracle.  -> (verdict, units, tier, expected-for-report)"""
    if isinstance(oracle, RefOracle):
        V, why = oracle.value(p)
        if V is None:
            return 'undecided:' + why, None, TIER_REF, None
        if not (hasattr(v, '_mpf_') or hasattr(v, '_mpc_') or isinstance(v, (tuple, Fraction, int))):
            return 'violated', float('inf'), TIER_REF, _short(V)
        verdict, units = decide_ref(v, V, p, logtol, rel=rel)
        return verdict, units, TIER_REF, _short(V)
    try:
        vv = cfr(v) if isinstance(oracle, tuple) else (fr(v) if not hasattr(v, '_mpc_') else cfr(v))
    except (ValueError, TypeError):
        return 'violated', float('inf'), TIER_EXACT, _shortq(oracle)
    verdict, units = decide_exact(vv, oracle, p, logtol, rel=rel)
    return verdict, units, TIER_EXACT, _shortq(oracle)


def _short(V):
    from vf import refmodel
    rmp = refmodel.ref().mp
    return rmp.nstr(V, 25)


def _shortq(q):
    if isinstance(q, tuple):
        return '(%s, %s)' % (_shortq(q[0]), _shortq(q[1]))
    q = Fraction(q)
    if q.denominator == 1 and abs(q.numerator) < 10 ** 30:
        return str(q.numerator)
    try:
        return '%.25g (exact rational)' % float(q)
    except OverflowError:
        return 'rational of 2^%.0f' % log2f(abs(q))


def show(v):
    """short printable form of a tree value"""
    try:
        import mpmath
        return mpmath.mp.nstr(v, 25)
    except Exception:
        return repr(v)[:80]
