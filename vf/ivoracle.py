"""ivoracle -- shared machinery of the interval-containment checks C14 (real) and C15 (complex)   [builderH]

* exact dyadic helpers and *sample points* of intervals / rectangles (endpoints, midpoint, points adjacent to the
  endpoints, random dyadic interior points with many bits, zero, finite points of half-infinite intervals)
* rigorous point enclosures of the operations named in the statements: exact integer arithmetic for + - * and small
  integer powers, ``vf.ball`` for / ** sqrt exp log sin cos tan atan2 (complex: c_exp c_log c_sin c_cos c_abs c_power),
  a *consensus enclosure* (reference release at two precisions + the tree's own mp at 3p+300) for the gamma family
* the containment verdict with a precision ladder (violated iff the enclosure lies ENTIRELY outside the returned
  interval; held iff entirely inside; else the enclosure is refined, finally undecided)
* PrimitiveTap: sys.monitoring tap on the directed-rounded libmp primitives; each directed result can be compared
  with the enclosure of the primitive's own exact arguments (localises a containment failure)
* IntervalStoreMonitor: StoreHook on iv.mpf._mpi_ / iv.mpc._mpci_ (a <= b, canonical endpoints, no nan)

Nothing here imports mpmath at module level (workers import the tree themselves)."""
import sys
from fractions import Fraction
from vf import ball
from vf import exactq as Q
from vf.ball import RB, CB, Indeterminate

fzero, finf, fninf, fnan = Q.fzero, Q.finf, Q.fninf, Q.fnan
FAR_LIMIT = 400000          # exact alignment of dyadics further apart than this many bits is refused


class TooFar(Exception):
    pass


# ---------------------------------------------------------------------------------------
# raw tuples / dyadics
# ---------------------------------------------------------------------------------------

def is_fin(t):
    return bool(t[1]) or t == fzero


def is_nan(t):
    return (not t[1]) and t != fzero and t != finf and t != fninf


def dy(t):
    s, m, e, b = t
    return (-int(m) if s else int(m)), e


def raw(d):
    m, e = d
    return Q.canon(1 if m < 0 else 0, abs(m), e)


def dnorm(d):
    m, e = d
    if not m:
        return 0, 0
    t = (m & -m).bit_length() - 1
    return m >> t, e + t


def dadd(a, b):
    (m1, e1), (m2, e2) = a, b
    if not m1:
        return b
    if not m2:
        return a
    if abs(e1 - e2) > FAR_LIMIT:
        raise TooFar()
    if e1 >= e2:
        return (m1 << (e1 - e2)) + m2, e2
    return m1 + (m2 << (e2 - e1)), e1


def dneg(a):
    return -a[0], a[1]


def dsub(a, b):
    return dadd(a, dneg(b))


def dmul(a, b):
    return a[0] * b[0], a[1] + b[1]


def dcmp(a, b):
    (m1, e1), (m2, e2) = a, b
    if m1 == 0 or m2 == 0 or (m1 > 0) != (m2 > 0):
        return (m1 > m2) - (m1 < m2)
    sg = 1 if m1 > 0 else -1
    t1, t2 = abs(m1).bit_length() + e1, abs(m2).bit_length() + e2
    if t1 != t2:
        return sg if t1 > t2 else -sg
    if e1 >= e2:
        x, y = m1 << (e1 - e2), m2
    else:
        x, y = m1, m2 << (e2 - e1)
    return (x > y) - (x < y)


def dabs(a):
    return abs(a[0]), a[1]


def dfrac(d):
    m, e = d
    return Fraction(m << e) if e >= 0 else Fraction(m, 1 << -e)


def dbits(d):
    m = abs(d[0])
    if not m:
        return 0
    return m.bit_length() - ((m & -m).bit_length() - 1)


def dlog2(d):
    """log2 |d| as a float (d != 0)"""
    import math
    m, e = abs(d[0]), d[1]
    bl = m.bit_length()
    if bl > 60:
        return math.log2(m >> (bl - 60)) + float(bl - 60 + e)
    return math.log2(m) + float(e)


def raw_cmp(a, b):
    """three-way comparison of two raw values that may be infinite (not nan)"""
    if a == b:
        return 0
    if a == fninf or b == finf:
        return -1
    if a == finf or b == fninf:
        return 1
    return dcmp(dy(a), dy(b))


def sign_class(lo, hi):
    """a priori partition of an interval by the signs of its endpoints (the partition the sign-case analyses of
    libmpi are written over)"""
    if lo == fninf and hi == finf:
        return 'R'
    sl = -1 if lo == fninf else (1 if lo == finf else (lo[1] != 0) * (-1 if lo[0] else 1))
    sh = 1 if hi == finf else (-1 if hi == fninf else (hi[1] != 0) * (-1 if hi[0] else 1))
    inf = 'inf' if (lo == fninf or hi == finf) else ''
    if sl == 0 and sh == 0:
        return '0'
    if sl > 0:
        return 'pos' + inf
    if sh < 0:
        return 'neg' + inf
    if sl == 0:
        return '0pos' + inf
    if sh == 0:
        return 'neg0' + inf
    return 'mixed' + inf


# ---------------------------------------------------------------------------------------
# sample points
# ---------------------------------------------------------------------------------------

def samples_1d(r, lo, hi, bits, nrand=3):
    """[(kind, dyadic)] sample points of the real interval [lo, hi] (raw endpoints, possibly infinite)"""
    out = []
    flo, fhi = is_fin(lo), is_fin(hi)
    try:
        if flo and fhi:
            A, B = dy(lo), dy(hi)
            if dcmp(A, B) >= 0:
                return [('point', A)]
            W = dsub(B, A)
            out = [('endpoint', A), ('endpoint', B), ('mid', dadd(A, (W[0], W[1] - 1)))]
            for j in (bits + 40, r.choice([2, 3, bits - 1, bits + 3, 3 * bits + 100])):
                out.append(('adjacent', dadd(A, (W[0], W[1] - j))))
                out.append(('adjacent', dsub(B, (W[0], W[1] - j))))
            for _ in range(nrand):
                t = r.choice([2, 8, 64, bits + 20, 3 * bits])
                k = r.randrange(1, 1 << t)
                out.append(('interior', dadd(A, (W[0] * k, W[1] - t))))
            if A[0] < 0 < B[0]:
                out.append(('zero', (0, 0)))
                out.append(('interior', (1, min(A[1] + abs(A[0]).bit_length(), B[1] + B[0].bit_length()) - r.choice([2, bits + 30]))))
                out.append(('interior', (-1, min(A[1] + abs(A[0]).bit_length(), B[1] + B[0].bit_length()) - r.choice([2, bits + 30]))))
        elif flo or fhi:
            A = dy(lo) if flo else dy(hi)
            sg = 1 if flo else -1
            out = [('endpoint', A)]
            top = (abs(A[0]).bit_length() + A[1]) if A[0] else 0
            for k in (top - bits - r.randint(1, 40), top - r.randint(0, 8), top + r.randint(1, 30), r.randint(40, 700)):
                out.append(('interior', dadd(A, (sg * (r.getrandbits(24) | 1), k - 24))))
            if (A[0] < 0 and flo) or (A[0] > 0 and fhi):
                out.append(('zero', (0, 0)))
        else:
            out = [('zero', (0, 0))]
            for k in (-r.randint(1, 300), r.randint(0, 8), r.randint(9, 700)):
                for sg in (1, -1):
                    out.append(('interior', (sg * (r.getrandbits(30) | 1), k - 30)))
    except TooFar:
        out = [(k, d) for k, d in out]
    return [(k, dnorm(d)) for k, d in out]


def contains_point(lo, hi, d):
    """exact membership of the dyadic d in the interval [lo, hi] (raw endpoints)"""
    if is_fin(lo) and dcmp(d, dy(lo)) < 0:
        return False
    if is_fin(hi) and dcmp(d, dy(hi)) > 0:
        return False
    return True


def sample_pairs(r, sx, sy, cap=12):
    """pairs for a binary operation: all endpoint corners, mid x mid, then random combinations"""
    ex = [s for s in sx if s[0] in ('endpoint', 'point')]
    ey = [s for s in sy if s[0] in ('endpoint', 'point')]
    pairs = [(a, b) for a in ex for b in ey]
    mx = [s for s in sx if s[0] == 'mid'] or ex[:1] or sx[:1]
    my = [s for s in sy if s[0] == 'mid'] or ey[:1] or sy[:1]
    if mx and my:
        pairs.append((mx[0], my[0]))
    zx = [s for s in sx if s[0] == 'zero']
    zy = [s for s in sy if s[0] == 'zero']
    for z in zx:
        pairs.append((z, r.choice(sy)))
    for z in zy:
        pairs.append((r.choice(sx), z))
    while len(pairs) < cap and sx and sy:
        pairs.append((r.choice(sx), r.choice(sy)))
    seen, out = set(), []
    for a, b in pairs:
        k = (a[1], b[1])
        if k not in seen:
            seen.add(k)
            out.append((a, b))
    return out[:max(cap, 4)]


def samples_rect(r, re, im, bits, nrand=3):
    """[(kind, (x, y))] sample points of a rectangle: corners, edge midpoints, centre, random interior points,
    points adjacent to corners, axis points when the rectangle touches/crosses an axis"""
    sx = samples_1d(r, re[0], re[1], bits, nrand)
    sy = samples_1d(r, im[0], im[1], bits, nrand)
    ex = [s for s in sx if s[0] in ('endpoint', 'point')]
    ey = [s for s in sy if s[0] in ('endpoint', 'point')]
    mx = [s for s in sx if s[0] == 'mid'] or ex[:1]
    my = [s for s in sy if s[0] == 'mid'] or ey[:1]
    out = [('corner', (a[1], b[1])) for a in ex for b in ey]
    out += [('edge-mid', (a[1], my[0][1])) for a in ex if my] + [('edge-mid', (mx[0][1], b[1])) for b in ey if mx]
    if mx and my:
        out.append(('centre', (mx[0][1], my[0][1])))
    ix = [s for s in sx if s[0] in ('interior', 'adjacent', 'zero')] or sx
    iy = [s for s in sy if s[0] in ('interior', 'adjacent', 'zero')] or sy
    for _ in range(nrand + 2):
        a, b = r.choice(ix), r.choice(iy)
        kind = 'axis' if (a[0] == 'zero' or b[0] == 'zero') else ('adjacent' if 'adjacent' in (a[0], b[0]) else 'interior')
        out.append((kind, (a[1], b[1])))
    for z in [s for s in sx if s[0] == 'zero']:
        for b in ey[:2] + my[:1]:
            out.append(('axis', (z[1], b[1])))
    for z in [s for s in sy if s[0] == 'zero']:
        for a in ex[:2] + mx[:1]:
            out.append(('axis', (a[1], z[1])))
    seen, res = set(), []
    for k, p in out:
        if p not in seen:
            seen.add(p)
            res.append((k, p))
    return res


# ---------------------------------------------------------------------------------------
# verdicts
# ---------------------------------------------------------------------------------------

def part_verdict(lo, hi, E):
    """[lo, hi] raw endpoints (possibly infinite) against the enclosure E (RB) of one exact value.
    'held' (E entirely inside) / 'below' (E entirely below lo) / 'above' (E entirely above hi) / 'undecided'"""
    lo_ok = hi_ok = True
    if lo == finf:
        return 'below'
    if hi == fninf:
        return 'above'
    if lo != fninf:
        L = RB.from_raw(lo)
        if E.certainly_lt(L):
            return 'below'
        lo_ok = E.certainly_ge(L)
    if hi != finf:
        H = RB.from_raw(hi)
        if E.certainly_gt(H):
            return 'above'
        hi_ok = E.certainly_le(H)
    return 'held' if (lo_ok and hi_ok) else 'undecided'


def excess_ulps(lo, hi, E, side, prec):
    """how far outside the value lies, in units of one ulp (2^-prec relative to the violated endpoint); float"""
    try:
        end = lo if side == 'below' else hi
        c = dy(end)
        if c[0] == 0:
            return float('inf')
        near = E.hi if side == 'below' else E.lo
        d = dsub(c, near)
        if d[0] == 0:
            return 0.0
        l2 = dlog2(d) - dlog2(c)
        return 2.0 ** min(1000.0, l2 + prec)
    except Exception:
        return float('nan')


def ladder(prec, extra=0):
    b = prec + 64 + extra
    return [b, 2 * b + 64, 4 * b + 256]


def decide_point(res_parts, enclose, prec, extra=0):
    """res_parts: [(lo, hi)] raw (1 part real, 2 parts complex); enclose(wp) -> RB | CB | raises Indeterminate.
    Returns (verdict, info): verdict 'held' | 'violated' | 'undecided' | 'indeterminate'."""
    last = None
    for wp in ladder(prec, extra):
        old = ball.getprec()
        ball.setprec(wp)
        try:
            E = enclose(wp)
        except Indeterminate as ex:
            return 'indeterminate', str(ex)
        except TooFar:
            return 'indeterminate', 'operands too far apart for exact alignment'
        finally:
            ball.setprec(old)
        if E is None:
            return 'indeterminate', 'no enclosure'
        parts = [E] if isinstance(E, RB) else [E.re, E.im]
        vs = [part_verdict(lo, hi, P) for (lo, hi), P in zip(res_parts, parts)]
        for i, v in enumerate(vs):
            if v in ('below', 'above'):
                lo, hi = res_parts[i]
                return 'violated', {'part': i, 'side': v, 'enclosure': repr(parts[i]), 'wp': wp,
                                    'excess_ulps': excess_ulps(lo, hi, parts[i], v, prec)}
        if all(v == 'held' for v in vs):
            return 'held', None
        last = {'wp': wp, 'enclosure': repr(E)}
        if all(P.is_point() for P in parts):
            break
    return 'undecided', last


# ---------------------------------------------------------------------------------------
# point oracles (arguments: dyadics; exact where cheap)
# ---------------------------------------------------------------------------------------

def P(d):
    return RB.point(d[0], d[1])


def o_add(x, y):
    return P(dadd(x, y))


def o_sub(x, y):
    return P(dsub(x, y))


def o_mul(x, y):
    return P(dmul(x, y))


def o_div(x, y):
    if y[0] == 0:
        raise Indeterminate('division by zero')
    return P(x) / P(y)


def o_pow_int(x, n):
    if x[0] == 0:
        if n > 0:
            return RB.point(0, 0)
        if n == 0:
            return RB.point(1, 0)
        raise Indeterminate('0 ** negative')
    if n >= 0 and abs(x[0]).bit_length() * n <= 60000:
        return P((x[0] ** n, x[1] * n))
    if n < 0 and abs(x[0]).bit_length() * (-n) <= 60000:
        return RB.point(1, 0) / P((x[0] ** (-n), x[1] * (-n)))
    if abs(n) <= 64:
        return ball.rpow_int(P(x), n)
    # large exponent: exp(n log|x|) with the sign rule
    a = P((abs(x[0]), x[1]))
    v = ball.exp(ball.log(a) * n)
    return -v if (x[0] < 0 and (n & 1)) else v


def int_of(d):
    """integer value of a dyadic that is an exact integer of modest size, else None"""
    m, e = dnorm(d)
    if m == 0:
        return 0
    if e >= 0:
        return (m << e) if e < 4000 else None
    return None


def o_pow_real(x, y):
    """principal real power of a dyadic base x > 0 (or x = 0 with y > 0; integer y for any base)"""
    n = int_of(y)
    if n is not None and abs(n) < (1 << 40):
        return o_pow_int(x, n)
    if x[0] > 0:
        r = _exact_root_power(x, y)
        if r is not None:
            return r
        return ball.power(P(x), P(y))
    if x[0] == 0 and y[0] > 0:
        return RB.point(0, 0)
    raise Indeterminate('non-positive base with non-integer exponent')


def _exact_root_power(x, y):
    """x ** (n / 2^j) when the dyadic x > 0 is a perfect 2^j-th power (4 ** -2.5 = 2^-5): exact, else None"""
    import math
    m, e = dnorm(x)
    n, ye = dnorm(y)
    j = -ye
    if j <= 0 or j > 64 or abs(n) > (1 << 20):
        return None
    for _ in range(j):
        if e & 1:
            return None
        r = math.isqrt(m)
        if r * r != m:
            return None
        m, e = r, e // 2
    return o_pow_int((m, e), n)


def o_pow_complex(x, y):
    """principal value exp(y log x) for real dyadic x < 0 and non-integer real y (log continuous from above)"""
    return ball.c_power(CB(P(x), RB.point(0, 0)), CB(P(y), RB.point(0, 0)))


REAL_FUNS = {
    'exp': lambda x: ball.exp(P(x)),
    'log': lambda x: ball.log(P(x)),
    'sqrt': lambda x: ball.sqrt(P(x)),
    'sin': lambda x: ball.sin(P(x)),
    'cos': lambda x: ball.cos(P(x)),
    'tan': lambda x: ball.tan(P(x)),
    'abs': lambda x: P((abs(x[0]), x[1])),
    'neg': lambda x: P(dneg(x)),
    'pos': lambda x: P(x),
}


def o_atan2(y, x):
    if y[0] == 0 and x[0] == 0:
        raise Indeterminate('atan2(0,0)')
    return ball.atan2(P(y), P(x))


def C(z):
    return CB(P(z[0]), P(z[1]))


def c_add(z, w):
    return CB(P(dadd(z[0], w[0])), P(dadd(z[1], w[1])))


def c_sub(z, w):
    return CB(P(dsub(z[0], w[0])), P(dsub(z[1], w[1])))


def c_mul(z, w):
    (a, b), (c, d) = z, w
    return CB(P(dsub(dmul(a, c), dmul(b, d))), P(dadd(dmul(a, d), dmul(b, c))))


def c_div(z, w):
    if w[0][0] == 0 and w[1][0] == 0:
        raise Indeterminate('division by zero')
    (a, b), (c, d) = z, w
    n = P(dadd(dmul(c, c), dmul(d, d)))
    return CB(P(dadd(dmul(a, c), dmul(b, d))) / n, P(dsub(dmul(b, c), dmul(a, d))) / n)


def c_pow_int(z, n):
    a, b = z
    if a[0] == 0 and b[0] == 0:
        if n > 0:
            return CB(RB.point(0, 0), RB.point(0, 0))
        if n == 0:
            return CB(RB.point(1, 0), RB.point(0, 0))
        raise Indeterminate('0 ** negative')
    if b[0] == 0:
        return CB(o_pow_int(a, n), RB.point(0, 0))
    if a[0] == 0 and abs(n) < (1 << 40):
        # (i b)^n = i^n b^n
        v = o_pow_int(b, n)
        k = n % 4
        zero = RB.point(0, 0)
        return [CB(v, zero), CB(zero, v), CB(-v, zero), CB(zero, -v)][k]
    bl = max(abs(a[0]).bit_length(), abs(b[0]).bit_length()) + 2
    if 0 <= n and bl * n <= 40000:
        # exact Gaussian-dyadic power by repeated squaring on integers
        e = min(a[1], b[1]) if (a[0] and b[0]) else (a[1] if a[0] else b[1])
        if max(a[1], b[1]) - e > 20000:
            return ball.c_pow_int(C(z), n)
        A = a[0] << (a[1] - e) if a[0] else 0
        B = b[0] << (b[1] - e) if b[0] else 0
        R, I = 1, 0
        k = n
        X, Y = A, B
        while k:
            if k & 1:
                R, I = R * X - I * Y, R * Y + I * X
            k >>= 1
            if k:
                X, Y = X * X - Y * Y, 2 * X * Y
        return CB(P((R, e * n)), P((I, e * n)))
    if abs(n) <= 4096:
        return ball.c_pow_int(C(z), n)
    return ball.c_power(C(z), CB(RB.point(n, 0), RB.point(0, 0)))


def c_pow(z, w):
    if w[1][0] == 0:
        n = int_of(w[0])
        if n is not None and abs(n) < (1 << 30):
            return c_pow_int(z, n)
    if z[0][0] == 0 and z[1][0] == 0:
        if w[0][0] > 0:
            return CB(RB.point(0, 0), RB.point(0, 0))
        raise Indeterminate('0 ** w with Re w <= 0')
    return ball.c_exp(C(w) * ball.c_log(C(z)))


def c_log(z):
    if z[0][0] == 0 and z[1][0] == 0:
        raise Indeterminate('log 0')
    return ball.c_log(C(z))


COMPLEX_FUNS = {
    'exp': lambda z: ball.c_exp(C(z)),
    'log': c_log,
    'sin': lambda z: ball.c_sin(C(z)),
    'cos': lambda z: ball.c_cos(C(z)),
    'neg': lambda z: CB(P(dneg(z[0])), P(dneg(z[1]))),
    'pos': lambda z: C(z),
}


def c_abs(z):
    a, b = z
    if b[0] == 0:
        return P((abs(a[0]), a[1]))
    if a[0] == 0:
        return P((abs(b[0]), b[1]))
    return ball.sqrt(P(dadd(dmul(a, a), dmul(b, b))))


# ---------------------------------------------------------------------------------------
# consensus enclosure for the gamma family (reference release at p+64 and 2p+200 bits, tree's mp at 3p+300)
# ---------------------------------------------------------------------------------------

class Consensus(object):
    """enclosure = v (1 +- 2^-(p+30)) where v is the reference-release value at 2p+200 bits, accepted only when the
    release at p+64 bits AND the tree's own mp at 3p+300 bits agree with it to 2^-(p+40) (relative, modulus sense)."""

    def __init__(self):
        from vf import refmodel
        import mpmath
        self.rmp = refmodel.ref().mp
        self.tmp = mpmath.mp
        self.stats = {'ok': 0, 'disagree': 0, 'raised': 0}

    @staticmethod
    def _val(v):
        """(re dyadic, im dyadic) of an mpf/mpc result; None if not finite"""
        if hasattr(v, '_mpf_'):
            t = v._mpf_
            if not is_fin(t):
                return None
            return dy(t), (0, 0)
        if hasattr(v, '_mpc_'):
            a, b = v._mpc_
            if not (is_fin(a) and is_fin(b)):
                return None
            return dy(a), dy(b)
        return None

    def _call(self, lib, fname, z, prec, complex_arg):
        old = lib.prec
        lib.prec = prec
        try:
            if complex_arg:
                x = lib.make_mpc((raw(z[0]), raw(z[1])))
            else:
                x = lib.make_mpf(raw(z[0]))
            return getattr(lib, fname)(x)
        finally:
            lib.prec = old

    def enclose(self, fname, z, p, complex_arg=False):
        """z = (re dyadic, im dyadic); returns (RB | CB | None, reason)"""
        try:
            v_hi = self._val(self._call(self.rmp, fname, z, 2 * p + 200, complex_arg))
            v_lo = self._val(self._call(self.rmp, fname, z, p + 64, complex_arg))
            v_t = self._val(self._call(self.tmp, fname, z, 3 * p + 300, complex_arg))
        except Exception as ex:
            self.stats['raised'] += 1
            return None, 'consensus source raised %s' % type(ex).__name__
        if v_hi is None or v_lo is None or v_t is None:
            self.stats['raised'] += 1
            return None, 'consensus source returned a non-finite value'
        hr, hi_ = v_hi
        try:
            mod_ub = dadd(dabs(hr), dabs(hi_))                                   # >= |v|
            mod_lb = dabs(hr) if dcmp(dabs(hr), dabs(hi_)) >= 0 else dabs(hi_)     # <= |v|
            if mod_ub[0] == 0:
                if v_lo == ((0, 0), (0, 0)) and v_t == ((0, 0), (0, 0)):
                    self.stats['ok'] += 1
                    return (CB(RB.point(0, 0), RB.point(0, 0)) if complex_arg else RB.point(0, 0)), 'exact zero'
                self.stats['disagree'] += 1
                return None, 'consensus sources disagree (zero)'
            tol = (mod_lb[0], mod_lb[1] - (p + 40))
            for (r_, i_) in (v_lo, v_t):
                dist = dadd(dabs(dsub(r_, hr)), dabs(dsub(i_, hi_)))
                if dcmp(dist, tol) > 0:
                    self.stats['disagree'] += 1
                    return None, 'consensus sources disagree'
            rad = (mod_ub[0], mod_ub[1] - (p + 30))

            def rb(c):
                return RB(dsub(c, rad), dadd(c, rad))
            self.stats['ok'] += 1
            if complex_arg or hi_[0] != 0:
                return CB(rb(hr), rb(hi_)), 'consensus'
            return rb(hr), 'consensus'
        except TooFar:
            return None, 'consensus values too far apart for exact alignment'


# ---------------------------------------------------------------------------------------
# monitors
# ---------------------------------------------------------------------------------------

class IntervalStoreMonitor(object):
    """StoreHook on iv.mpf._mpi_ and iv.mpc._mpci_: every stored interval must have a <= b, canonical endpoints and
    no nan endpoint.  Problems are queued in ``self.bad`` (the check attributes them to the operation under way)."""

    def __init__(self, iv):
        from vf.instrument import StoreHook
        self.iv = iv
        self.stores = 0
        self.bad = []
        self.hook = StoreHook(self.on_store)

    def __enter__(self):
        self.hook.attach_iv(self.iv)
        return self

    def __exit__(self, *a):
        self.hook.detach()
        return False

    def _one(self, v):
        try:
            a, b = v
        except Exception:
            self.bad.append(('malformed', repr(v)))
            return
        if not (Q.is_canonical(a) and Q.is_canonical(b)):
            self.bad.append(('noncanonical-endpoint', (a, b)))
            return
        if is_nan(a) or is_nan(b):
            self.bad.append(('nan-endpoint', (a, b)))
            return
        if raw_cmp(a, b) > 0:
            self.bad.append(('inverted', (a, b)))

    def on_store(self, kind, v):
        self.stores += 1
        try:
            if kind == 'mpi':
                self._one(v)
            else:
                try:
                    re, im = v
                except Exception:
                    self.bad.append(('malformed', repr(v)))
                    return
                self._one(re)
                self._one(im)
        except Exception as ex:           # a monitor never raises into the monitored code
            self.bad.append(('monitor-error', repr(ex)))

    def take(self):
        b, self.bad = self.bad, []
        return b


TAPPED = ['mpf_exp', 'mpf_log', 'mpf_sqrt', 'mpf_atan', 'mpf_atan2', 'mpf_pow_int', 'mpf_add', 'mpf_sub', 'mpf_mul',
          'mpf_div', 'mpf_pos', 'mpf_neg', 'mpf_gamma', 'mpc_gamma', 'from_str', 'from_int', 'from_float',
          'from_rational', 'mpf_cos_sin']
TAPPED_INTERVAL = ['mpi_atan2']      # interval-level routines checked in isolation (localisation of shared defects)


class PrimitiveTap(object):
    """Records (name, arguments, result) of every call of the tapped libmp primitives made with a directed
    rounding mode ('f', 'c', 'u'); ``verdict(record)`` compares the result with the enclosure of the primitive's own
    exact arguments."""

    def __init__(self):
        from vf.instrument import ReturnTap
        import mpmath.libmp as L
        codes = {}
        for n in TAPPED + TAPPED_INTERVAL:
            f = getattr(L, n, None)
            if f is None:
                import mpmath.libmp.gammazeta as GZ
                f = getattr(GZ, n, None)
            if f is not None and hasattr(f, '__code__'):
                codes[f.__code__] = n
        self.codes = codes
        self.argnames = {c: c.co_varnames[:c.co_argcount] for c in codes}
        self.stack = []
        self.records = []
        self.enabled = False
        self.nrec = 0
        self.tap = ReturnTap(codes, self.on_return, self.on_start)

    def __enter__(self):
        self.tap.install()
        self.tap.active = False
        return self

    def __exit__(self, *a):
        self.tap.uninstall()
        return False

    def on_start(self, name, code, loc):
        if not self.enabled:
            return
        args = {}
        for k in self.argnames[code]:
            args[k] = loc.get(k)
        self.stack.append((code, name, args))

    def on_return(self, name, code, ret):
        if not self.enabled:
            return
        st = self.stack
        while st:
            c, n, args = st.pop()
            if c is code:
                rnd = args.get('rnd')
                if n in TAPPED_INTERVAL:
                    self.records.append((n, args, ret, len(st)))
                    self.nrec += 1
                elif rnd in ('f', 'c', 'u') and isinstance(args.get('prec'), int):
                    self.records.append((n, args, ret, len(st)))
                    self.nrec += 1
                return

    def begin(self):
        self.stack = []
        self.records = []
        self.enabled = True
        self.tap.active = True

    def end(self):
        self.enabled = False
        self.tap.active = False
        r, self.records = self.records, []
        return r


def _dir_verdict(c_raw, E, rnd):
    if not is_fin(c_raw):
        return 'skip'
    if rnd == 'u':
        return ball.decide_directed(c_raw, E, 'u')
    return ball.decide_directed(c_raw, E, rnd)


def primitive_enclosure(name, a, consensus=None, wp=None):
    """enclosure (RB) of the exact value of a tapped primitive call at the current ball precision, or None"""
    def fin(*ts):
        return all(t is not None and is_fin(t) for t in ts)
    if name in ('mpf_exp', 'mpf_log', 'mpf_atan'):
        x = a['x']
        if not fin(x) or (name != 'mpf_exp' and x == fzero):
            return None
        if name == 'mpf_log' and x[0]:
            return None
        return {'mpf_exp': ball.exp, 'mpf_log': ball.log, 'mpf_atan': ball.atan}[name](RB.from_raw(x))
    if name == 'mpf_sqrt':
        s = a['s']
        if not fin(s) or s[0]:
            return None
        return ball.sqrt(RB.from_raw(s))
    if name == 'mpf_atan2':
        y, x = a['y'], a['x']
        if not fin(y, x) or (y == fzero and x == fzero):
            return None
        return ball.atan2(RB.from_raw(y), RB.from_raw(x))
    if name == 'mpf_pow_int':
        s, n = a['s'], a['n']
        if not fin(s):
            return None
        return o_pow_int(dy(s), int(n))
    if name in ('mpf_add', 'mpf_sub', 'mpf_mul', 'mpf_div'):
        s, t = a['s'], a['t']
        if not fin(s, t):
            return None
        if name == 'mpf_add' and a.get('_sub'):
            name = 'mpf_sub'
        if name == 'mpf_div' and t == fzero:
            return None
        return {'mpf_add': o_add, 'mpf_sub': o_sub, 'mpf_mul': o_mul, 'mpf_div': o_div}[name](dy(s), dy(t))
    if name in ('mpf_pos', 'mpf_neg'):
        s = a['s']
        if not fin(s):
            return None
        return P(dy(s)) if name == 'mpf_pos' else P(dneg(dy(s)))
    if name == 'from_int':
        return RB.point(int(a['n']), 0)
    if name == 'from_float':
        x = a['x']
        if x != x or x in (float('inf'), float('-inf')):
            return None
        q = Fraction(x)
        return RB.from_fraction(q)
    if name == 'from_rational':
        if not a['q']:
            return None
        return RB.from_fraction(Fraction(int(a['p']), int(a['q'])))
    if name == 'from_str':
        ex = Q.parse_decimal(a['x']) if isinstance(a['x'], str) else None
        if ex is None or Q.is_special(ex):
            return None
        return RB.from_fraction(ex.fraction())
    if name == 'mpf_gamma' and consensus is not None:
        x = a['x']
        if not fin(x) or x == fzero:
            return None
        fn = {0: 'gamma', 1: 'factorial', 2: 'rgamma', 3: 'loggamma'}[a.get('type', 0)]
        if fn == 'loggamma' and x[0]:
            return None
        E = gamma_exact(fn, dy(x))
        if E is None:
            E, why = consensus.enclose(fn, (dy(x), (0, 0)), max(a['prec'], (wp or 0) - 64))
        return E
    return None


def check_records(records, consensus=None, cap_prec=1200):
    """evaluate tap records innermost-first; returns list of (name, args, result, verdict, excess_ulps)"""
    out = []
    for name, args, ret, depth in records:
        if name == 'mpi_atan2':
            out.append(_check_mpi_atan2(args, ret))
            continue
        prec, rnd = args['prec'], args['rnd']
        if name == 'mpc_gamma':
            if consensus is not None and prec <= cap_prec:
                out.append(_check_mpc_gamma(args, ret, consensus))
            continue
        if not isinstance(ret, tuple) or len(ret) != 4 or prec > cap_prec:
            continue
        verdict, exc = 'skip', None
        for wp in ladder(prec):
            old = ball.getprec()
            ball.setprec(wp)
            try:
                E = primitive_enclosure(name, args, consensus, wp)
            except (Indeterminate, TooFar, OverflowError, ValueError, KeyError):
                E = None
            finally:
                ball.setprec(old)
            if E is None or not isinstance(E, RB):
                break
            verdict = _dir_verdict(ret, E, rnd)
            if verdict == 'violated':
                c = dy(ret)
                # ceiling-like result lies below the value (value 'above' it); floor-like result lies above the value
                ceil_like = (rnd == 'c') or (rnd == 'u' and c[0] > 0)
                exc = excess_ulps(ret, ret, E, 'above' if ceil_like else 'below', prec)
            if verdict != 'undecided' or E.is_point():
                break
        out.append((name, args, ret, verdict, exc))
    return out


def _check_mpi_atan2(args, ret):
    """mpi_atan2(y, x, prec) in isolation: inverted result, or a corner / axis / centre point whose angle is outside"""
    try:
        y, x, prec = args['y'], args['x'], args['prec']
        a, b = ret
        if is_nan(a) or is_nan(b) or raw_cmp(a, b) > 0:
            return ('mpi_atan2', args, ret, 'violated', None)
        ys = [dy(t) for t in y if is_fin(t)]
        xs = [dy(t) for t in x if is_fin(t)]
        for lst, (lo, hi) in ((ys, y), (xs, x)):
            fin = list(lst)
            top = max([abs(d[0]).bit_length() + d[1] for d in fin] + [0]) + 64
            if lo == fninf:
                lst.append(dsub(fin[0], (1, 60)) if fin else (-1, 60))
                lst.append((-1, top))
            if hi == finf:
                lst.append(dadd(fin[-1], (1, 60)) if fin else (1, 60))
                lst.append((1, top))
            if lo == fninf and hi == finf:
                lst.append((0, 0))
        if len(ys) == 2 and ys[0][0] < 0 < ys[1][0]:
            ys.append((0, 0))
        if len(ys) == 2:
            ys.append(dnorm((dadd(ys[0], ys[1])[0], dadd(ys[0], ys[1])[1] - 1)))
        if len(xs) == 2:
            xs.append(dnorm((dadd(xs[0], xs[1])[0], dadd(xs[0], xs[1])[1] - 1)))
        for yy in ys:
            for xx in xs:
                if yy[0] == 0 and xx[0] == 0:
                    continue
                v, det = decide_point([ret], (lambda wp: o_atan2(yy, xx)), prec)
                if v == 'violated':
                    return ('mpi_atan2', args, ret, 'violated', det.get('excess_ulps'))
        return ('mpi_atan2', args, ret, 'held', None)
    except Exception:
        return ('mpi_atan2', args, ret, 'skip', None)


def _check_mpc_gamma(args, ret, consensus):
    """directed complex gamma-family result (both parts rounded in the same direction) against the consensus enclosure"""
    prec, rnd = args['prec'], args['rnd']
    verdict, exc = 'skip', None
    try:
        (a, b) = args['z']
        re, im = ret
        if not (is_fin(a) and is_fin(b) and is_fin(re) and is_fin(im)):
            return ('mpc_gamma', args, ret, 'skip', None)
        fn = {0: 'gamma', 1: 'factorial', 2: 'rgamma', 3: 'loggamma'}[args.get('type', 0)]
        for pp in (prec, 2 * prec + 64):
            E, why = consensus.enclose(fn, (dy(a), dy(b)), pp, complex_arg=True)
            if E is None:
                break
            vs = [_dir_verdict(c, P_, rnd) for c, P_ in ((re, E.re), (im, E.im))]
            if 'violated' in vs:
                i = vs.index('violated')
                c, P_ = ((re, E.re), (im, E.im))[i]
                ceil_like = (rnd == 'c') or (rnd == 'u' and not c[0])
                exc = excess_ulps(c, c, P_, 'above' if ceil_like else 'below', prec)
                verdict = 'violated'
                break
            if all(v == 'held' for v in vs):
                verdict = 'held'
                break
            verdict = 'undecided'
    except Exception:
        verdict = 'skip'
    return ('mpc_gamma', args, ret, verdict, exc)


def excess_class(exc):
    """a priori two-cell partition of a wrong-side directed result: within the guard bits of the correct side
    (< 1/2 ulp relative*2^prec: an approximation rounded without an error margin) or off by a visible amount"""
    if exc is not None and exc == exc and exc < 0.5:
        return 'excess-beyond-guard-bits'
    return 'wrong-side-by-ulps'


def regime(name, a):
    """regime cell of a primitive call, from the switch conditions documented in its source (a priori partition)"""
    try:
        prec = a['prec']
        if name == 'mpf_log':
            s, m, e, bc = a['x']
            mag = e + bc
            if abs(mag) <= 1:
                tman = ((1 << bc) - m) if (1 - abs(mag)) else (m - (1 << (bc - 1)))
                canc = bc - tman.bit_length()
                if canc > prec + 20:
                    return 'perturb-path' + (':mag=-1' if mag == -1 else (':x>1' if mag == 1 else ':x<1'))
                return 'near-one'
            if m == 1:
                return 'power-of-two'
            return 'generic'
        if name == 'mpf_exp':
            s, m, e, bc = a['x']
            mag = e + bc
            if prec > 600 and e >= 0:
                return 'e-power'
            if mag < -(prec + 14):
                return 'perturb-path'
            return 'large' if mag > 1 else 'basecase'
        if name == 'mpf_atan':
            s, m, e, bc = a['x']
            mag = e + bc
            if mag > prec + 20:
                return 'inf-path'
            if -mag > prec + 20:
                return 'perturb-path'
            return 'reciprocal' if mag >= 2 else 'basic'
        if name == 'mpf_atan2':
            return 'x<0' if a['x'][0] else 'x>0'
        if name == 'mpi_atan2':
            return sign_class(*a['y']).replace('inf', '') + ':' + sign_class(*a['x']).replace('inf', '')
        if name == 'mpf_pow_int':
            n = int(a['n'])
            s, m, e, bc = a['s']
            if n < 0:
                return 'negative-exponent'
            return 'exact-power' if (bc * n < 1000 or m == 1 or n <= 2) else 'binary-exponentiation'
        if name == 'mpc_gamma':
            (rs, rm, re_, rbc), (is_, im, ie, ibc) = a['z']
            return ('reflection' if rs else 'right-half-plane') + (':next-to-real-axis' if (im and ie + ibc < -10) else '')
        if name == 'mpf_gamma':
            s, m, e, bc = a['x']
            if e + bc < -(prec + 20):
                return 'next-to-pole-at-0'
            return 'x<0' if s else 'x>0'
    except Exception:
        pass
    return 'any'


def gamma_exact(fname, d):
    """rigorous enclosure of gamma / rgamma / loggamma / factorial at (half-)integer dyadics of modest size at the
    current ball precision, or None:  Gamma(n) = (n-1)!,  Gamma(n+1/2) = (2n-1)!!/2^n sqrt(pi),
    Gamma(1/2-n) = (-2)^n/(2n-1)!! sqrt(pi)"""
    import math
    if fname == 'factorial':
        d = dadd(d, (1, 0))
        fname = 'gamma'
    m, e = dnorm(d)
    if e >= 0:
        n = m << e if e < 20 else None
        if n is None or n > 3000:
            return None
        if n <= 0:
            return RB.point(0, 0) if fname == 'rgamma' else None
        f = math.factorial(n - 1)
        if fname == 'gamma':
            return RB.point(f, 0)
        if fname == 'rgamma':
            return RB.point(1, 0) / RB.point(f, 0)
        return RB.point(0, 0) if f == 1 else ball.log(RB.point(f, 0))
    if e == -1 and abs(m) < 4000:
        sp = ball.sqrt(ball.pi())
        if m > 0:
            n = (m - 1) // 2
            dd = 1
            for k in range(1, 2 * n, 2):
                dd *= k
            g = sp * RB.point(dd, -n)
        else:
            n = (1 - m) // 2
            dd = 1
            for k in range(1, 2 * n, 2):
                dd *= k
            g = sp * RB.point((-2) ** n, 0) / RB.point(dd, 0)
        if fname == 'gamma':
            return g
        if fname == 'rgamma':
            return RB.point(1, 0) / g
        if g.sign() > 0:
            return ball.log(g)
    return None
