"""intalgos -- independent exact integer / rational algorithms used as oracles for C25 (no mpmath import).

Everything here is plain Python int / Fraction arithmetic, written from the textbook definitions and deliberately with
algorithms *different* from the ones in mpmath/libmp:

  factorial / comb          math.factorial, math.comb (CPython), plus product definitions for rf / ff / double factorial
  fib                       fast doubling  F(2k) = F(k)(2F(k+1)-F(k)),  F(2k+1) = F(k)^2 + F(k+1)^2
  Bernoulli numbers         (a) tangent numbers (Brent-Harvey integer recurrence)   (b) zeta/von Staudt-Clausen with an own pi
  Euler numbers             secant numbers (Brent-Harvey integer recurrence)
  Stirling numbers          first kind: coefficients of the expanded falling factorial; second kind: triangle recurrence
  Bell / Touchard           Bell triangle; sum S(n,k) x^k
  Bernoulli/Euler polys     binomial sums over exact Bernoulli / Euler numbers (Fractions)
  primes                    odd-only bytearray sieve; trial division; deterministic Miller-Rabin with the 7-base set valid below 2^64
  moebius / mangoldt        trial-division factorisation
  cyclotomic                exact integer polynomial  x^n-1 = prod_{d|n} Phi_d  by exact long division
  ln(n)                     rigorous fixed-point enclosure through atanh series (for mangoldt)
"""
import math
from fractions import Fraction
from functools import lru_cache


# ---------------------------------------------------------------------------------------
# factorial-like
# ---------------------------------------------------------------------------------------
def factorial(n):
    return math.factorial(n)


def fac2(n):
    """double factorial for n >= -1, and the rational continuation for negative odd n: (-2k-1)!! = (-1)^k / (2k-1)!!"""
    if n >= -1:
        r = 1
        k = n
        while k > 1:
            r *= k
            k -= 2
        return Fraction(r)
    if n % 2 == 0:
        return None     # pole
    k = (-n - 1) // 2
    d = 1
    j = 2 * k - 1
    while j > 1:
        d *= j
        j -= 2
    return Fraction((-1) ** k, d)


def rf(x, n):
    """rising factorial x (x+1) ... (x+n-1) (n >= 0); Gamma(x+n)/Gamma(x) = 1 / ((x-1)(x-2)...(x+n)) for n < 0; None at a pole"""
    if n >= 0:
        r = 1
        for i in range(n):
            r *= (x + i)
            if r == 0:
                return Fraction(0)
        return Fraction(r)
    d = 1
    for i in range(1, -n + 1):
        d *= (x - i)
    if d == 0:
        return None
    return Fraction(1, d)


def ff(x, n):
    """falling factorial x (x-1) ... (x-n+1) (n >= 0); 1 / ((x+1)...(x-n)) for n < 0"""
    if n >= 0:
        r = 1
        for i in range(n):
            r *= (x - i)
            if r == 0:
                return Fraction(0)
        return Fraction(r)
    d = 1
    for i in range(1, -n + 1):
        d *= (x + i)
    if d == 0:
        return None
    return Fraction(1, d)


def _gamma_pole_limit(num, den):
    """lim_{h->0} prod Gamma(a+h) / prod Gamma(b+h) over integer arguments; Fraction, or None when infinite.
    Near a pole -m (m >= 0): Gamma(-m+h) ~ (-1)^m / (m! h)."""
    pn = [a for a in num if a <= 0]
    pd = [b for b in den if b <= 0]
    if len(pn) < len(pd):
        return Fraction(0)
    if len(pn) > len(pd):
        return None
    v = Fraction(1)
    for a in num:
        if a > 0:
            v *= math.factorial(a - 1)
        else:
            v *= Fraction((-1) ** (-a), math.factorial(-a))
    for b in den:
        if b > 0:
            v /= math.factorial(b - 1)
        else:
            v /= Fraction((-1) ** (-b), math.factorial(-b))
    return v


def binomial(n, k):
    """binomial coefficient for arbitrary integers, as the limit of Gamma(n+1+h) / (Gamma(k+1+h) Gamma(n-k+1+h)).
    For k >= 0 this is the polynomial n(n-1)...(n-k+1)/k!; for k < 0 <= n it is 0; for n, k < 0 it is
    (-1)^(n-k) C(-k-1, n-k) when k <= n and 0 otherwise (so binomial(-1,-3) = 1)."""
    if k >= 0:
        if n >= 0:
            return Fraction(math.comb(n, k))
        # (-1)^k C(k-n-1, k)
        return Fraction((-1) ** k * math.comb(k - n - 1, k))
    if n >= 0:
        return Fraction(0)
    if k <= n:
        return Fraction((-1) ** (n - k) * math.comb(-k - 1, n - k))
    return Fraction(0)


def binomial_by_limit(n, k):
    return _gamma_pole_limit([n + 1], [k + 1, n - k + 1])


def fib(n):
    if n < 0:
        f = fib(-n)
        return f if (-n) % 2 == 1 else -f

    def fd(k):
        if k == 0:
            return (0, 1)
        a, b = fd(k >> 1)
        c = a * (2 * b - a)
        d = a * a + b * b
        if k & 1:
            return (d, c + d)
        return (c, d)
    return fd(n)[0]


# ---------------------------------------------------------------------------------------
# Bernoulli / Euler numbers
# ---------------------------------------------------------------------------------------
class _Tangent(object):
    """tangent numbers T_1..T_N (Brent & Harvey, Algorithm TangentNumbers); B_2k = (-1)^(k-1) 2k T_k / (4^k (4^k - 1))"""

    def __init__(self):
        self.N = 0
        self.T = []

    def ensure(self, N):
        if N <= self.N:
            return
        N = max(N, 2 * self.N, 64)
        T = [0] * (N + 1)
        T[1] = 1
        for k in range(2, N + 1):
            T[k] = (k - 1) * T[k - 1]
        for k in range(2, N + 1):
            for j in range(k, N + 1):
                T[j] = (j - k) * T[j - 1] + (j - k + 2) * T[j]
        self.T, self.N = T, N


_tangent = _Tangent()


def bernoulli_tangent(n):
    """exact B_n (B_1 = -1/2) through tangent numbers"""
    if n == 0:
        return Fraction(1)
    if n == 1:
        return Fraction(-1, 2)
    if n & 1:
        return Fraction(0)
    k = n // 2
    _tangent.ensure(k)
    t = _tangent.T[k]
    return Fraction((-1) ** (k - 1) * n * t, (1 << n) * ((1 << n) - 1))


def bernoulli_table(nmax):
    """[B_0 .. B_nmax] by the classical recurrence sum_{k<=m} C(m+1,k) B_k = 0 (a third, slow, formulation; small nmax only)"""
    B = [Fraction(1)]
    for m in range(1, nmax + 1):
        s = Fraction(0)
        c = 1
        for k in range(m):
            s += c * B[k]
            c = c * (m + 1 - k) // (k + 1)
        B.append(-s / (m + 1))
    return B


_pi_cache = {}


def pi_fixed(bits):
    """(lo, hi) integers with lo <= pi * 2^bits <= hi  (Machin: pi = 16 atan(1/5) - 4 atan(1/239), alternating series bounds)"""
    if bits in _pi_cache:
        return _pi_cache[bits]
    W = bits + 32

    def atan_inv(q):
        # alternating series sum (-1)^k / ((2k+1) q^(2k+1)), floor arithmetic: |error| <= number of terms + 1
        one = 1 << W
        t = one // q
        s = 0
        k = 0
        q2 = q * q
        n = 0
        while t:
            term = t // (2 * k + 1)
            s += term if k % 2 == 0 else -term
            t //= q2
            k += 1
            n += 1
        return s, n + 2
    a5, e5 = atan_inv(5)
    a239, e239 = atan_inv(239)
    v = 16 * a5 - 4 * a239
    e = 16 * 2 * e5 + 4 * 2 * e239 + 4
    lo = (v - e) >> 32
    hi = ((v + e) >> 32) + 1
    _pi_cache[bits] = (lo, hi)
    return lo, hi


def small_primes(n):
    """primes <= n (odd-only bytearray sieve)"""
    if n < 2:
        return []
    if n == 2:
        return [2]
    m = (n - 1) // 2          # index i <-> 2i+1, i >= 1
    sieve = bytearray([1]) * (m + 1)
    sieve[0] = 0
    i = 1
    while (2 * i + 1) * (2 * i + 1) <= n:
        if sieve[i]:
            p = 2 * i + 1
            start = (p * p - 1) // 2
            sieve[start::p] = bytearray(len(range(start, m + 1, p)))
        i += 1
    return [2] + [2 * i + 1 for i in range(1, m + 1) if sieve[i]]


def _fl_mul(a, b, W, up):
    """directed product of two positive (mantissa, exponent) floats, mantissa cut to W bits"""
    m = a[0] * b[0]
    e = a[1] + b[1]
    sh = m.bit_length() - W
    if sh > 0:
        m = -((-m) >> sh) if up else (m >> sh)
        e += sh
    return (m, e)


def _fl_pow(x, n, W, up):
    r = (1, 0)
    b = x
    while n:
        if n & 1:
            r = _fl_mul(r, b, W, up)
        n >>= 1
        if n:
            b = _fl_mul(b, b, W, up)
    return r


def bernoulli_zeta(n):
    """exact B_n for even n >= 100 from |B_n| = 2 n! zeta(n) / (2 pi)^n and the von Staudt-Clausen denominator.
    (2 pi)^n and zeta(n) are enclosed with directed W-bit arithmetic; the numerator |B_n| q is an integer, so it is
    determined as soon as the enclosure of 2 n! q zeta(n) / (2 pi)^n contains exactly one integer with margin.
    Returns a Fraction, or None if the enclosure did not isolate the numerator."""
    assert n >= 100 and n % 2 == 0      # (the direct zeta sum needs ~2^(W/n) terms)
    q = 1
    for p in small_primes(n + 1):
        if n % (p - 1) == 0:
            q *= p
    f = math.factorial(n)
    size = f.bit_length() + q.bit_length() - int(n * 2.651) + 8      # log2(2 pi) = 2.6514...
    W = max(128, size + 96)
    plo, phi = pi_fixed(W + 8)
    lo2pi = (2 * plo, -(W + 8))
    hi2pi = (2 * phi, -(W + 8))
    P_lo = _fl_pow(lo2pi, n, W + 64, False)
    P_hi = _fl_pow(hi2pi, n, W + 64, True)
    # zeta(n) in units of 2^-Zb: sum_{k<K} floor(Z/k^n), stop at the first zero term
    Zb = W + 16
    Z = 1 << Zb
    K = 2
    zlo = Z
    while True:
        kn = K ** n
        if kn > Z:
            break
        zlo += Z // kn
        K += 1
    zhi = zlo + K + 2          # floor errors (< K) + tail (sum_{k>=K} k^-n < 2 K^-n < 2 units)
    N_lo = Fraction(2 * f * q * zlo, Z)
    N_hi = Fraction(2 * f * q * zhi, Z)

    def val(m_e):
        m, e = m_e
        return Fraction(m << e) if e >= 0 else Fraction(m, 1 << (-e))
    lo = N_lo / val(P_hi)
    hi = N_hi / val(P_lo)
    c = round((lo + hi) / 2)
    if not (c - Fraction(1, 256) < lo <= hi < c + Fraction(1, 256)):
        return None
    sign = 1 if (n // 2) % 2 == 1 else -1
    return Fraction(sign * c, q)


_bern_memo = {}


def bernoulli(n):
    """exact B_n: tangent numbers up to a size where they are cheap, else the zeta route"""
    if n < 2 or n & 1:
        return bernoulli_tangent(n)
    if n // 2 <= max(_tangent.N, 420):
        return bernoulli_tangent(n)
    v = _bern_memo.get(n)
    if v is None:
        v = bernoulli_zeta(n)
        if v is None:
            v = bernoulli_tangent(n)
        _bern_memo[n] = v
    return v


class _Secant(object):
    """secant numbers S_0..S_N (Brent & Harvey, Algorithm SecantNumbers); E_2k = (-1)^k S_k"""

    def __init__(self):
        self.N = -1
        self.S = []

    def ensure(self, N):
        if N <= self.N:
            return
        N = max(N, 2 * self.N, 64)
        S = [0] * (N + 1)
        S[0] = 1
        for k in range(1, N + 1):
            S[k] = k * S[k - 1]
        for k in range(1, N + 1):
            for j in range(k + 1, N + 1):
                S[j] = (j - k) * S[j - 1] + (j - k + 1) * S[j]
        self.S, self.N = S, N


_secant = _Secant()


def eulernum(n):
    if n < 0:
        raise ValueError
    if n & 1:
        return 0
    k = n // 2
    _secant.ensure(k)
    return (-1) ** k * _secant.S[k]


def eulernum_by_series(nmax):
    """[E_0..E_nmax] from the cosh recurrence sum_{k even <= n} C(n,k) E_k = 0 (n even > 0): a second formulation"""
    E = [0] * (nmax + 1)
    E[0] = 1
    for n in range(2, nmax + 1, 2):
        s = 0
        for k in range(0, n, 2):
            s += math.comb(n, k) * E[k]
        E[n] = -s
    return E


# ---------------------------------------------------------------------------------------
# Stirling, Bell
# ---------------------------------------------------------------------------------------
_s1_rows = [[1]]


def stirling1(n, k):
    """signed Stirling number of the first kind = coefficient of x^k in x (x-1) ... (x-n+1)"""
    if n < 0 or k < 0:
        raise ValueError
    if k > n:
        return 0
    while len(_s1_rows) <= n:
        m = len(_s1_rows) - 1           # multiply previous polynomial by (x - m)
        prev = _s1_rows[-1]
        row = [0] * (len(prev) + 1)
        for i, c in enumerate(prev):
            row[i + 1] += c
            row[i] -= m * c
        _s1_rows.append(row)
    return _s1_rows[n][k]


_s2_rows = [[1]]


def stirling2(n, k):
    if n < 0 or k < 0:
        raise ValueError
    if k > n:
        return 0
    while len(_s2_rows) <= n:
        prev = _s2_rows[-1]
        m = len(prev)
        row = [0] * (m + 1)
        for j in range(1, m + 1):
            row[j] = (j * prev[j] if j < m else 0) + prev[j - 1]
        _s2_rows.append(row)
    return _s2_rows[n][k]


_bell = [1]
_bell_row = [1]


def bell(n):
    """Bell numbers by the Bell triangle"""
    global _bell_row
    while len(_bell) <= n:
        row = [_bell_row[-1]]
        for v in _bell_row:
            row.append(row[-1] + v)
        _bell_row = row
        _bell.append(row[0])
    return _bell[n]


def touchard(n, x):
    """Bell polynomial B_n(x) = sum_k S(n,k) x^k"""
    return sum(stirling2(n, k) * x ** k for k in range(n + 1))


# ---------------------------------------------------------------------------------------
# Bernoulli / Euler polynomials at rational points
# ---------------------------------------------------------------------------------------
def bernpoly(n, x):
    x = Fraction(x)
    return sum(math.comb(n, k) * bernoulli(k) * x ** (n - k) for k in range(n + 1))


def eulerpoly(n, x):
    x = Fraction(x) - Fraction(1, 2)
    return sum(math.comb(n, k) * Fraction(eulernum(k), 2 ** k) * x ** (n - k) for k in range(0, n + 1, 2))


# ---------------------------------------------------------------------------------------
# primes
# ---------------------------------------------------------------------------------------
_MR64 = (2, 325, 9375, 28178, 450775, 9780504, 1795265022)


def is_prime_trial(n):
    if n < 2:
        return False
    if n < 4:
        return True
    if n % 2 == 0:
        return False
    r = math.isqrt(n)
    f = 3
    while f <= r:
        if n % f == 0:
            return False
        f += 2
    return True


def is_prime(n):
    """deterministic for n < 2^64 (Sinclair's 7 bases) after trial division by the primes below 200; for larger n
    additionally the first 40 prime bases (then only 'probable' -- callers treat n >= 2^64 accordingly)"""
    if n < 2:
        return False
    for p in _PRIMES200:
        if n == p:
            return True
        if n % p == 0:
            return False
    d = n - 1
    s = 0
    while d % 2 == 0:
        d //= 2
        s += 1
    bases = _MR64 if n < (1 << 64) else _MR64 + tuple(_PRIMES200[:40])
    for a in bases:
        a %= n
        if a == 0:
            continue
        x = pow(a, d, n)
        if x == 1 or x == n - 1:
            continue
        for _ in range(s - 1):
            x = x * x % n
            if x == n - 1:
                break
        else:
            return False
    return True


_PRIMES200 = [p for p in range(2, 200) if all(p % q for q in range(2, int(p ** 0.5) + 1))]


def strong_pseudoprime(n, a):
    """True iff odd composite-or-prime n passes the Miller-Rabin test to base a"""
    d = n - 1
    s = 0
    while d % 2 == 0:
        d //= 2
        s += 1
    x = pow(a, d, n)
    if x == 1 or x == n - 1:
        return True
    for _ in range(s - 1):
        x = x * x % n
        if x == n - 1:
            return True
    return False


def factorize(n):
    """{prime: exponent} by trial division (n up to ~10^13 is fine), Pollard-free"""
    n = abs(n)
    f = {}
    if n < 2:
        return f
    for p in (2, 3, 5):
        while n % p == 0:
            f[p] = f.get(p, 0) + 1
            n //= p
    d = 7
    inc = (4, 2, 4, 2, 4, 6, 2, 6)
    i = 0
    while d * d <= n:
        while n % d == 0:
            f[d] = f.get(d, 0) + 1
            n //= d
        d += inc[i]
        i = (i + 1) & 7
    if n > 1:
        f[n] = f.get(n, 0) + 1
    return f


def moebius(n):
    n = abs(n)
    if n == 0:
        return 0
    if n == 1:
        return 1
    f = factorize(n)
    if any(e > 1 for e in f.values()):
        return 0
    return -1 if len(f) % 2 else 1


def iroot(n, k):
    """floor(n^(1/k))"""
    if n < 2:
        return n
    lo, hi = 1, 1 << (n.bit_length() // k + 1)
    while lo < hi:
        mid = (lo + hi + 1) // 2
        if mid ** k <= n:
            lo = mid
        else:
            hi = mid - 1
    return lo


def prime_power_base(n):
    """p if n = p^k (k >= 1, p prime), else None.  Integer k-th roots + primality of the root."""
    if n < 2:
        return None
    for k in range(n.bit_length(), 0, -1):
        r = iroot(n, k)
        if r >= 2 and r ** k == n:
            # largest k with an exact root: r is not a perfect power
            return r if is_prime(r) else None
    return None


# ---------------------------------------------------------------------------------------
# cyclotomic polynomials
# ---------------------------------------------------------------------------------------
_cyclo = {}


def _polydiv_exact(a, b):
    """a / b for integer coefficient lists (low degree first), b monic; exact (remainder must vanish)"""
    a = a[:]
    db = len(b) - 1
    q = [0] * (len(a) - db)
    for i in range(len(a) - 1, db - 1, -1):
        c = a[i]
        if c:
            q[i - db] = c
            for j, bj in enumerate(b):
                a[i - db + j] -= c * bj
    assert not any(a), 'inexact polynomial division'
    return q


def cyclotomic_poly(n):
    if n in _cyclo:
        return _cyclo[n]
    if n == 1:
        p = [-1, 1]
    else:
        p = [-1] + [0] * (n - 1) + [1]
        for d in range(1, n):
            if n % d == 0:
                p = _polydiv_exact(p, cyclotomic_poly(d))
    _cyclo[n] = p
    return p


def cyclotomic(n, z):
    if n == 0:
        return 1
    r = 0
    for c in reversed(cyclotomic_poly(n)):
        r = r * z + c
    return r


# ---------------------------------------------------------------------------------------
# ln(n) enclosure
# ---------------------------------------------------------------------------------------
def _atanh_bounds(a, b, W):
    """(lo, hi) integers with lo <= atanh(a/b) 2^W <= hi, for 0 <= a/b <= 1/3"""
    if a == 0:
        return 0, 0
    assert 0 < 3 * a <= b
    t = (a << W) // b
    a2, b2 = a * a, b * b
    s = 0
    k = 0
    err = 0
    ek = 1
    while t:
        s += t // (2 * k + 1)
        err += ek + 1
        t = (t * a2) // b2
        ek += 1
        k += 1
    return s, s + err + 2 * (k + 2)


_ln2_cache = {}


def ln_bounds(n, W):
    """(lo, hi) integers with lo <= ln(n) 2^W <= hi for an integer n >= 1"""
    if n == 1:
        return 0, 0
    if W not in _ln2_cache:
        l, h = _atanh_bounds(1, 3, W)
        _ln2_cache[W] = (2 * l, 2 * h)
    l2, h2 = _ln2_cache[W]
    k = n.bit_length() - 1
    p2 = 1 << k
    al, ah = _atanh_bounds(n - p2, n + p2, W)
    return k * l2 + 2 * al, k * h2 + 2 * ah


# ---------------------------------------------------------------------------------------
def selftest():
    """consistency of the independent formulations against each other (raises on mismatch)"""
    B = bernoulli_table(60)
    for n in range(61):
        assert bernoulli_tangent(n) == B[n], n
    for n in (100, 102, 300, 700, 1000):
        assert bernoulli_zeta(n) == bernoulli_tangent(n), n
    E = eulernum_by_series(60)
    for n in range(61):
        assert eulernum(n) == E[n], n
    assert [fib(i) for i in range(-6, 11)] == [-8, 5, -3, 2, -1, 1, 0, 1, 1, 2, 3, 5, 8, 13, 21, 34, 55]
    for n in range(0, 14):
        assert sum(stirling2(n, k) for k in range(n + 1)) == bell(n)
        assert sum(abs(stirling1(n, k)) for k in range(n + 1)) == math.factorial(n)
        assert touchard(n, 1) == bell(n)
    for n in range(-7, 8):
        for k in range(-7, 8):
            assert binomial(n, k) == binomial_by_limit(n, k), (n, k)
    assert binomial(-1, -3) == 1
    pr = small_primes(5000)
    assert pr == [n for n in range(5001) if is_prime_trial(n)]
    assert all(is_prime(n) == is_prime_trial(n) for n in range(20000))
    for n in range(1, 400):
        f = factorize(n)
        v = 1
        for p, e in f.items():
            v *= p ** e
        assert v == n
    assert [cyclotomic_poly(n) for n in (1, 2, 3, 4, 6)] == [[-1, 1], [1, 1], [1, 1, 1], [1, 0, 1], [1, -1, 1]]
    assert min(cyclotomic_poly(105)) == -2
    lo, hi = ln_bounds(7, 200)
    assert lo <= hi and hi - lo < (1 << 40)
    assert abs(lo / 2 ** 200 - math.log(7)) < 1e-14
    lo, hi = pi_fixed(300)
    assert hi - lo < 10 and abs(lo / 2 ** 300 - math.pi) < 1e-14
    assert bernpoly(3, 2) == 3 and eulerpoly(2, 3) == 6 and bernpoly(1, 0) == Fraction(-1, 2)
    return True


if __name__ == '__main__':
    import time
    t = time.time()
    print(selftest(), time.time() - t)
