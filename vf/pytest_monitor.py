"""pytest plugin (``-p vf.pytest_monitor``): runs the repository's own tests with a verif monitor attached from outside.

    VF_MONITOR      'C01' (store hooks + primitive return tap, canonical-form predicate)
                    'C10' (API-boundary wrappers, bit-length-vs-precision predicate)
    VF_MONITOR_OUT  path prefix; each pytest process writes <prefix>.<pid>.json (rewritten after every test, so a
                    time-boxed run that is killed still leaves what was observed)

The tests are a *workload*: their own pass/fail status is not the oracle.  Nothing under the repository is edited."""
import os, sys, json

_state = {'mon': None, 'kind': None, 'tests': 0, 'out': None}


def _dump():
    st = _state
    if st['mon'] is None or not st['out']:
        return
    d = st['mon'].summary()
    d['tests'] = st['tests']
    d['monitor'] = st['kind']
    path = '%s.%d.json' % (st['out'], os.getpid())
    tmp = path + '.tmp'
    with open(tmp, 'w') as f:
        json.dump(d, f, default=repr)
    os.replace(tmp, path)


def pytest_configure(config):
    kind = os.environ.get('VF_MONITOR')
    if not kind:
        return
    root = os.path.dirname(os.path.dirname(os.path.abspath(__file__)))
    if root not in sys.path:
        sys.path.insert(0, root)
    try:
        sys.set_int_max_str_digits(0)
    except AttributeError:
        pass
    import mpmath
    _state['kind'] = kind
    _state['out'] = os.environ.get('VF_MONITOR_OUT')
    if kind == 'C01':
        from vf.props import C01
        _state['mon'] = C01.CanonMonitor().attach(mps=[mpmath.mp], ivs=[mpmath.iv], tap=True)
    elif kind == 'C10':
        from vf.props import C10
        _state['mon'] = C10.SuiteMonitor(mpmath).attach()
    else:
        raise RuntimeError('unknown VF_MONITOR ' + kind)


def pytest_runtest_setup(item):
    mon = _state['mon']
    if mon is not None:
        mon.begin({'test': item.nodeid})


def pytest_runtest_teardown(item, nextitem):
    if _state['mon'] is not None:
        _state['tests'] += 1
        if _state['tests'] % 5 == 0 or nextitem is None:
            _dump()


def pytest_unconfigure(config):
    mon = _state['mon']
    if mon is not None:
        try:
            mon.detach()
        finally:
            _dump()
            _state['mon'] = None
