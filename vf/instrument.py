"""Monitors attached to the live library from outside (no source edits).

StoreHook    data descriptors shadowing ctx.mpf._mpf_, ctx.mpc._mpc_, iv.mpf._mpi_, iv.mpc._mpci_ : sees every store
ApiBoundary  wrappers on the public callables of a context (+ aliases in mpmath.__dict__) with a depth counter
PrecTrace    wrapper on the prec/dps property setters of a context class (who changed precision, from what to what)
ReturnTap    sys.monitoring PY_RETURN (+PY_START for the arguments) on chosen libmp code objects
Failpoint    sys.monitoring PY_START on chosen code objects; raises at the k-th event (source-free crash points)
StepBudget   sys.monitoring global PY_START + backward JUMP counter; raises BudgetExceeded
AnchorCount  sys.monitoring PY_START / LINE counters on anchored functions / source lines resolved at run time

The target is single-threaded; monitors keep plain Python state.
"""
import sys, re, inspect, importlib, types, collections

mon = sys.monitoring
E = mon.events
TOOL_STEP, TOOL_FAIL, TOOL_TAP, TOOL_ANCHOR = 1, 2, 3, 4


def _claim(tool, name):
    try:
        mon.use_tool_id(tool, name)
    except ValueError:
        mon.free_tool_id(tool)
        mon.use_tool_id(tool, name)


def resolve(name):
    """'pkg.mod:func' or 'pkg.mod:Class.meth' -> function object (or None)"""
    try:
        modname, qual = name.split(':')
        qual = qual.split('@')[0]
        obj = importlib.import_module(modname)
        for part in qual.split('.'):
            if isinstance(obj, type) and part in obj.__dict__:
                obj = obj.__dict__[part]
            else:
                obj = getattr(obj, part)
        if isinstance(obj, (staticmethod, classmethod)):
            obj = obj.__func__
        if isinstance(obj, property):
            obj = obj.fget
        obj = inspect.unwrap(obj) if callable(obj) else obj
        if hasattr(obj, '__func__'):
            obj = obj.__func__
        return obj if hasattr(obj, '__code__') else None
    except Exception:
        return None


def code_objects_of_module(modname, pattern=None):
    """all plain function code objects defined at module level of a module, optionally filtered by regex on the name"""
    mod = importlib.import_module(modname)
    out = {}
    for k, v in vars(mod).items():
        if isinstance(v, types.FunctionType) and v.__module__ == mod.__name__:
            if pattern is None or re.match(pattern, k):
                out[v.__code__] = k
    return out


# ---------------------------------------------------------------------------------------
class AnchorCount(object):
    """Counts entries into anchored functions ('mod:func') and hits of anchored lines ('mod:func@regex')."""

    def __init__(self, rec, names):
        self.rec = rec
        self.names = list(names)
        self.codes = {}
        self.lines = {}     # (code, lineno) -> name
        self.counts = collections.Counter()

    def __enter__(self):
        _claim(TOOL_ANCHOR, 'vf-anchor')
        for name in self.names:
            f = resolve(name)
            if f is None:
                self.counts['unresolved:' + name] += 1
                continue
            code = f.__code__
            if '@' in name:
                rx = re.compile(name.split('@', 1)[1])
                try:
                    src, start = inspect.getsourcelines(f)
                except Exception:
                    self.counts['unresolved:' + name] += 1
                    continue
                hit = [start + i for i, ln in enumerate(src) if rx.search(ln)]
                if not hit:
                    self.counts['unresolved:' + name] += 1
                    continue
                for ln in hit:
                    self.lines[(code, ln)] = name
                mon.set_local_events(TOOL_ANCHOR, code, mon.get_local_events(TOOL_ANCHOR, code) | E.LINE)
            else:
                self.codes[code] = name
                mon.set_local_events(TOOL_ANCHOR, code, mon.get_local_events(TOOL_ANCHOR, code) | E.PY_START)
            self.counts.setdefault(name, 0)
        codes, counts, lines = self.codes, self.counts, self.lines

        def on_start(code, off):
            n = codes.get(code)
            if n is not None:
                counts[n] += 1

        def on_line(code, line):
            n = lines.get((code, line))
            if n is not None:
                counts[n] += 1
        mon.register_callback(TOOL_ANCHOR, E.PY_START, on_start)
        mon.register_callback(TOOL_ANCHOR, E.LINE, on_line)
        return self

    def __exit__(self, *a):
        for code in set(self.codes) | set(c for c, _ in self.lines):
            mon.set_local_events(TOOL_ANCHOR, code, 0)
        mon.register_callback(TOOL_ANCHOR, E.PY_START, None)
        mon.register_callback(TOOL_ANCHOR, E.LINE, None)
        mon.free_tool_id(TOOL_ANCHOR)
        for k, v in self.counts.items():
            self.rec.anchor(k, v)
        return False


# ---------------------------------------------------------------------------------------
class BudgetExceeded(BaseException):
    pass


class StepBudget(object):
    """Logical step counter: PY_START events + backward jumps, process-wide.  ``with StepBudget(B) as sb: f()``
    raises BudgetExceeded inside the running code when more than B steps were taken.  sb.steps is the count."""

    def __init__(self, budget=None):
        self.budget = budget
        self.steps = 0
        self.active = False
        self.last_backedges = collections.deque(maxlen=20)

    def install(self):
        _claim(TOOL_STEP, 'vf-steps')
        me = self

        def on_start(code, off):
            if me.active:
                me.steps += 1
                if me.budget is not None and me.steps > me.budget:
                    me.active = False
                    raise BudgetExceeded('%d steps' % me.steps)

        def on_jump(code, off, dest):
            if me.active and dest < off:
                me.steps += 1
                if me.budget is not None and me.steps > me.budget:
                    me.active = False
                    me.last_backedges.append((code.co_filename, code.co_name, off))
                    raise BudgetExceeded('%d steps' % me.steps)
        mon.register_callback(TOOL_STEP, E.PY_START, on_start)
        mon.register_callback(TOOL_STEP, E.JUMP, on_jump)
        mon.set_events(TOOL_STEP, E.PY_START | E.JUMP)
        return self

    def uninstall(self):
        mon.set_events(TOOL_STEP, 0)
        mon.register_callback(TOOL_STEP, E.PY_START, None)
        mon.register_callback(TOOL_STEP, E.JUMP, None)
        mon.free_tool_id(TOOL_STEP)

    def start(self, budget=None):
        if budget is not None:
            self.budget = budget
        self.steps = 0
        self.active = True

    def stop(self):
        self.active = False
        return self.steps

    def __enter__(self):
        self.install(); self.start(); return self

    def __exit__(self, *a):
        self.stop(); self.uninstall(); return False


# ---------------------------------------------------------------------------------------
class InjectedFault(BaseException):
    """KeyboardInterrupt-like fault raised by a failpoint (not an Exception subclass)."""


class Failpoint(object):
    """Raise ``exc`` at the k-th PY_START event among the chosen code objects while armed."""

    def __init__(self, codes):
        self.codes = set(codes)
        self.count = 0
        self.k = None
        self.exc = None
        self.armed = False
        self.fired_in = None

    def install(self):
        _claim(TOOL_FAIL, 'vf-failpoint')
        me = self

        def on_start(code, off):
            if me.armed:
                me.count += 1
                if me.count == me.k:
                    me.armed = False
                    me.fired_in = code.co_name
                    raise me.exc
        mon.register_callback(TOOL_FAIL, E.PY_START, on_start)
        for c in self.codes:
            mon.set_local_events(TOOL_FAIL, c, E.PY_START)
        return self

    def uninstall(self):
        for c in self.codes:
            mon.set_local_events(TOOL_FAIL, c, 0)
        mon.register_callback(TOOL_FAIL, E.PY_START, None)
        mon.free_tool_id(TOOL_FAIL)

    def arm(self, k, exc):
        self.count = 0; self.k = k; self.exc = exc; self.fired_in = None; self.armed = True

    def disarm(self):
        self.armed = False
        return self.count


# ---------------------------------------------------------------------------------------
class ReturnTap(object):
    """Observe return values (and optionally entry frames) of chosen code objects.
    on_return(name, code, retval); on_start(name, code, frame_locals) optional."""

    def __init__(self, codes, on_return, on_start=None):
        self.codes = dict(codes)         # code -> name
        self.on_return = on_return
        self.on_start = on_start
        self.active = True

    def install(self):
        _claim(TOOL_TAP, 'vf-tap')
        codes, me = self.codes, self

        def _ret(code, off, retval):
            if me.active:
                n = codes.get(code)
                if n is not None:
                    me.on_return(n, code, retval)
        mon.register_callback(TOOL_TAP, E.PY_RETURN, _ret)
        ev = E.PY_RETURN
        if self.on_start is not None:
            def _start(code, off):
                if me.active:
                    n = codes.get(code)
                    if n is not None:
                        me.on_start(n, code, sys._getframe(1).f_locals)
            mon.register_callback(TOOL_TAP, E.PY_START, _start)
            ev |= E.PY_START
        for c in codes:
            mon.set_local_events(TOOL_TAP, c, ev)
        return self

    def uninstall(self):
        for c in self.codes:
            mon.set_local_events(TOOL_TAP, c, 0)
        mon.register_callback(TOOL_TAP, E.PY_RETURN, None)
        mon.register_callback(TOOL_TAP, E.PY_START, None)
        mon.free_tool_id(TOOL_TAP)

    def __enter__(self):
        return self.install()

    def __exit__(self, *a):
        self.uninstall(); return False


# ---------------------------------------------------------------------------------------
class _SlotHook(object):
    """data descriptor shadowing a slot (or instance-dict attribute) on a per-context number class"""

    def __init__(self, name, slot, on_store):
        self.name, self.slot, self.on_store = name, slot, on_store

    def __get__(self, obj, typ=None):
        if obj is None:
            return self
        if self.slot is not None:
            return self.slot.__get__(obj, typ)
        try:
            return obj.__dict__[self.name]
        except KeyError:
            raise AttributeError(self.name)

    def __set__(self, obj, val):
        self.on_store(obj, self.name, val)
        if self.slot is not None:
            self.slot.__set__(obj, val)
        else:
            obj.__dict__[self.name] = val


class StoreHook(object):
    """Sees every raw value stored into number objects of the given contexts.
    on_store(kind, value) with kind in {'mpf','mpc','mpi','mpci'}."""

    def __init__(self, on_store):
        self.on_store = on_store
        self.installed = []

    def _find_slot(self, cls, name):
        for k in cls.__mro__:
            d = k.__dict__.get(name)
            if d is not None and not isinstance(d, _SlotHook):
                return d
        return None

    def attach_mp(self, ctx):
        f = self.on_store
        for cls, name, kind in ((ctx.mpf, '_mpf_', 'mpf'), (ctx.mpc, '_mpc_', 'mpc')):
            slot = self._find_slot(cls, name)
            setattr(cls, name, _SlotHook(name, slot, lambda o, n, v, kind=kind: f(kind, v)))
            self.installed.append((cls, name))

    def attach_iv(self, iv):
        f = self.on_store
        for cls, name, kind in ((iv.mpf, '_mpi_', 'mpi'), (iv.mpc, '_mpci_', 'mpci')):
            setattr(cls, name, _SlotHook(name, None, lambda o, n, v, kind=kind: f(kind, v)))
            self.installed.append((cls, name))

    def detach(self):
        for cls, name in self.installed:
            try:
                delattr(cls, name)
            except Exception:
                pass
        self.installed = []


# ---------------------------------------------------------------------------------------
class ApiBoundary(object):
    """Wrap public callables of a context.  handler(ev) is called at exit of every wrapped call with
    ev = dict(name, depth, args, kwargs, before, after, result, exc) where before/after = state(ctx).
    Optional on_enter(name, depth, args, kwargs) is called at entry (after the depth counter was incremented)."""

    def __init__(self, ctx, names, handler, state=None, also_module=None, on_enter=None):
        self.ctx, self.names, self.handler = ctx, list(names), handler
        self.on_enter = on_enter
        self.state = state or (lambda c: (c.prec, c.dps))
        self.depth = 0
        self.saved = []
        self.module = also_module
        self.calls = 0

    def install(self):
        ctx = self.ctx
        for name in self.names:
            try:
                orig = getattr(ctx, name)
            except AttributeError:
                continue
            if not callable(orig) or isinstance(orig, type):
                continue
            w = self._wrap(name, orig)
            had_inst = name in getattr(ctx, '__dict__', {})
            self.saved.append((ctx, name, orig, had_inst))
            try:
                setattr(ctx, name, w)
            except Exception:
                self.saved.pop()
                continue
            if self.module is not None:
                md = self.module.__dict__
                cur = md.get(name)
                if cur is not None and (cur is orig or getattr(cur, '__func__', None) is getattr(orig, '__func__', 0)
                                        and getattr(cur, '__self__', None) is ctx):
                    self.saved.append((self.module, name, cur, True))
                    md[name] = w
        return self

    def _wrap(self, name, orig):
        me = self

        def wrapper(*a, **k):
            before = me.state(me.ctx)
            me.depth += 1
            me.calls += 1
            d = me.depth
            try:
                if me.on_enter is not None:
                    me.on_enter(name, d, a, k)
                res = orig(*a, **k)
            except BaseException as e:
                me.depth -= 1
                me.handler({'name': name, 'depth': d, 'args': a, 'kwargs': k, 'before': before,
                            'after': me.state(me.ctx), 'result': None, 'exc': e})
                raise
            me.depth -= 1
            me.handler({'name': name, 'depth': d, 'args': a, 'kwargs': k, 'before': before,
                        'after': me.state(me.ctx), 'result': res, 'exc': None})
            return res
        wrapper.__name__ = getattr(orig, '__name__', name)
        wrapper.__doc__ = getattr(orig, '__doc__', None)
        wrapper._vf_orig = orig
        return wrapper

    def uninstall(self):
        for obj, name, orig, had in reversed(self.saved):
            if isinstance(obj, types.ModuleType):
                obj.__dict__[name] = orig
            elif had:
                setattr(obj, name, orig)
            else:
                try:
                    delattr(obj, name)
                except Exception:
                    setattr(obj, name, orig)
        self.saved = []


# ---------------------------------------------------------------------------------------
class PrecTrace(object):
    """Wrap the prec/dps setters of a context *class*; records (which, caller qualname, old prec, new prec)."""

    def __init__(self, ctxclass, sink):
        self.cls, self.sink = ctxclass, sink
        self.saved = {}

    def install(self):
        for which in ('prec', 'dps'):
            for k in self.cls.__mro__:
                prop = k.__dict__.get(which)
                if isinstance(prop, property):
                    break
            else:
                continue
            self.saved[which] = (k, prop)
            sink = self.sink

            def fset(ctx, n, _prop=prop, _which=which):
                old = _prop.fget(ctx) if _which == 'prec' else ctx.prec
                fr = sys._getframe(1)
                caller = '%s:%s' % (fr.f_globals.get('__name__', '?'), fr.f_code.co_qualname)
                _prop.fset(ctx, n)
                sink(_which, caller, old, ctx.prec, ctx)
            setattr(self.cls, which, property(prop.fget, fset, prop.fdel, prop.__doc__))
        return self

    def uninstall(self):
        for which, (k, prop) in self.saved.items():
            if k is self.cls:
                setattr(self.cls, which, prop)
            else:
                delattr(self.cls, which)
        self.saved = {}


def public_callables(ctx):
    """names of public callables on a context object (instance and class attributes), excluding types"""
    out = []
    for name in dir(ctx):
        if name.startswith('_'):
            continue
        try:
            v = getattr(ctx, name)
        except Exception:
            continue
        # only functions / bound methods: callable *constants* (pi, e, eps, ...) are numbers that happen to have
        # __call__; wrapping them would replace a number by a function and break arithmetic inside the library
        if callable(v) and not isinstance(v, type) and isinstance(v, (types.FunctionType, types.MethodType, types.BuiltinFunctionType)):
            out.append(name)
    return out
