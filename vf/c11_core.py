"""Infrastructure of the C11 check (builderE): context state, per-context watcher (ApiBoundary + PrecTrace),
failpoint that records the precision at the crash, per-case runner with wall-clock cap, leak attribution."""
import sys, signal, inspect, time
from vf import instrument as I
from vf.instrument import ApiBoundary, PrecTrace, Failpoint, InjectedFault

PROP = 'C11'


class CaseTimeout(BaseException):
    pass


class UserError(Exception):
    """raised by a user callback"""


class UserInterrupt(BaseException):
    """KeyboardInterrupt-like fault raised by a user callback"""


class BodyError(Exception):
    """raised by user code inside a with-block"""


# ---------------------------------------------------------------------------------------
def ctx_kind(ctx):
    if hasattr(ctx, '_prec_rounding'):
        return 'mp'
    if isinstance(getattr(ctx, '_prec', None), list):
        return 'iv'
    return 'fp'


def ctx_state(ctx):
    """(prec, dps, identity of the shared precision slot, its content ...)"""
    k = ctx_kind(ctx)
    if k == 'mp':
        pr = ctx._prec_rounding
        return (ctx.prec, ctx.dps, id(pr), pr[0], pr[1], ctx.mpf._ctxdata[2] is pr, ctx.mpc._ctxdata[2] is pr)
    if k == 'iv':
        pr = ctx._prec
        return (ctx.prec, ctx.dps, id(pr), pr[0], ctx.mpf._ctxdata[2] is pr)
    return (ctx.prec, ctx.dps)


def describe_state(s):
    d = {'prec': s[0], 'dps': s[1]}
    if len(s) > 3:
        d['slot_prec'] = s[3]
    if len(s) > 5:
        d['slot_rounding'] = s[4]
    return d


def set_precision(ctx, precset):
    which, n = precset
    if which == 'prec':
        ctx.prec = n
    else:
        ctx.dps = n


def _owner(caller):
    """'mod:Class.meth' -> 'mod:Class' ; plain functions and closures have no owner"""
    mod, _, q = caller.partition(':')
    if '.' not in q or '<locals>' in q:
        return None
    return mod + ':' + q.rsplit('.', 1)[0]


def culprit_of(events):
    """events = [(which, caller, old_prec, new_prec)].  A stack of changes not (yet) undone: a change whose new
    value equals the saved old value of a stacked entry undoes that entry and everything above it.
    Returns the caller of the first change that was never undone (None when nothing is left)."""
    st = []
    for which, caller, old, new in events:
        if old == new:
            continue
        own = _owner(caller)
        for j in range(len(st) - 1, -1, -1):
            # a restore is made by the function that saved the value (or by a sibling method of the same class,
            # e.g. PrecisionManager.__enter__/__exit__); a coinciding value set by unrelated code is a new change
            if st[j][1] == new and (st[j][0] == caller or (own is not None and _owner(st[j][0]) == own)):
                del st[j:]
                break
        else:
            st.append((caller, old, new, which))
    if not st:
        return None, []
    return st[0][0], [(c, o, n, w) for c, o, n, w in st[:4]]


def qual(caller):
    if caller is None:
        return 'untraced'
    return caller.replace(':', '.')


def wrap_names(ctx, deny=('default',)):
    out = []
    for name in dir(ctx):
        if name.startswith('_') or name in deny:
            continue
        try:
            v = getattr(ctx, name)
        except Exception:
            continue
        if inspect.ismethod(v) or inspect.isfunction(v):
            out.append(name)
    return out


class Watch(object):
    """ApiBoundary on one context + (shared) PrecTrace events of that context."""

    def __init__(self, ctx, label, module=None, names=None):
        self.ctx, self.label = ctx, label
        self.trace = []
        self.leaks = []
        self.setter_events = 0
        self.names = names if names is not None else wrap_names(ctx)
        self.api = ApiBoundary(ctx, self.names, self._on_exit, state=self._state, also_module=module)

    def _state(self, ctx):
        return (ctx_state(ctx), len(self.trace))

    def sink(self, which, caller, old, new):
        self.trace.append((which, caller, old, new))
        self.setter_events += 1

    def _on_exit(self, ev):
        (b, i0), (a, i1) = ev['before'], ev['after']
        if b != a:
            c, st = culprit_of(self.trace[i0:])
            self.leaks.append({'depth': ev['depth'], 'name': ev['name'], 'before': b, 'after': a,
                               'culprit': c, 'stack': st, 'exc': type(ev['exc']).__name__ if ev['exc'] is not None else None})

    def begin(self):
        del self.trace[:]
        del self.leaks[:]
        self.api.depth = 0

    def install(self):
        self.api.install()
        return self

    def uninstall(self):
        self.api.uninstall()


class TraceHub(object):
    """one PrecTrace per context class, dispatching to the watchers by context identity"""

    def __init__(self):
        self.watch = {}
        self.traces = []
        self.foreign = 0

    def add(self, w):
        self.watch[id(w.ctx)] = w
        cls = type(w.ctx)
        if ctx_kind(w.ctx) != 'fp' and not any(t.cls is cls for t in self.traces):
            self.traces.append(PrecTrace(cls, self._sink).install())

    def _sink(self, which, caller, old, new, ctx):
        w = self.watch.get(id(ctx))
        if w is not None:
            w.sink(which, caller, old, new)
        else:
            self.foreign += 1

    def uninstall(self):
        for t in reversed(self.traces):
            t.uninstall()
        self.traces = []


class FP(Failpoint):
    """Failpoint that also records the working precision at the moment it fires (probe())."""

    def __init__(self, codes):
        Failpoint.__init__(self, codes)
        self.probe = None
        self.at = None

    def install(self):
        I._claim(I.TOOL_FAIL, 'vf-failpoint')
        me = self
        mon, E = I.mon, I.E

        def on_start(code, off):
            if me.armed:
                me.count += 1
                if me.count == me.k:
                    me.armed = False
                    me.fired_in = code.co_name
                    if me.probe is not None:
                        me.at = me.probe()
                    raise me.exc
        mon.register_callback(I.TOOL_FAIL, E.PY_START, on_start)
        for c in self.codes:
            mon.set_local_events(I.TOOL_FAIL, c, E.PY_START)
        return self

    def arm(self, k, exc):
        self.at = None
        Failpoint.arm(self, k, exc)


class CB(object):
    """user callbacks sharing one call counter; the k-th call (of any of them) raises"""

    def __init__(self, ctx, k=None, exc=None):
        self.ctx, self.k, self.exc = ctx, k, exc
        self.n = 0
        self.raised = False
        self.at = None

    def _tick(self):
        self.n += 1
        if self.n == self.k:
            self.raised = True
            self.at = self.ctx.prec
            raise self.exc

    def __call__(self, f):
        tick = self._tick

        def g(*a, **kw):
            tick()
            return f(*a, **kw)
        return g

    def it(self, iterable):
        for x in iterable:
            self._tick()
            yield x


def _alarm(signum, frame):
    raise CaseTimeout()


def run_case(ctx, w, call, precset, cap, fp=None, k=None, exc=None, others=()):
    """One monitored execution.  Returns a dict with the outcome and the states."""
    set_precision(ctx, precset)
    slot = getattr(ctx, '_prec_rounding', None)
    s0 = ctx_state(ctx)
    o0 = [ctx_state(c) for c in others]
    if w is not None:
        w.begin()
    res = {'outcome': None, 'exc': None, 'fired': False, 'at': None, 'count': 0, 'timeout': False}
    old = signal.signal(signal.SIGPROF, _alarm)
    signal.setitimer(signal.ITIMER_PROF, cap, 0.5)      # CPU-time timer; repeats: a swallowed timeout fires again
    try:
        try:
            if fp is not None:
                fp.arm(k if k is not None else 1 << 60, exc)
            call()
            res['outcome'] = 'return'
        except CaseTimeout:
            res['outcome'] = 'timeout'
            res['timeout'] = True
        except BaseException as e:
            res['outcome'] = 'raise'
            res['exc'] = type(e).__name__
            res['exc_obj_is_fault'] = e is exc
        finally:
            if fp is not None:
                res['count'] = fp.disarm()
            signal.setitimer(signal.ITIMER_PROF, 0)
    except CaseTimeout:
        res['outcome'] = 'timeout'
        res['timeout'] = True
        if fp is not None:
            fp.disarm()
        signal.setitimer(signal.ITIMER_PROF, 0)
    finally:
        signal.signal(signal.SIGPROF, old)
    if fp is not None:
        res['fired'] = fp.fired_in is not None
        res['fired_in'] = fp.fired_in
        res['at'] = fp.at
    s1 = ctx_state(ctx)
    res['s0'], res['s1'] = s0, s1
    res['others'] = [(a, ctx_state(c)) for a, c in zip(o0, others)]
    if w is not None:
        res['trace_len'] = len(w.trace)
        res['leaks'] = list(w.leaks)
        res['culprit'], res['stack'] = culprit_of(w.trace)
    else:
        res['trace_len'], res['leaks'], res['culprit'], res['stack'] = 0, [], None, []
    # put the context back for the next case
    if slot is not None and ctx._prec_rounding is not slot:
        ctx._prec_rounding = slot
    if s1 != s0:
        if slot is not None:
            slot[1] = s0[4]
        set_precision(ctx, precset)
    for (a, b), c in zip(res['others'], others):
        if a != b:
            c.prec = a[0]
    return res
