"""C38 -- contexts are isolated from each other; a clone computes what mp computes.

Workload: interleaved histories over the global mp, three clones (mp.clone(), a clone of a clone), fp, the global iv
and a second interval context, every context with its own independently chosen prec/dps/pretty/trap_complex.
Monitors
  * after EVERY step, for every context other than the acting one(s): (prec, dps, _prec_rounding identity and
    content, pretty, trap_complex, identity of the mpf/mpc classes and of the precision slot they read, fingerprint of
    every dict/list attribute of the context such as hyp_summators) must be what it was, and the *effective*
    precision is probed behaviourally: 1/3 computed in that context must be the correct rounding of 1/3 at the
    precision the context declares (exactq), for iv the correctly outward-rounded enclosure;
  * ApiBoundary wrappers on the public callables of mp and of every clone: at the exit of every wrapped call at any
    nesting depth the cheap part of the same check runs (so a transient cross-context change that is still in
    effect when an inner call returns is seen as well); the wrapper invocation count is evidence;
  * all mpf/mpc/matrix objects returned by a call made through context c must belong to c;
  * clone-vs-mp equivalence: the same function on the same exact arguments (catalog.build in each context) at the
    same precision gives bit-identical raw results (or the same exception type) in mp and in a clone, while all the
    other contexts sit at different precisions, in both orders, also after a third context has evaluated the same
    function at another precision (module-level caches filled from a different context at a different precision).
"""
import math, time
from fractions import Fraction
from vf import gens as G
from vf import catalog as K
from vf import exactq as Q

PROP = 'C38'
LEVEL = 'exploration'
RULE = ('seeded interleaved histories (25-60 steps) over mp, 3 clones, fp, iv, a second interval context; step kinds: set prec, '
        'set dps, toggle pretty/trap_complex, evaluate a catalog/calculus/linalg function, workprec/workdps/extraprec block '
        '(with a call into a second context inside), provoked exception, clone(), clone-vs-mp equivalence probe; a step is '
        'non-trivial when at least one other context holds a different precision or setting than the acting one (a leak would '
        'be observable); distinct = distinct (step kind, acting context, function, exact arguments, settings of all contexts)')
ASSUMPTIONS = ['exactq (exact rational rounding) decides the behavioural effective-precision probe 1/3',
               'identity/content of _prec_rounding, iv._prec and of the dict/list attributes of a context are read through getattr; '
               'an attribute that no longer exists after a refactoring is skipped (the behavioural probe and the prec/dps/pretty/trap_complex checks remain)',
               'bit-identity of clone and mp results is demanded for the same exact inputs at the same precision; both evaluations run in the same process state (warm caches)']
LEVEL_TEXT = ('exploration: ~7*10^4 (quick) / ~9*10^5 (thorough) history steps on the real contexts, every step followed by the state '
              'and effective-precision check of all other contexts, ~10^6 / ~10^7 wrapped-call exits checked; ~1.4*10^4 / ~1.7*10^5 '
              'clone-vs-mp equivalence probes over ~185 functions')
LEVEL_NOTE = 'trusted base: vf/exactq.py for the probe; histories not generated are not covered; thread-level interleaving is out of scope (single-threaded target)'
TECHNIQUE = 'runtime monitoring: state-invariant monitor over interleaved multi-context histories + API-boundary wrappers + differential (clone vs mp) raw-result comparison'
SHARD_TIMEOUT = {'quick': 900, 'thorough': 3300}
WALL_SAFETY = {'quick': 600.0, 'thorough': 2500.0}   # no new history/probe after this wall time: the worker must report before the watchdog

N_SHARDS = 16
HISTORIES = {'quick': 110, 'thorough': 1400}          # per shard
EQUIV = {'quick': 800, 'thorough': 10000}            # equivalence probes per shard (besides those inside histories)
CPU_LIMIT = {'quick': 50.0, 'thorough': 760.0}      # a shard starts no new history/probe beyond this CPU time (counted)

PRECS = [10, 15, 24, 53, 53, 64, 100, 113, 200, 333, 400, 401, 600, 1000]

# functions evaluated inside histories / equivalence probes: catalog names (arguments from catalog.gen_args) ...
CATALOG_FUNCS = ('exp ln sqrt cbrt sin cos tan atan asin acosh sinh tanh asinh power log1p expm1 cospi sinpi root log10 '
                 'atan2 hypot floor frac fmod '
                 'gamma rgamma loggamma factorial fac2 digamma harmonic beta binomial rf ff psi polygamma barnesg '
                 'zeta altzeta hurwitz polylog bernpoly eulerpoly siegeltheta siegelz '
                 'erf erfc erfi ncdf ei e1 li si ci shi chi fresnels fresnelc erfinv expint gammainc betainc '
                 'besselj bessely besseli besselk hankel1 struveh struvel ber kei airyai airybi scorergi j0 '
                 'besseljzero airyaizero coulombf coulombg angerj lommels1 '
                 'hyp0f1 hyp1f1 hyp1f2 hyp2f1 hyp2f2 hyp2f0 hyperu whitm whitw legendre chebyt chebyu hermite '
                 'legenp gegenbauer laguerre jacobi pcfd pcfu pcfw spherharm appellf1 '
                 'ellipk ellipe ellipf elliprf elliprd elliprg elliprc elliprj ellippi agm jtheta lambertw qp kleinj eta '
                 'fib bernoulli eulernum bell primepi mangoldt stirling1 stirling2 cyclotomic').split()
# ... and composite entry points with fixed small argument families (callbacks, matrices, code that reaches into other
# contexts: Riemann-Siegel coefficients via ctx._mp, zetazero via ctx._fp, primepi2 via ctx._iv, quadrature node caches)
SPECIAL_FUNCS = ['zeta-rs', 'siegelz-rs', 'zetazero', 'nzeros', 'primepi2', 'quad', 'quad-ts', 'nsum', 'nprod', 'diff',
                 'findroot', 'polyroots', 'taylor', 'pade', 'limit', 'chebyfit', 'fourier', 'invertlaplace', 'odefun',
                 'det', 'inverse', 'lu_solve', 'qr_solve', 'eig', 'eigh', 'svd', 'expm', 'cholesky', 'norm', 'matmul',
                 'pslq', 'identify', 'findpoly', 'stieltjes', 'secondzeta', 'meijerg', 'hyper', 'hypercomb', 'nint_distance',
                 'mpf-str', 'nstr', 'constants', 'fsum', 'fdot', 'linspace', 'autoprec', 'bernfrac', 'mpmathify-str', 'coulombc']


# composite entry points whose cost explodes with the precision: only called while the acting context is at <= 250 bits
SLOW_SPECIAL = {'quadosc', 'nsum', 'nprod', 'zetazero', 'nzeros', 'secondzeta', 'stieltjes', 'limit', 'invertlaplace', 'zeta-rs',
                'siegelz-rs', 'pslq', 'identify', 'findpoly', 'chebyfit', 'fourier', 'odefun', 'quad', 'quad-ts', 'meijerg', 'svd',
                'eig', 'eigh', 'expm', 'findroot', 'diff', 'taylor', 'pade', 'autoprec', 'polyroots'}
SLOW_CATALOG = {'angerj', 'appellf1', 'coulombf', 'coulombg', 'lommels1', 'besseljzero', 'airyaizero', 'ellippi', 'angerj',
                'legenq', 'barnesg', 'kei', 'ber', 'spherharm', 'pcfw', 'hyp3f2', 'hyp2f0', 'whitw', 'hyperu', 'betainc', 'erfinv',
                'polylog', 'struveh', 'struvel', 'scorergi', 'siegelz', 'kleinj'}


REAL_ARGS = {'ncdf', 'besseljzero', 'atan2', 'hypot', 'fmod', 'erfinv', 'siegeltheta', 'siegelz', 'betainc', 'spherharm', 'coulombf', 'coulombg'}


CHEAP_CATEGORIES = ('elementary', 'intpart', 'numtheory', 'gamma')


def gen_args(fn, r):
    """moderate arguments: C38 needs many functions and caches, not hard regimes (those are C12-C24's business)"""
    elementary = K.ENTRIES[fn][0] in CHEAP_CATEGORIES
    mag = None if (elementary and r.random() < 0.3) else r.choice([(-3, 3), (-3, 3), (-8, 0), (0, 5)])
    return K.gen_args(fn, r, bits=r.choice([5, 20, 53]), mag=mag, real_only=(r.random() < 0.55 or fn in REAL_ARGS))


def shards(tier, seed):
    return [{} for _ in range(N_SHARDS)]


# ---------------------------------------------------------------------------------------
# raw result extraction / ownership
# ---------------------------------------------------------------------------------------

def raw_of(x, depth=0):
    if depth > 6:
        return ('deep',)
    if isinstance(x, (bool, int, float, str, complex)) or x is None:
        return x
    t = type(x)
    if hasattr(x, '_mpf_'):
        return ('f',) + tuple(int(v) if not isinstance(v, str) else v for v in x._mpf_)
    if hasattr(x, '_mpc_'):
        re, im = x._mpc_
        return ('c', tuple(map(int, re)), tuple(map(int, im)))
    if hasattr(x, '_mpi_'):
        a, b = x._mpi_
        return ('i', tuple(map(int, a)), tuple(map(int, b)))
    if hasattr(x, '_mpci_'):
        a, b = x._mpci_
        return ('ci', raw_of_pair(a), raw_of_pair(b))
    if isinstance(x, (list, tuple)):
        return tuple(raw_of(v, depth + 1) for v in x)
    if isinstance(x, dict):
        return tuple(sorted((repr(k), raw_of(v, depth + 1)) for k, v in x.items()))
    if hasattr(x, 'rows') and hasattr(x, 'cols') and hasattr(x, 'tolist'):
        return ('m', x.rows, x.cols, raw_of(x.tolist(), depth + 1))
    if hasattr(x, '_mpq_'):
        return ('q',) + tuple(x._mpq_)
    return ('obj', t.__name__)


def raw_of_pair(p):
    a, b = p
    return (tuple(map(int, a)), tuple(map(int, b)))


def owners(x, out, depth=0):
    """collect the contexts that own the mpmath objects inside a result"""
    if depth > 6 or x is None or isinstance(x, (bool, int, float, str, complex)):
        return
    t = type(x)
    c = getattr(t, 'context', None)
    if c is None and (hasattr(x, '_mpi_') or hasattr(x, '_mpci_') or (hasattr(x, 'rows') and hasattr(x, 'tolist'))):
        c = getattr(x, 'ctx', None)
    if c is not None and not isinstance(c, property):
        out.add(id(c))
    if isinstance(x, (list, tuple)):
        for v in x[:50]:
            owners(v, out, depth + 1)
    elif hasattr(x, 'rows') and hasattr(x, 'tolist'):
        try:
            for v in x.tolist()[:8]:
                owners(v, out, depth + 1)
        except Exception:
            pass


# ---------------------------------------------------------------------------------------
# the world: contexts, expected states, checks
# ---------------------------------------------------------------------------------------

class World(object):
    def __init__(self, mpmath, rec, r, boundary=True):
        self.m = mpmath
        self.rec = rec
        self.r = r
        self.ctx = {}
        self.kind = {}
        self.expected = {}
        self.busy = set()          # contexts that are legitimately inside a call / block right now
        self.bounds = []
        self.boundary = boundary
        self.label = '?'
        self.history = []
        self.wrapped_calls = 0
        mp = mpmath.mp
        self.add('mp', mp, 'mp')
        self.add('c1', mp.clone(), 'clone')
        self.add('c2', mp.clone(), 'clone')
        self.add('c3', self.ctx['c1'].clone(), 'clone')
        self.add('fp', mpmath.fp, 'fp')
        self.add('iv', mpmath.iv, 'iv')
        self.add('iv2', type(mpmath.iv)(), 'iv')
        self.distinct_classes('initial')

    # -- contexts --------------------------------------------------------------------
    def add(self, name, c, kind):
        self.ctx[name] = c
        self.kind[name] = kind
        self.expected[name] = self.snap(name)
        if self.boundary and kind in ('mp', 'clone'):
            from vf.instrument import ApiBoundary, public_callables
            import types
            # functions and bound methods only: the constants (pi, eps, ...) are callable *numbers* and must stay numbers
            names = [n for n in public_callables(c) if n not in ('clone', 'workprec', 'workdps', 'extraprec', 'extradps')
                     and isinstance(getattr(c, n), (types.FunctionType, types.MethodType, types.BuiltinFunctionType))]
            b = ApiBoundary(c, names, lambda ev, who=name: self.on_call(who, ev), state=lambda c: None,
                            also_module=self.m if kind == 'mp' else None)
            b.install()
            self.bounds.append(b)

    def close(self):
        for b in reversed(self.bounds):
            self.wrapped_calls += b.calls
            b.uninstall()
        self.bounds = []
        mp, iv, fp = self.m.mp, self.m.iv, self.m.fp
        mp.prec = 53; mp.pretty = False; mp.trap_complex = False
        iv.prec = 53; iv.pretty = False
        fp.pretty = False

    def mpnames(self):
        return [n for n in self.ctx if self.kind[n] in ('mp', 'clone')]

    # -- state -----------------------------------------------------------------------
    def snap(self, name, full=True):
        c = self.ctx[name]
        k = self.kind[name]
        s = {'prec': c.prec, 'dps': c.dps, 'pretty': getattr(c, 'pretty', None)}
        if k in ('mp', 'clone'):
            pr = getattr(c, '_prec_rounding', None)
            s['prec_rounding'] = (id(pr), tuple(pr)) if pr is not None else None
            s['trap_complex'] = c.trap_complex
            cd = getattr(c.mpf, '_ctxdata', None)
            s['mpf-class'] = (id(c.mpf), id(c.mpc), id(cd[2]) if cd else None, getattr(c.mpf, 'context', None) is c)
        elif k == 'iv':
            pr = getattr(c, '_prec', None)
            s['prec_rounding'] = (id(pr), tuple(pr)) if isinstance(pr, list) else None
            s['mpf-class'] = (id(c.mpf), id(c.mpc), getattr(c.mpf, 'ctx', None) is c)
        if full and k != 'fp':
            for a, v in self.containers(c).items():
                s['container:' + a] = v
        return s

    _cont_names = {}

    def containers(self, c):
        """fingerprint (identity, size) of the dict/list attributes of a context (instance and class level)"""
        key = type(c)
        names = self._cont_names.get(key)
        if names is None:
            names = set(vars(c))
            for k in type(c).__mro__:
                names |= set(vars(k))
            names = sorted(n for n in names if n not in ('__dict__', '__weakref__', '_prec_rounding', '_prec'))
            keep = []
            for n in names:
                try:
                    v = getattr(c, n)
                except Exception:
                    continue
                if isinstance(v, (dict, list, set)):
                    keep.append(n)
            self._cont_names[key] = names = keep
        out = {}
        for n in names:
            v = getattr(c, n, None)
            if isinstance(v, (dict, list, set)):
                out[n] = (id(v), len(v))
        return out

    def distinct_classes(self, when):
        """ctx.mpf is not other.mpf (and mpc, precision slot, dict/list attributes) for every pair of contexts"""
        names = [n for n in self.ctx if self.kind[n] != 'fp']
        for i, a in enumerate(names):
            for b in names[i + 1:]:
                ca, cb = self.ctx[a], self.ctx[b]
                shared = []
                if ca.mpf is cb.mpf: shared.append('mpf-class')
                if ca.mpc is cb.mpc: shared.append('mpc-class')
                pa = getattr(ca, '_prec_rounding', None) if self.kind[a] != 'iv' else getattr(ca, '_prec', None)
                pb = getattr(cb, '_prec_rounding', None) if self.kind[b] != 'iv' else getattr(cb, '_prec', None)
                if isinstance(pa, list) and pa is pb: shared.append('prec_rounding')
                if self.kind[a] == self.kind[b] or {self.kind[a], self.kind[b]} == {'mp', 'clone'}:
                    ka, kb = self.containers(ca), self.containers(cb)
                    for n in ka:
                        # 'defined_functions' is the class-level registry filled at import time (never written afterwards)
                        if n in kb and ka[n][0] == kb[n][0] and n != 'defined_functions':
                            shared.append('container:' + n)
                self.rec.event('pairs of contexts checked for shared classes / slots / containers')
                for what in shared:
                    self.rec.violation('C38/%s/%s' % (what, 'clone()' if 'c' in (a[0], b[0]) else 'constructor'),
                                       '%s and %s share their %s object' % (a, b, what),
                                       {'contexts': [a, b], 'when': when}, observed='same object', expected='one object per context')

    def on_call(self, who, ev):
        """ApiBoundary handler: exit of a wrapped call on context `who` (any depth)"""
        for n in self.ctx:
            if n == who or n in self.busy:
                continue
            exp = self.expected[n]
            c = self.ctx[n]
            if c.prec != exp['prec'] or c.dps != exp['dps'] or getattr(c, 'pretty', None) != exp['pretty'] \
                    or (self.kind[n] != 'fp' and self.kind[n] != 'iv' and c.trap_complex != exp['trap_complex']):
                self.compare(n, self.snap(n, full=False), 'inside ' + self.label + ' (exit of %s.%s, depth %d)' % (who, ev['name'], ev['depth']),
                             fn=ev['name'])
        self.rec.event('wrapped-call exits checked')

    def compare(self, n, now, where, fn=None):
        exp = self.expected[n]
        bad = [k for k in now if k in exp and now[k] != exp[k]]
        for k in bad:
            what = k
            if k == 'prec_rounding' and now[k] is not None and exp[k] is not None:
                what = 'prec_rounding-identity' if now[k][0] != exp[k][0] else 'prec_rounding-content'
            self.rec.violation('C38/%s/%s' % (what, fn or self.fn),
                               '%s of context %s changed while %s was acting (%s)' % (k, n, '+'.join(sorted(self.busy)) or '?', where),
                               {'victim': n, 'victim_kind': self.kind[n], 'acting': sorted(self.busy), 'step': self.label,
                                'history': self.history[-12:]},
                               observed=repr(now[k]), expected=repr(exp[k]))
            exp[k] = now[k]            # report once, then follow the new state
        return bad

    def probe(self, n):
        """behavioural: the precision a context *uses* is the one it declares"""
        c = self.ctx[n]
        k = self.kind[n]
        p = c.prec
        third = Fraction(1, 3)
        if k in ('mp', 'clone'):
            rnd = 'n'
            pr = getattr(c, '_prec_rounding', None)
            if pr is not None and pr[1] != 'n':
                rnd = pr[1]
            got = tuple(int(v) for v in (c.mpf(1) / 3)._mpf_)
            want = Q.round_to(Q.from_fraction(third), p, rnd)
            ok = got == tuple(want)
        elif k == 'iv':
            x = c.mpf(1) / 3
            a, b = x._mpi_
            got = (tuple(map(int, a)), tuple(map(int, b)))
            want = (tuple(Q.round_to(Q.from_fraction(third), p, 'f')), tuple(Q.round_to(Q.from_fraction(third), p, 'c')))
            ok = got == want
        else:
            got = 1.0 / 3
            got = c.mpf(1) / 3
            want = 1.0 / 3
            ok = got == want and type(got) is float
        self.rec.event('effective-precision probes')
        if not ok:
            self.rec.violation('C38/effective-precision/%s' % self.fn,
                               'context %s declares prec=%d but 1/3 computed in it is not the rounding of 1/3 to that precision (after %s by %s)'
                               % (n, p, self.label, '+'.join(sorted(self.busy))),
                               {'victim': n, 'victim_kind': self.kind[n], 'acting': sorted(self.busy), 'step': self.label,
                                'history': self.history[-12:]}, observed=got, expected=want)

    def after_step(self, acting, fn, label):
        """the full check of every context that did not act"""
        self.fn, self.label = fn, label
        self.busy = set(acting)
        for n in self.ctx:
            if n in acting:
                self.expected[n] = self.snap(n)
                continue
            self.compare(n, self.snap(n), 'after the step')
            self.probe(n)
        self.busy = set()
        self.rec.event('steps followed by the state check of all other contexts')

    def begin(self, acting, fn, label):
        _last['label'] = label
        self.busy = set(acting)
        self.fn, self.label = fn, label
        self.history.append(label)


# ---------------------------------------------------------------------------------------
# steps
# ---------------------------------------------------------------------------------------

def settings_vector(w):
    return tuple((n, w.ctx[n].prec, getattr(w.ctx[n], 'pretty', None), getattr(w.ctx[n], 'trap_complex', None)) for n in w.ctx)


def pick_prec(r, avoid=None):
    for _ in range(8):
        p = r.choice(PRECS) if r.random() < 0.8 else r.randint(10, 1200)
        if p != avoid:
            return p
    return p + 1


def special_call(c, name, r, kind):
    """-> (callable, description) for the composite entry points; arguments are small exact numbers"""
    mpf = c.mpf
    k = r.randint(1, 4)
    M = None
    if name in ('det', 'inverse', 'lu_solve', 'qr_solve', 'eig', 'eigh', 'svd', 'expm', 'cholesky', 'norm', 'matmul'):
        n = r.randint(2, 4)
        ent = [[r.randint(-9, 9) + (0.5 if r.random() < 0.3 else 0) for _ in range(n)] for _ in range(n)]
        for i in range(n):
            ent[i][i] += 25
        if name in ('eigh', 'cholesky'):
            ent = [[ent[min(i, j)][max(i, j)] for j in range(n)] for i in range(n)]
        M = lambda: c.matrix(ent)
        desc = '%s(%r)' % (name, ent)
    else:
        desc = '%s[k=%d]' % (name, k)
    table = {
        'zeta-rs': lambda: c.zeta(c.mpc(0.5, 20000 + 1000 * k)),
        'siegelz-rs': lambda: c.siegelz(30000 + 500 * k),
        'zetazero': lambda: c.zetazero(k),
        'nzeros': lambda: c.nzeros(20 + 10 * k),
        'primepi2': lambda: c.primepi2(50 * k),
        'quad': lambda: c.quad(lambda x: c.exp(-x * x) * k, [0, 1]),
        'quad-ts': lambda: c.quad(lambda x: c.sqrt(x) + k, [0, 1], method='tanh-sinh'),
        'quadosc': lambda: c.quadosc(lambda x: c.sin(k * x) / (1 + x * x), [0, c.inf], omega=k),
        'nsum': lambda: c.nsum(lambda j: 1 / (j + k) ** 2, [1, c.inf]),
        'nprod': lambda: c.nprod(lambda j: 1 + 1 / (j + k) ** 2, [1, c.inf]),
        'diff': lambda: c.diff(lambda x: c.sin(k * x), 1, 2),
        'findroot': lambda: c.findroot(lambda x: c.cos(x) - x / k, 1),
        'polyroots': lambda: c.polyroots([1, -k, -2, 3]),
        'taylor': lambda: c.taylor(lambda x: c.exp(k * x), 0, 4),
        'pade': lambda: c.pade(c.taylor(c.exp, 0, 5), 2, 2),
        'limit': lambda: c.limit(lambda x: c.sin(k * x) / x, 0),
        'chebyfit': lambda: c.chebyfit(lambda x: c.cos(k * x), [-1, 1], 4),
        'fourier': lambda: c.fourier(lambda x: x * k, [-1, 1], 2),
        'invertlaplace': lambda: c.invertlaplace(lambda s: 1 / (s + k), 1, method='talbot'),
        'odefun': lambda: c.odefun(lambda x, y: k * y, 0, 1)(0.5),
        'det': lambda: c.det(M()),
        'inverse': lambda: M() ** -1,
        'lu_solve': lambda: c.lu_solve(M(), c.matrix([1] * len(ent))),
        'qr_solve': lambda: c.qr_solve(M(), c.matrix([1] * len(ent))),
        'eig': lambda: c.eig(M()),
        'eigh': lambda: c.eigh(M()),
        'svd': lambda: c.svd_r(M()),
        'expm': lambda: c.expm(M() / 30),
        'cholesky': lambda: c.cholesky(M()),
        'norm': lambda: c.mnorm(M(), 2 if False else 'f'),
        'matmul': lambda: M() * M() + M().T,
        'pslq': lambda: c.pslq([1, c.sqrt(2), 2 * c.sqrt(2) + k]),
        'identify': lambda: c.identify(c.sqrt(k + 1) / 2),
        'findpoly': lambda: c.findpoly(c.sqrt(k + 1), 2),
        'stieltjes': lambda: c.stieltjes(k - 1),
        'secondzeta': lambda: c.secondzeta(k + 1),
        'meijerg': lambda: c.meijerg([[1], []], [[mpf(1) / 2], [0]], mpf(k) / 5),
        'hyper': lambda: c.hyper([1, mpf(k) / 3], [mpf(7) / 2], mpf(-k)),
        'hypercomb': lambda: c.hypercomb(lambda a: [([a], [1], [], [], [a], [a + 1], -1)], [mpf(k) / 3]),
        'nint_distance': lambda: c.nint_distance(mpf(k) + mpf(1) / 1024),
        'mpf-str': lambda: c.mpf('0.%d' % (k * 1234567)),
        'nstr': lambda: (c.nstr(c.pi * k, 30), str(c.mpf(k) / 7), repr(c.mpf(k) / 7)),
        'constants': lambda: (+c.pi, +c.e, +c.euler, +c.catalan, +c.ln2, +c.phi, +c.apery, +c.degree),
        'fsum': lambda: c.fsum([mpf(1) / j for j in range(1, 10 + k)]),
        'fdot': lambda: c.fdot([mpf(1) / 3, 2, k], [3, mpf(1) / 7, 5]),
        'linspace': lambda: c.linspace(0, 1, 3 + k),
        'autoprec': lambda: c.autoprec(lambda x: c.exp(x) - 1)(mpf(10) ** -20 * k),
        'bernfrac': lambda: c.bernfrac(10 * k),
        'mpmathify-str': lambda: c.mpmathify('%d/7' % k),
        'coulombc': lambda: c.coulombc(k, mpf(k) / 8),
    }
    return table[name], desc


def iv_call(c, r):
    x = r.choice(['exp', 'sqrt', 'ln', 'cos', 'sin', 'tan', 'gamma', 'loggamma', 'pi', 'str', 'arith', 'matrix', 'fromstr'])
    a = r.randint(1, 40) / 8.0
    b = a + r.choice([0, 2.0 ** -20, 0.125, 1.0])
    if x in ('exp', 'sqrt', 'ln', 'cos', 'sin', 'tan', 'gamma', 'loggamma'):
        return (lambda: getattr(c, x)(c.mpf([a, b]))), 'iv.%s([%r,%r])' % (x, a, b), x
    if x == 'pi':
        return (lambda: (+c.pi, +c.e, c.mpf(1) / 7)), 'iv constants', 'constants'
    if x == 'str':
        return (lambda: (str(c.mpf([a, b])), repr(c.mpf(a) / 3))), 'iv str', 'nstr'
    if x == 'arith':
        return (lambda: (c.mpf([a, b]) * c.mpf(3) - c.mpf(1) / 7) ** 2), 'iv arithmetic', 'arith'
    if x == 'matrix':
        return (lambda: c.matrix([[a, b], [1, 2]]) * c.matrix([[1, 2], [b, a]])), 'iv matrix product', 'matmul'
    return (lambda: c.mpf('%r' % (a / 3))), 'iv.mpf(str)', 'mpf-str'


def fp_call(c, r, mpmath):
    x = r.choice(['exp', 'gamma', 'zeta', 'zeta-rs', 'siegelz-rs', 'quad', 'erf', 'besselj', 'hyp1f1', 'matrix', 'str', 'findroot', 'zetazero-like', 'nsum'])
    a = r.randint(1, 40) / 8.0
    table = {
        'exp': lambda: c.exp(a), 'gamma': lambda: c.gamma(a + 0.5), 'zeta': lambda: c.zeta(a + 1.5),
        'zeta-rs': lambda: c.zeta(complex(0.5, 20000 + 100 * a)), 'siegelz-rs': lambda: c.siegelz(30000 + a),
        'quad': lambda: c.quad(lambda t: c.exp(-t * t), [0, a]), 'erf': lambda: c.erf(a), 'besselj': lambda: c.besselj(2, a),
        'hyp1f1': lambda: c.hyp1f1(1.5, 2.5, -a), 'matrix': lambda: c.matrix([[a, 2], [1, 4]]) ** -1,
        'str': lambda: (c.nstr(a / 3, 10), str(c.mpf(a))), 'findroot': lambda: c.findroot(lambda t: c.cos(t) - t, 1.0),
        'zetazero-like': lambda: c.siegeltheta(50.0 + a), 'nsum': lambda: c.nsum(lambda k: 1.0 / (k + a) ** 2, [1, c.inf]),
    }
    return table[x], 'fp.%s(%r)' % (x, a), x


class CallCapped(BaseException):
    """safety net: one library call used more than CALL_CAP CPU seconds"""


CALL_CAP = {'quick': 8.0, 'thorough': 20.0}
_cap = {'t': 8.0}


def _on_prof(signum, frame):
    raise CallCapped()


def eval_in(w, name, fn, call):
    """run call() with context `name` acting; -> ('ok', result) or ('exc', type name, message).
    A call that exceeds the CPU cap raises CallCapped out of the shard loop: the interrupted library may have left
    a module-level cache half-updated, so nothing is concluded from this process afterwards."""
    import signal
    _last['call'] = (name, fn, w.ctx[name].prec if name in w.ctx else None, w.label)
    signal.setitimer(signal.ITIMER_PROF, _cap['t'])
    try:
        try:
            return ('ok', call())
        finally:
            signal.setitimer(signal.ITIMER_PROF, 0)
    except Exception as e:
        return ('exc', type(e).__name__, str(e)[:160])


def check_ownership(w, name, fn, out, label):
    if out[0] != 'ok':
        return
    own = set()
    owners(out[1], own)
    me = id(w.ctx[name])
    foreign = [n for n in w.ctx if id(w.ctx[n]) in own and n != name]
    # results that are *documented* to live in another context: primepi2 returns an interval of the linked iv context
    if fn == 'primepi2':
        foreign = [n for n in foreign if w.kind[n] != 'iv']
    if foreign:
        w.rec.violation('C38/result-foreign-context/%s' % fn,
                        'a call made through context %s returned objects that belong to context %s' % (name, foreign),
                        {'acting': name, 'step': label, 'history': w.history[-12:]}, observed=foreign, expected=[name])


def make_call(w, name, r, tier):
    """choose a function evaluation for context `name` -> (callable, label, fn-name)"""
    c = w.ctx[name]
    k = w.kind[name]
    if k == 'fp':
        return fp_call(c, r, w.m)
    if k == 'iv':
        return iv_call(c, r)
    if r.random() < 0.35:
        fn = r.choice(SPECIAL_FUNCS)
        if not (fn in SLOW_SPECIAL and not 30 <= c.prec <= 250):
            call, desc = special_call(c, fn, r, k)
            return call, '%s.%s' % (name, desc), fn
    fn = r.choice(CATALOG_FUNCS)
    while c.prec > 250 and (fn in SLOW_CATALOG or K.ENTRIES[fn][0] not in CHEAP_CATEGORIES):
        fn = r.choice(CATALOG_FUNCS)
    specs = gen_args(fn, r)
    f = getattr(c, fn)

    def call():
        return f(*[K.build(c, s) for s in specs])
    return call, '%s.%s(%s)' % (name, fn, ', '.join(show(s) for s in specs)), fn


def show(s):
    if s[0] == 'I':
        return str(s[1])
    def f(raw):
        sg, m, e, bc = raw
        if not m:
            return '0'
        return repr(math.ldexp((-1) ** sg * m, e)) if bc <= 60 and -1000 < e < 1000 else '%s%d*2^%d' % ('-' if sg else '', m, e)
    return f(s[1]) if s[0] == 'R' else '(%s+%sj)' % (f(s[1]), f(s[2]))


def run_history(w, r, tier, hid):
    rec = w.rec
    names = list(w.ctx)
    # independent initial settings
    for n in names:
        c = w.ctx[n]
        w.begin([n], 'set-prec', '%s.prec=init' % n)
        if r.random() < 0.5:
            c.prec = pick_prec(r)
        else:
            c.dps = r.choice([5, 15, 30, 50, 100, 300])
        if w.kind[n] != 'iv' or True:
            c.pretty = r.random() < 0.3
        if w.kind[n] in ('mp', 'clone'):
            c.trap_complex = r.random() < 0.3
        w.after_step([n], 'set-prec', '%s settings' % n)
    L = r.randint(25, 60)
    for step in range(L):
        n = r.choice(['mp', 'mp', 'c1', 'c1', 'c2', 'c3', 'fp', 'iv', 'iv', 'iv2'])
        c = w.ctx[n]
        k = w.kind[n]
        x = r.random()
        sv = settings_vector(w)
        others_differ = any(w.ctx[o].prec != c.prec for o in names if o != n and w.kind[o] != 'fp')
        if x < 0.14:
            p = pick_prec(r, avoid=c.prec)
            label = '%s.prec=%d' % (n, p)
            w.begin([n], 'set-prec', label)
            c.prec = p
            acting, fn = [n], 'set-prec'
        elif x < 0.22:
            d = r.choice([3, 5, 15, 16, 30, 50, 100, 301])
            label = '%s.dps=%d' % (n, d)
            w.begin([n], 'set-dps', label)
            c.dps = d
            acting, fn = [n], 'set-dps'
        elif x < 0.28:
            which = r.choice(['pretty', 'trap_complex']) if k in ('mp', 'clone') else 'pretty'
            v = r.random() < 0.5
            label = '%s.%s=%s' % (n, which, v)
            w.begin([n], 'set-' + which, label)
            setattr(c, which, v)
            acting, fn = [n], 'set-' + which
        elif x < 0.62:
            call, label, fn = make_call(w, n, r, tier)
            w.begin([n], fn, label)
            out = eval_in(w, n, fn, call)
            check_ownership(w, n, fn, out, label)
            rec.cls('eval/%s/%s' % (k, 'exception:' + out[1] if out[0] == 'exc' else 'returned'))
            acting = [n]
        elif x < 0.78 and k in ('mp', 'clone'):
            # precision block in n, with a call into a second context (and sometimes an exception) inside
            o = r.choice([m for m in names if m != n])
            q = pick_prec(r, avoid=c.prec)
            mode = r.choice(['workprec', 'workdps', 'extraprec', 'extradps'])
            arg = q if mode == 'workprec' else r.choice([5, 20, 40, 77]) if mode == 'workdps' else r.choice([7, 30, 100])
            call, lab2, fn2 = make_call(w, o, r, tier)
            label = 'with %s.%s(%s): %s' % (n, mode, arg, lab2)
            fn = mode
            w.begin([n], fn, label)
            boom = r.random() < 0.25
            try:
                with getattr(c, mode)(arg):
                    w.expected[n] = w.snap(n)
                    call1, lab1, fn1 = make_call(w, n, r, tier)          # chosen at the precision in force inside the block
                    label += ' ; ' + lab1
                    w.begin([n, o], fn2, label)
                    out = eval_in(w, o, fn2, call)
                    check_ownership(w, o, fn2, out, label)
                    w.after_step([n, o], fn2, label + ' [inside the block, after the inner call]')
                    w.begin([n], fn1, label)
                    eval_in(w, n, fn1, call1)
                    if boom:
                        raise KeyError('provoked')
            except KeyError:
                pass
            acting = [n]
        elif x < 0.88:
            # provoked exception inside the acting context
            fn = 'exception'
            if k in ('mp', 'clone'):
                which = r.choice(['zerodiv', 'pole', 'complexresult', 'noconv', 'valueerror', 'callback'])
                tc = c.trap_complex
                table = {'zerodiv': lambda: c.mpf(1) / 0, 'pole': lambda: c.gamma(0),
                         'complexresult': lambda: (setattr(c, 'trap_complex', True), c.sqrt(-1)),
                         'noconv': lambda: c.findroot(lambda t: c.exp(t) + 1, 0, maxsteps=3),
                         'valueerror': lambda: c.zeta(1),
                         'callback': lambda: c.quad(lambda t: 1 / (t - t), [0, 1])}
                label = '%s: provoked %s' % (n, which)
                w.begin([n], fn, label)
                out = eval_in(w, n, fn, table[which])
                c.trap_complex = tc
            elif k == 'iv':
                label = '%s: provoked iv error' % n
                w.begin([n], fn, label)
                out = eval_in(w, n, fn, lambda: c.mpf([1, 2]) / c.mpf([-1, 1]) + c.ln(c.mpf([-2, -1])))
            else:
                label = 'fp: provoked error'
                w.begin([n], fn, label)
                out = eval_in(w, n, fn, lambda: c.gamma(0) + c.ln(0))
            rec.cls('exception-step/%s/%s' % (k, out[1] if out[0] == 'exc' else 'no-exception'))
            acting = [n]
        elif x < 0.93 and k in ('mp', 'clone'):
            # re-clone: a fresh clone replaces c2 (precision copied from the source, nothing else may move)
            label = 'c2 = %s.clone()' % n
            fn = 'clone()'
            w.begin([n, 'c2'], fn, label)
            for b in list(w.bounds):
                if b.ctx is w.ctx['c2']:
                    w.wrapped_calls += b.calls
                    b.uninstall(); w.bounds.remove(b)
            new = c.clone()
            if new.prec != c.prec:
                rec.violation('C38/clone-prec/clone()', 'clone() does not start at the precision of its source',
                              {'source': n, 'history': w.history[-12:]}, observed=new.prec, expected=c.prec)
            w.add('c2', new, 'clone')
            w.distinct_classes('after ' + label)
            acting = [n, 'c2']
        else:
            # equivalence probe inside the history (contexts hold whatever the history left them with)
            fn = equivalence_probe(w, r, tier, in_history=True)
            label = 'equivalence probe ' + fn
            acting = []
            w.history.append(label)
        w.after_step(acting, fn, label)
        rec.case((fn, n, label, sv), nontrivial=others_differ, cls='step/%s/%s' % (fn if fn.startswith(('set-', 'work', 'extra', 'clone', 'exception')) else 'evaluate', k))
    if len(rec.samples) < 6:
        rec.sample({'history': w.history[-8:], 'settings': settings_vector(w)})
    w.history = []


# ---------------------------------------------------------------------------------------
# clone-vs-mp equivalence
# ---------------------------------------------------------------------------------------

def equivalence_probe(w, r, tier, in_history=False, forced=None):
    """same function / same exact arguments / same precision in mp and in a clone -> identical raw results"""
    rec = w.rec
    mp = w.ctx['mp']
    cname = r.choice(['c1', 'c2', 'c3'])
    cl = w.ctx[cname]
    p = pick_prec(r)
    special = forced in SPECIAL_FUNCS if forced else r.random() < 0.3
    if special:
        fn = forced or r.choice(SPECIAL_FUNCS)
        st = r.getstate()
        mk = lambda c: (r.setstate(st), special_call(c, fn, r, 'x'))[1][0]
        desc = fn
    else:
        fn = forced or r.choice(CATALOG_FUNCS)
        specs = gen_args(fn, r)
        mk = lambda c: (lambda: getattr(c, fn)(*[K.build(c, s) for s in specs]))
        desc = '%s(%s)' % (fn, ', '.join(show(s) for s in specs))
    if fn in ('pslq', 'identify', 'findpoly') and p < 53:
        p = 53
    if fn in SLOW_SPECIAL and p < 30:
        p = 30 + p
    if p > 250 and (fn in SLOW_SPECIAL or fn in SLOW_CATALOG or (fn in K.ENTRIES and K.ENTRIES[fn][0] not in CHEAP_CATEGORIES)):
        p = r.choice([53, 64, 100, 113, 200])
    order = r.choice(['clone-first', 'mp-first'])
    warm = r.random() < 0.5          # a third context evaluates the same thing at another precision in between / before
    third = w.ctx[r.choice([n for n in ('c1', 'c2', 'c3') if n != cname])]
    saved = {n: (w.ctx[n].prec, getattr(w.ctx[n], 'trap_complex', None), w.ctx[n].pretty) for n in ('mp', 'c1', 'c2', 'c3')}
    tc = False       # trap_complex=True makes internal real->complex steps raise depending on what a context has memoized: not an isolation question
    pretty = r.random() < 0.3          # str/repr depend on this per-context setting: same setting on both sides
    res = {}

    def run(c, who):
        other = mp if c is cl else cl
        c.prec = p
        other.prec = pick_prec(r, avoid=p)
        third.prec = pick_prec(r, avoid=p)
        c.trap_complex = tc
        c.pretty = pretty
        w.begin(['mp', 'c1', 'c2', 'c3'], fn, 'equiv %s in %s at %d' % (desc, who, p))
        res[who] = eval_in(w, who, fn, mk(c))
        if res[who][0] == 'ok':
            own = set(); owners(res[who][1], own)
            bad = [n for n in w.ctx if id(w.ctx[n]) in own and w.ctx[n] is not c and not (fn == 'primepi2' and w.kind[n] == 'iv')]
            if bad:
                rec.violation('C38/result-foreign-context/%s' % fn, 'a call made through %s returned objects of context %s' % (who, bad),
                              {'call': desc, 'prec': p}, observed=bad, expected=[who])
    seq = [(cl, cname), (mp, 'mp')] if order == 'clone-first' else [(mp, 'mp'), (cl, cname)]
    slow = fn in SLOW_SPECIAL or fn in SLOW_CATALOG or (fn in K.ENTRIES and K.ENTRIES[fn][0] not in CHEAP_CATEGORIES)
    if warm and r.random() < 0.5:
        third.prec = (r.choice([30, 77, 150, 250]) if slow else pick_prec(r, avoid=p) + 64)
        eval_in(w, 'third', fn, mk(third))
    run(*seq[0])
    if warm:
        third.prec = max(p + r.choice([-7, 13, 50 if slow else 200]), 10)
        eval_in(w, 'third', fn, mk(third))
    run(*seq[1])
    a, b = res[cname], res['mp']
    ra = ('exc', a[1]) if a[0] == 'exc' else ('ok', raw_of(a[1]))
    rb = ('exc', b[1]) if b[0] == 'exc' else ('ok', raw_of(b[1]))
    rec.cls('equiv/%s' % ('both-raise:' + a[1] if (a[0] == 'exc' and b[0] == 'exc' and a[1] == b[1]) else 'compared' if a[0] == b[0] == 'ok' else 'one-raises'))
    rec.cls('equiv-fn/' + fn)
    rec.event('clone-vs-mp equivalence probes')
    if not in_history:
        rec.case(('equiv', fn, desc, p, order, warm, cname), nontrivial=True, cls='step/equivalence/%s' % order)
    if ra != rb:
        case = {'call': desc, 'prec': p, 'clone': cname, 'order': order, 'third_context_warmup': warm, 'trap_complex': tc}
        msg = (a[2] if a[0] == 'exc' else '') + (b[2] if b[0] == 'exc' else '')
        if a[0] == 'exc' and a[1] == 'AttributeError' and b[0] == 'ok' and any(t in a[2] for t in ("'_mp'", "'_fp'", "'_iv'")):
            key = 'C38/clone-lacks-context-link/%s' % fn
            what = 'the clone raises AttributeError (%s): clone() does not set up the links to the other contexts that mp has' % a[2]
        else:
            # Is it the contexts, or the per-context history of one side (memo tables such as ctx.stieltjes_cache make a
            # context's own results depend on what it computed before: that is history dependence, C17/C34, not
            # isolation)?  Two brand-new clones have identical (empty) per-context histories: evaluated one after the
            # other while every other context moves to new precisions and a third context evaluates the same thing at
            # another precision in between, they must agree bit for bit -- anything else comes from outside them.
            fresh = []
            for _ in range(2):
                z = mp.clone()
                for n in ('mp', 'c1', 'c2', 'c3'):
                    w.ctx[n].prec = pick_prec(r, avoid=p)
                if slow:
                    third.prec = r.choice([30, 77, 150])
                eval_in(w, 'third', fn, mk(third))
                for n in ('mp', 'c1', 'c2', 'c3'):
                    w.ctx[n].prec = pick_prec(r, avoid=p)
                z.prec = p; z.trap_complex = tc; z.pretty = pretty
                o = eval_in(w, 'fresh', fn, mk(z))
                fresh.append(('exc', o[1]) if o[0] == 'exc' else ('ok', raw_of(o[1])))
            rec.event('mismatches adjudicated with two fresh clones')
            case['fresh_clones'] = [short(fresh[0])[:200], short(fresh[1])[:200]]
            key = 'C38/clone-differs/%s' % fn
            if fresh[0] != fresh[1]:
                what = ('two brand-new clones give different raw results for the same exact input at the same precision '
                        'depending on what the other contexts did in between')
            elif (ra[0] == 'exc') != (rb[0] == 'exc') and fresh[0][0] == ra[0]:
                what = 'clones raise / return where mp returns / raises for the same exact input at the same precision'
            else:
                key = None
                rec.cls('equiv/history-dependence-of-one-side:' + fn)
                rec.note('clone-vs-mp difference explained by the per-context history of one side (two fresh clones agree with '
                         'each other): history dependence, outside C38 (see C17/C34)',
                         {'call': desc, 'prec': p, 'clone': short(ra)[:160], 'mp': short(rb)[:160], 'fresh': short(fresh[0])[:160]})
        if key is None:
            pass
        elif _taint['n'] and not key.startswith('C38/clone-lacks'):
            rec.undecided('clone-vs-mp mismatch after an interrupted call in this process (caches possibly inconsistent)', case)
        else:
            rec.violation(key, what, case, observed={'clone': short(ra), 'mp': short(rb), 'messages': msg[:200]}, expected='bit-identical raw results')
    for n, (pp, t, pt) in saved.items():
        w.ctx[n].prec = pp
        w.ctx[n].trap_complex = t
        w.ctx[n].pretty = pt
    for n in ('mp', 'c1', 'c2', 'c3'):
        w.expected[n] = w.snap(n)
    return fn


def short(x):
    s = repr(x)
    return s if len(s) < 400 else s[:400] + '...'


# ---------------------------------------------------------------------------------------
def run_shard(shard, rec):
    import mpmath
    tier = shard['tier']
    r = G.rng(PROP, shard['seed'], shard['shard'])
    t0 = time.process_time()
    from vf.instrument import AnchorCount
    anchors = ['mpmath.ctx_mp:MPContext.clone', 'mpmath.ctx_mp_python:PythonMPContext.__init__',
               'mpmath.ctx_mp_python:PythonMPContext._set_prec', 'mpmath.ctx_mp_python:PythonMPContext._set_dps',
               'mpmath.ctx_iv:MPIntervalContext._set_prec', 'mpmath.ctx_iv:MPIntervalContext.__init__',
               'mpmath.ctx_mp:MPContext.hypsum', 'mpmath.functions.rszeta:coef', 'mpmath.calculus.quadrature:QuadratureRule.get_nodes']
    skipped = 0
    import signal
    signal.signal(signal.SIGPROF, _on_prof)
    _cap['t'] = CALL_CAP[tier]
    _run(shard, rec, tier, r, t0, anchors, mpmath)


_last = {}
_taint = {'n': 0}


def capped(rec):
    """a library call was interrupted by the per-call CPU cap: the history is abandoned; module-level caches may be
    half-updated from now on, so later clone-vs-mp mismatches in this process are `undecided`, not violations
    (the state checks stay valid: no cache can change a context's settings)"""
    _taint['n'] += 1
    rec.undecided('a library call exceeded the per-call CPU cap (history abandoned)', {'last_call (context, function, prec, step)': _last.get('call')})


def _run(shard, rec, tier, r, t0, anchors, mpmath):
    from vf.instrument import AnchorCount
    skipped = 0
    w0 = time.time()
    with AnchorCount(rec, anchors):
        nh = HISTORIES[tier]
        for h in range(nh):
            if time.process_time() - t0 > CPU_LIMIT[tier] * 0.6 or time.time() - w0 > WALL_SAFETY[tier] * 0.6:
                skipped += nh - h
                break
            w = World(mpmath, rec, r)
            try:
                run_history(w, r, tier, h)
                rec.event('histories run')
            except CallCapped:
                capped(rec)
            finally:
                w.close()
                rec.event('wrapped calls seen by ApiBoundary', w.wrapped_calls)
        # dedicated equivalence probes: every function at least once per shard (seed-independent set), then random
        w = World(mpmath, rec, r, boundary=False)
        try:
            allf = CATALOG_FUNCS + SPECIAL_FUNCS
            ne = EQUIV[tier]
            for i in range(ne):
                if time.process_time() - t0 > CPU_LIMIT[tier] or time.time() - w0 > WALL_SAFETY[tier]:
                    skipped += ne - i
                    break
                forced = allf[(i + shard['shard'] * 13) % len(allf)] if i < len(allf) else None
                try:
                    fn = equivalence_probe(w, r, tier, forced=forced)
                except CallCapped:
                    capped(rec)
                    for n in ('mp', 'c1', 'c2', 'c3'):
                        w.ctx[n].prec = 53
                        w.expected[n] = w.snap(n)
                    continue
                w.after_step(['mp', 'c1', 'c2', 'c3'], fn, 'equivalence probe ' + fn)
                w.history = []
        finally:
            w.close()
    if skipped:
        rec.event('histories/probes not started: shard CPU limit', skipped)


def required(agg, tier):
    miss = []
    ev = agg['events']
    for name in ('steps followed by the state check of all other contexts', 'effective-precision probes',
                 'clone-vs-mp equivalence probes', 'wrapped-call exits checked', 'wrapped calls seen by ApiBoundary',
                 'pairs of contexts checked for shared classes / slots / containers', 'histories run'):
        if not ev.get(name):
            miss.append('monitor saw nothing: ' + name)
    cl = agg['classes']
    for k in ('mp', 'clone', 'fp', 'iv'):
        if not any(c.startswith('step/') and c.endswith('/' + k) for c in cl):
            miss.append('no step acted in a context of kind ' + k)
    for s in ('step/set-prec', 'step/set-dps', 'step/evaluate', 'step/workprec', 'step/exception', 'step/clone()', 'step/equivalence'):
        if not any(c.startswith(s) for c in cl):
            miss.append('step kind never executed: ' + s)
    seen = set(c[len('equiv-fn/'):] for c in cl if c.startswith('equiv-fn/'))
    lack = [f for f in CATALOG_FUNCS + SPECIAL_FUNCS if f not in seen]
    if lack:
        miss.append('functions never compared between clone and mp: ' + ' '.join(lack[:10]))
    if not cl.get('equiv/compared'):
        miss.append('no clone-vs-mp comparison of two returned values')
    for a in ('mpmath.ctx_mp:MPContext.clone', 'mpmath.ctx_mp_python:PythonMPContext._set_prec', 'mpmath.ctx_iv:MPIntervalContext._set_prec'):
        if not agg['anchors'].get(a) and not agg['anchors'].get('unresolved:' + a):
            miss.append('anchor never reached: ' + a)
    sk = ev.get('histories/probes not started: shard CPU limit', 0)
    if sk > 0.3 * (ev.get('histories run', 0) + ev.get('clone-vs-mp equivalence probes', 0) + sk):
        miss.append('%d histories/probes not started before the shard CPU limit' % sk)
    # compact the per-function counters
    n = sum(1 for c in list(cl) if c.startswith('equiv-fn/'))
    tot = 0
    for c in list(cl):
        if c.startswith('equiv-fn/'):
            tot += cl.pop(c)
    cl['equiv-functions-compared (distinct)'] = n
    return miss


def replay(case, rec):
    """violations are history-dependent: re-run the shard that produced the case (same seed) is the faithful replay;
    equivalence cases carry the function name and are re-probed directly"""
    import mpmath, random
    c = case.get('case', {})
    call = c.get('call')
    r = random.Random(0)
    w = World(mpmath, rec, r, boundary=False)
    try:
        if call:
            fn = call.split('(')[0].split('[')[0]
            if fn in CATALOG_FUNCS or fn in SPECIAL_FUNCS:
                for i in range(40):
                    equivalence_probe(w, r, case.get('tier', 'quick'), forced=fn)
                return
        for h in range(5):
            run_history(w, r, case.get('tier', 'quick'), h)
    finally:
        w.close()
