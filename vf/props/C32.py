"""C32 -- matrix functions are mutually consistent.

Observed: expm (methods 'taylor' and 'pade'), logm, sqrtm, powm, cosm, sinm on diagonalizable matrices
A = V D V^-1 built exactly (V integer / Hadamard-type with dyadic inverse, D dyadic diagonal or real 2x2 rotation
blocks), so that A is exactly representable at the working precision.
Oracle: the stated identities evaluated exactly with vf.linalgq on the returned dyadic entries
(sqrtm(A)^2 - A, cosm(A)^2 + sinm(A)^2 - I, expm(logm(A)) - A, powm(A,k) - A**k) and, for diagonal D,
expm(D) against exp(d_i) from the reference release at two precisions.

Readings fixed a priori (docs/C32.md).  "within ||A||*2^(10-p) relative error" is read as
      || LHS - RHS ||_F  <=  2^(10-p) * max(1, ||A||_F) * || RHS ||_F
(error relative to the right-hand side of the identity, amplification factor ||A|| but never below the
rounding level of a p-bit result).  Envelope ("moderate size and norm", diagonalizable, away from the cut):
  n <= 6;  cond_inf(V) <= 8;  2^-20 <= ||A||_F <= 2^6;
  logm / sqrtm: eigenvalues nonzero, |arg| <= 3pi/4, max|l|/min|l| <= 16;
  cosm / sinm: |Im l| <= 1;   powm: 0 <= k <= 6, or -3 <= k < 0 with (max|l|/min|l|)^|k| <= 16.
  sqrtm additionally (class 'on-cut'): nonsingular diagonalizable matrices with negative real eigenvalues, for
  which a square root exists and sqrtm documents that it returns one.
Outside the envelope: rec.note only.
"""
import math
from fractions import Fraction
from vf import gens as G
from vf import linalgq as L

PROP = 'C32'
LEVEL = 'exploration'
NEEDS_REF = True
RULE = ('seeded stratified generation: identity x spectrum class (positive, right half plane, wide angle, imaginary, real '
        'rotation blocks, repeated, negative-real for sqrtm) x eigenvector matrix x norm 2^-20..2^6 x size 1..6 x precision '
        '30..200; every case is non-trivial (results are irrational) except identity/zero inputs; distinct = distinct '
        '(identity, options, exact entries of A, p)')
ASSUMPTIONS = ['vf/linalgq.py exact products and norms are correct (self-tested)',
               'exp(d_i) for the diagonal test comes from mpmath 1.3.0 at p+80 and 2p+200 bits, agreeing to 2^-(p+40)',
               'the tolerance reading and the envelope in the module docstring were fixed before looking at results']
LEVEL_TEXT = ('exploration: ~3*10^3 (quick) / ~3*10^4 (thorough) matrix-function identities evaluated on the real code, '
              'each residual computed exactly')
LEVEL_NOTE = 'trusted base: vf/linalgq.py, reference exp values; matrices outside the stated envelope are only observed'
TECHNIQUE = 'runtime reference-model monitor: exact evaluation of the identities on every returned matrix'
SHARD_TIMEOUT = {'quick': 1000, 'thorough': 10800}   # thorough: a shard needs ~60 CPU-s; the cap only bounds hangs (a loaded machine at 5% CPU per worker exceeded the former 3000 s)

NSHARDS = 16
CASES = {'quick': 190, 'thorough': 1900}
MAXSIZE = {'quick': 4, 'thorough': 6}
PRECS = [30, 40, 53, 64, 100, 113, 150, 200]

SPECTRA = ['pos', 'right', 'wide', 'imag', 'rot', 'repeated', 'unit']
OPS = ['expm_diag/taylor', 'expm_diag/pade', 'explog/taylor', 'explog/pade', 'sqrtm', 'powm', 'cossin', 'expm_vs_ref']


def cells():
    out = []
    for op in OPS:
        if op.startswith('expm_diag'):
            for s in ('real', 'complex', 'mixed-scale', 'tiny', 'big'):
                out.append((op, s))
            continue
        for s in SPECTRA:
            out.append((op, s))
        if op == 'sqrtm':
            out += [('sqrtm', 'on-cut'), ('sqrtm', 'on-cut-mixed'), ('sqrtm', 'neg-det')]
    return out


CELLS = cells()


def shards(tier, seed):
    return [{'n': CASES[tier]} for _ in range(NSHARDS)]


def _mp():
    import mpmath
    return mpmath.mp


class Prec(object):
    def __init__(self, mp, p):
        self.mp, self.p = mp, p

    def __enter__(self):
        self.old = self.mp.prec
        self.mp.prec = self.p

    def __exit__(self, *a):
        self.mp.prec = self.old


# ---------------------------------------------------------------------------------------
# generators
# ---------------------------------------------------------------------------------------
H2 = [[1, 1], [1, -1]]
H4 = [[1, 1, 1, 1], [1, -1, 1, -1], [1, 1, -1, -1], [1, -1, -1, 1]]
BLOCKS = {1: [[[1]]], 2: [[[1, 1], [0, 1]], [[1, 0], [1, 1]], H2, [[1, -1], [0, 1]], [[1, 0], [0, 1]]], 4: [H4]}


def _factor(r, n):
    V = L.zeros(n)
    k = 0
    while k < n:
        sizes = [s for s in (1, 2, 4) if s <= n - k]
        s = r.choice(sizes + [1])
        B = r.choice(BLOCKS[s])
        for i in range(s):
            for j in range(s):
                V[k + i][k + j] = Fraction(B[i][j])
        k += s
    perm = list(range(n))
    r.shuffle(perm)
    V = [V[i] for i in perm]
    perm2 = list(range(n))
    r.shuffle(perm2)
    V = [[row[j] * r.choice([1, 1, -1]) for j in perm2] for row in V]
    return V


def gen_V(r, n):
    """integer matrix with dyadic inverse and cond_inf <= 8 (envelope E2); falls back to a signed permutation"""
    for attempt in range(20):
        V = _factor(r, n)
        if r.random() < 0.4:
            V = L.mul(V, _factor(r, n))
        try:
            Vi = L.inverse(V)
        except L.Singular:
            continue
        if not all(L.is_dyadic(v) for row in Vi for v in row):
            continue
        if L.cond_upper(V, 'inf', Vi) <= 8:
            return V, Vi
    V = L.eye(n)
    return V, L.eye(n)


def _mant(r, bits=6):
    return Fraction(r.randint(1, (1 << bits) - 1))


def gen_spectrum(r, cls, n):
    """list of blocks: scalars (Fraction / GQ) or real 2x2 rotation blocks (a, b) -> [[a,-b],[b,a]]; before scaling,
    magnitudes within [1, 16]"""
    out = []

    def mag():
        return _mant(r, 6) / 4 + 1 if r.random() < 0.8 else Fraction(r.choice([1, 2, 4, 16]))       # in [1, 16.75)
    i = 0
    while i < n:
        if cls == 'pos':
            out.append(min(mag(), Fraction(16)))
        elif cls == 'right':
            a = min(mag(), Fraction(11))
            b = Fraction(r.randint(-40, 40), 4)
            b = max(min(b, a), -a)                      # |Im| <= Re
            out.append(L.GQ(a, b) if b else a)
        elif cls == 'wide':
            b = min(mag(), Fraction(11)) * r.choice([1, -1])
            a = Fraction(r.randint(-40, 40), 4)
            a = max(min(a, abs(b)), -abs(b))            # |Re| <= |Im|  -> |arg| in [pi/4, 3pi/4]
            out.append(L.GQ(a, b))
        elif cls == 'imag':
            out.append(L.GQ(0, min(mag(), Fraction(16)) * r.choice([1, -1])))
        elif cls == 'rot':
            if i + 1 < n and r.random() < 0.75:
                a = Fraction(r.randint(0, 40), 4)
                b = Fraction(r.randint(4, 40), 4) * r.choice([1, -1])
                if a == 0 and r.random() < 0.5:
                    a = Fraction(1)
                out.append(('rot', a, b))
                i += 1
            else:
                out.append(min(mag(), Fraction(16)))
        elif cls == 'repeated':
            if out and r.random() < 0.6:
                out.append(out[-1] if not isinstance(out[-1], tuple) else Fraction(2))
            else:
                out.append(min(mag(), Fraction(16)) if r.random() < 0.6 else L.GQ(min(mag(), Fraction(8)), Fraction(r.randint(0, 8))))
        elif cls == 'unit':
            out.append(Fraction(1) if r.random() < 0.7 else Fraction(2))
        elif cls == 'on-cut':
            out.append(-min(mag(), Fraction(16)))
        elif cls == 'on-cut-mixed':
            out.append(min(mag(), Fraction(16)) * (-1 if (i == 0 or r.random() < 0.4) else 1))
        elif cls == 'neg-det':
            # complex eigenvalues off the cut whose product is negative real (triggers the determinant heuristic)
            if i + 1 < n:
                m1, m2 = Fraction(r.randint(1, 8)), Fraction(r.randint(1, 8))
                out.append(L.GQ(0, m1)); out.append(L.GQ(0, m2))
                i += 1
            else:
                out.append(min(mag(), Fraction(16)))
        else:
            raise ValueError(cls)
        i += 1
    return out


def spectrum_values(blocks):
    vals = []
    for b in blocks:
        if isinstance(b, tuple):
            vals += [L.GQ(b[1], b[2]), L.GQ(b[1], -b[2])]
        else:
            vals.append(b)
    return vals


def block_matrix(blocks, scale=1):
    n = sum(2 if isinstance(b, tuple) else 1 for b in blocks)
    D = L.zeros(n)
    k = 0
    for b in blocks:
        if isinstance(b, tuple):
            a, c = b[1] * scale, b[2] * scale
            D[k][k], D[k][k + 1], D[k + 1][k], D[k + 1][k + 1] = a, -c, c, a
            k += 2
        else:
            D[k][k] = b * scale
            k += 1
    return D


def gen_case(r, cls, n, p, small_imag=False):
    """-> dict with exact A, V, Vi, eigenvalues; A exactly representable at p bits, or None"""
    for attempt in range(10):
        V, Vi = gen_V(r, n)
        blocks = gen_spectrum(r, cls, n)
        sh = r.choice([-24, -20, -16, -10, -6, -3, -1, 0, 0, 1, 2])            # overall power-of-two scale
        if small_imag:
            # cosm/sinm envelope |Im l| <= 1: scale complex spectra down (real spectra keep the full range)
            mi = max([abs(L.im(v)) for v in spectrum_values(blocks)] + [Fraction(0)])
            while mi * L.pow2(sh) > 1:
                sh -= 1
        D = block_matrix(blocks, L.pow2(sh))
        A = L.mul(L.mul(V, D), Vi)
        A = [[L.simplify(v) for v in row] for row in A]
        if all(L.fits(v, p) for row in A for v in row):
            lam = [v * L.pow2(sh) for v in spectrum_values(blocks)]
            return {'A': A, 'V': V, 'Vi': Vi, 'lam': lam, 'D': D, 'diag': not any(isinstance(b, tuple) for b in blocks)}
    return None


def arg_ok(l):
    """|arg l| <= 3pi/4  <=>  Re > 0 or |Im| >= |Re|  (and l != 0)"""
    re_, im_ = L.re(l), L.im(l)
    if re_ == 0 and im_ == 0:
        return False
    return re_ > 0 or abs(im_) >= abs(re_)


def spread2(lam):
    a = [L.abs2(l) for l in lam]
    if min(a) == 0:
        return None
    return max(a) / min(a)


def norm_in_range(A):
    f2 = L.fro2(A)
    return L.pow2(-40) <= f2 <= L.pow2(12)


def ser(A):
    return [[[str(L.re(v)), str(L.im(v))] if isinstance(v, L.GQ) else str(v) for v in row] for row in A]


def deser(S):
    return [[L.GQ(Fraction(v[0]), Fraction(v[1])) if isinstance(v, list) else Fraction(v) for v in row] for row in S]


def key_of(A):
    return tuple(tuple((v.re, v.im) if isinstance(v, L.GQ) else v for v in row) for row in A)


# ---------------------------------------------------------------------------------------
def log2r(num2, den2):
    if not num2:
        return float('-inf')
    if not den2:
        return float('inf')
    return (L.approx_log2(num2) - L.approx_log2(den2)) / 2


def identity_check(rec, name, key, what, case, LHS, RHS, A, p, extra_factor=1):
    """||LHS - RHS||_F <= 2^(10-p) max(1, ||A||_F) ||RHS||_F * extra_factor ; exact through squares"""
    if L.shape(LHS) != L.shape(RHS):
        rec.violation(key + '/shape', what + ' (shape)', case, L.shape(LHS), L.shape(RHS))
        return False
    R = L.sub(LHS, RHS)
    r2, s2, a2 = L.fro2(R), L.fro2(RHS), L.fro2(A)
    amp2 = a2 if a2 > 1 else Fraction(1)
    bound2 = L.pow2(2 * (10 - p)) * amp2 * s2 * extra_factor * extra_factor
    if r2 <= bound2:
        if r2 and s2:
            rec.maximum('log2(residual/(max(1,||A||)*||RHS||*2^-p)) ' + name, round(log2r(r2, amp2 * s2) + p, 2),
                        {'prec': p, 'n': len(A), 'spectrum': case.get('spectrum'), 'log2normA': round(L.approx_log2(a2) / 2, 1) if a2 else None})
        return True
    sev = round(log2r(r2, amp2 * s2) + p, 1) if s2 else None
    rec.violation(key, what, case, observed={'log2_relative_residual': log2r(r2, amp2 * s2)}, expected={'log2_bound': 10 - p}, severity=sev)
    return False


def guarded(rec, name, case, f):
    try:
        return f(), None
    except Exception as e:
        ename = type(e).__name__
        if isinstance(e, TypeError) and 'NoneType' in str(e) and _raised_in(e, 'LU_decomp'):
            # mechanism of C30/singular/*/TypeError-no-pivot: LU_decomp leaves p[j] = None on an exactly zero pivot column and
            # raises TypeError, which the `except ZeroDivisionError` retry logic of sqrtm cannot catch
            rec.violation('C32/%s/LU_decomp-TypeError-no-pivot' % name.split('-')[0],
                          '%s fails with TypeError: inverse() inside the iteration hits an exactly zero pivot column and LU_decomp raises '
                          'TypeError instead of the ZeroDivisionError that the retry logic expects' % name, case, '%s: %s' % (ename, e), 'a matrix')
            return None, e
        rec.violation('C32/%s/raised-%s' % (name, ename), '%s raised %s inside the envelope' % (name, ename), case,
                      '%s: %s' % (ename, e), 'a matrix')
        return None, e


def _raised_in(exc, funcname):
    tb = exc.__traceback__
    while tb is not None:
        if tb.tb_frame.f_code.co_name == funcname:
            return True
        tb = tb.tb_next
    return False


def _ref_exp(d, p):
    """enclosure-free high precision exp(d) as exact dyadic (error <= 2^-(p+39) relative), or None"""
    from vf import refmodel
    rmp = refmodel.ref().mp
    old = rmp.prec

    def conv(x):
        if isinstance(x, L.GQ):
            return rmp.mpc(rmp.mpf(x.re.numerator) / x.re.denominator, rmp.mpf(x.im.numerator) / x.im.denominator)
        return rmp.mpf(x.numerator) / x.denominator
    try:
        rmp.prec = p + 80
        a = rmp.exp(conv(d))
        rmp.prec = 2 * p + 200
        b = rmp.exp(conv(d))
        qa, qb = L.from_mp(a), L.from_mp(b)
    finally:
        rmp.prec = old
    if L.abs2(qa - qb) > L.pow2(-2 * (p + 40)) * L.abs2(qb):
        return None
    return qb


# ---------------------------------------------------------------------------------------
# checks
# ---------------------------------------------------------------------------------------

def check_expm_diag(mp, rec, r, method, cls, p, tier, d=None):
    if d is None:
        n = r.randint(1, MAXSIZE[tier])
        n2 = 1 << (n - 1).bit_length()          # power of two >= n keeps the entries dyadic
        d = []
        for _ in range(n):
            if cls == 'tiny':
                m = Fraction(r.randint(-63, 63)) * L.pow2(r.randint(-26, -12))
            elif cls == 'big':
                m = Fraction(r.randint(-255, 255), 4 * n2)
            elif cls == 'mixed-scale':
                m = Fraction(r.randint(-63, 63)) * L.pow2(r.randint(-20, 0))
            else:
                m = Fraction(r.randint(-127, 127), r.choice([1, 2, 4, 16, 64]))
            if cls == 'complex' or (cls in ('mixed-scale', 'big') and r.random() < 0.4):
                m = L.GQ(m, Fraction(r.randint(-127, 127), r.choice([4, 8, 16, 64]) * n2))
            d.append(m)
    n = len(d)
    D = L.diag(d)
    case = {'op': 'expm_diag/' + method, 'spectrum': cls, 'prec': p, 'd': [[str(L.re(v)), str(L.im(v))] for v in d]}
    if L.fro2(D) > L.pow2(12) or (L.fro2(D) and L.fro2(D) < L.pow2(-40)):
        rec.cls('outside-envelope/expm_diag')
        return
    rec.case(('expm_diag', method, p, key_of(D)), any(d), cls='expm_diag/%s/%s' % (method, cls))
    with Prec(mp, p):
        M = L.to_mpmatrix(mp, D)
        out, exc = guarded(rec, 'expm-' + method, case, lambda: mp.expm(M, method=method) if method == 'pade' or r.random() < 0.5 else mp.expm(M))
    if exc is not None:
        return
    X = L.from_mpmatrix(out)
    ref = []
    for v in d:
        e = _ref_exp(v, p)
        if e is None:
            rec.undecided('reference exp not self-consistent', case)
            return
        ref.append(e)
    # guard band: the reference is accurate to 2^-(p+39) relative, the bound has 2^(10-p): negligible but accounted for
    identity_check(rec, 'expm(D)=diag(exp d) ' + method, 'C32/expm-%s/diagonal' % method,
                   'expm(D, %s) differs from diag(exp(d)) by more than 2^(10-p) max(1,||D||) relative' % method, case, X, L.diag(ref), D, p,
                   extra_factor=1 + L.pow2(-20))


def envelope_general(c):
    return norm_in_range(c['A'])


def check_explog(mp, rec, r, method, cls, p, c):
    A, lam = c['A'], c['lam']
    case = {'op': 'explog/' + method, 'spectrum': cls, 'prec': p, 'A': ser(A)}
    sp = spread2(lam)
    if not envelope_general(c) or sp is None or sp > 256 or not all(arg_ok(l) for l in lam):
        rec.cls('outside-envelope/explog')
        return
    rec.case(('explog', method, p, key_of(A)), not L.equal(A, L.eye(len(A))), cls='explog/%s/%s' % (method, cls))
    with Prec(mp, p):
        M = L.to_mpmatrix(mp, A)
        out, exc = guarded(rec, 'expm(logm)', case, lambda: mp.expm(mp.logm(M), method=method))
    if exc is not None:
        return
    identity_check(rec, 'expm(logm(A))=A ' + method, 'C32/expm-logm/%s' % method,
                   'expm(logm(A)) differs from A by more than 2^(10-p) max(1,||A||) relative', case, L.from_mpmatrix(out), A, A, p)


def check_sqrtm(mp, rec, r, cls, p, c):
    A, lam = c['A'], c['lam']
    case = {'op': 'sqrtm', 'spectrum': cls, 'prec': p, 'A': ser(A)}
    sp = spread2(lam)
    oncut = cls.startswith('on-cut')
    if not envelope_general(c) or sp is None or sp > 256 or not (oncut or all(arg_ok(l) for l in lam)):
        rec.cls('outside-envelope/sqrtm')
        return
    rec.case(('sqrtm', p, key_of(A)), True, cls='sqrtm/%s' % cls)
    with Prec(mp, p):
        M = L.to_mpmatrix(mp, A)
        out, exc = guarded(rec, 'sqrtm' + ('-on-cut' if oncut else ''), case, lambda: mp.sqrtm(M))
    if exc is not None:
        return
    X = L.from_mpmatrix(out)
    identity_check(rec, 'sqrtm(A)^2=A' + (' on-cut' if oncut else ''), 'C32/sqrtm/square' + ('-on-cut' if oncut else ''),
                   'sqrtm(A)^2 differs from A by more than 2^(10-p) max(1,||A||) relative', case, L.mul(X, X), A, A, p)


def check_powm(mp, rec, r, cls, p, c, k=None):
    A, lam = c['A'], c['lam']
    if k is None:
        k = r.choice([0, 1, 2, 3, 4, 5, 6, -1, -2, -3, 2, 3])
    case = {'op': 'powm', 'k': k, 'spectrum': cls, 'prec': p, 'A': ser(A)}
    if not envelope_general(c):
        rec.cls('outside-envelope/powm')
        return
    if k < 0:
        sp = spread2(lam)
        if sp is None or sp ** (-k) > 256:
            rec.cls('outside-envelope/powm-negative')
            return
        Ak = L.matpow(L.inverse(A), -k)
    else:
        Ak = L.matpow(A, k)
    rec.case(('powm', k, p, key_of(A)), k not in (0, 1), cls='powm/%s/k%s' % (cls, 'neg' if k < 0 else 'pos'))
    with Prec(mp, p):
        M = L.to_mpmatrix(mp, A)
        kk = r.choice([k, mp.mpf(k), float(k)])
        out, exc = guarded(rec, 'powm', case, lambda: mp.powm(M, kk))
        if exc is not None:
            return
        out2, exc = guarded(rec, 'matrix-power', case, lambda: M ** k)
        if exc is not None:
            return
    P1, P2 = L.from_mpmatrix(out), L.from_mpmatrix(out2)
    # the identity itself (powm(A,k) against A**k), scaled by the exact power
    if L.shape(P1) != L.shape(P2):
        rec.violation('C32/powm/shape', 'powm and ** disagree in shape', case, L.shape(P1), L.shape(P2))
        return
    R = L.sub(P1, P2)
    r2, s2, a2 = L.fro2(R), L.fro2(Ak), L.fro2(A)
    amp2 = a2 if a2 > 1 else Fraction(1)
    if r2 > L.pow2(2 * (10 - p)) * amp2 * s2:
        rec.violation('C32/powm/integer-power', 'powm(A,k) differs from A**k by more than 2^(10-p) max(1,||A||) ||A^k||', case,
                      observed={'log2_relative_residual': log2r(r2, amp2 * s2)}, expected={'log2_bound': 10 - p},
                      severity=round(log2r(r2, amp2 * s2) + p, 1) if s2 else None)
        return
    if r2 and s2:
        rec.maximum('log2(residual/(max(1,||A||)*||RHS||*2^-p)) powm(A,k)=A**k', round(log2r(r2, amp2 * s2) + p, 2), {'prec': p, 'k': k, 'n': len(A)})
    # and both against the exact power (oracle independent of the code under test)
    identity_check(rec, 'powm(A,k)=A^k exact', 'C32/powm/exact-power', 'powm(A,k) differs from the exact power by more than 2^(10-p) max(1,||A||) relative',
                   case, P1, Ak, A, p)


def check_cossin(mp, rec, r, cls, p, c):
    A, lam = c['A'], c['lam']
    case = {'op': 'cossin', 'spectrum': cls, 'prec': p, 'A': ser(A)}
    if not envelope_general(c) or any(abs(L.im(l)) > 1 for l in lam):
        rec.cls('outside-envelope/cossin')
        return
    n = len(A)
    rec.case(('cossin', p, key_of(A)), True, cls='cossin/%s' % cls)
    with Prec(mp, p):
        M = L.to_mpmatrix(mp, A)
        out, exc = guarded(rec, 'cosm-sinm', case, lambda: (mp.cosm(M), mp.sinm(M)))
    if exc is not None:
        return
    C, S = L.from_mpmatrix(out[0]), L.from_mpmatrix(out[1])
    identity_check(rec, 'cosm^2+sinm^2=I', 'C32/cosm-sinm/pythagoras', 'cosm(A)^2 + sinm(A)^2 differs from I by more than 2^(10-p) max(1,||A||) relative',
                   case, L.add(L.mul(C, C), L.mul(S, S)), L.eye(n), A, p)


def check_expm_vs_ref(mp, rec, r, cls, p, c):
    """observed, not asserted: both expm methods against V diag(exp l) V^-1 with exact V"""
    if not c['diag'] or not envelope_general(c):
        rec.cls('outside-envelope/expm_vs_ref')
        return
    A, V, Vi = c['A'], c['V'], c['Vi']
    ex = []
    for l in c['lam']:
        e = _ref_exp(l, p)
        if e is None:
            return
        ex.append(e)
    E = L.mul(L.mul(V, L.diag(ex)), Vi)
    rec.cls('observed/expm_vs_ref/%s' % cls)
    with Prec(mp, p):
        M = L.to_mpmatrix(mp, A)
        try:
            T1, T2 = mp.expm(M), mp.expm(M, method='pade')
        except Exception as e:
            rec.note('expm raised', {'A': ser(A), 'exc': repr(e)})
            return
    a2 = L.fro2(A)
    amp2 = a2 if a2 > 1 else Fraction(1)
    for nm, Tm in (('taylor', T1), ('pade', T2)):
        r2 = L.fro2(L.sub(L.from_mpmatrix(Tm), E))
        if r2:
            rec.maximum('observed log2(||expm(A)-V e^D V^-1||/(max(1,||A||)||e^A|| 2^-p)) ' + nm, round(log2r(r2, amp2 * L.fro2(E)) + p, 2),
                        {'prec': p, 'n': len(A), 'spectrum': cls})


# ---------------------------------------------------------------------------------------
def pick_prec(r, i):
    if r.random() < 0.7:
        return PRECS[i % len(PRECS)]
    return r.randint(30, 200)


def run_case(mp, rec, r, i, tier):
    op, cls = CELLS[i % len(CELLS)]
    p = pick_prec(r, i // len(CELLS))
    if op.startswith('expm_diag'):
        return check_expm_diag(mp, rec, r, op.split('/')[1], cls, p, tier)
    n = r.randint(1, MAXSIZE[tier])
    if cls == 'rot' and n == 1:
        n = 2
    c = gen_case(r, cls, n, p, small_imag=(op == 'cossin'))
    if c is None:
        rec.cls('generator-gave-up')
        return
    if op.startswith('explog'):
        check_explog(mp, rec, r, op.split('/')[1], cls, p, c)
    elif op == 'sqrtm':
        check_sqrtm(mp, rec, r, cls, p, c)
    elif op == 'powm':
        check_powm(mp, rec, r, cls, p, c)
    elif op == 'cossin':
        check_cossin(mp, rec, r, cls, p, c)
    else:
        check_expm_vs_ref(mp, rec, r, cls, p, c)


ANCHORS = ['mpmath.matrices.calculus:MatrixCalculusMethods.expm', 'mpmath.matrices.calculus:MatrixCalculusMethods._exp_pade',
           'mpmath.matrices.calculus:MatrixCalculusMethods.sqrtm', 'mpmath.matrices.calculus:MatrixCalculusMethods._sqrtm_rot',
           'mpmath.matrices.calculus:MatrixCalculusMethods.logm', 'mpmath.matrices.calculus:MatrixCalculusMethods.powm',
           'mpmath.matrices.calculus:MatrixCalculusMethods.cosm', 'mpmath.matrices.calculus:MatrixCalculusMethods.sinm']


def run_shard(shard, rec):
    mp = _mp()
    r = G.rng(PROP, shard['seed'], shard['shard'])
    tier = shard['tier']
    if L.selftest(30) != 0:
        raise RuntimeError('linalgq selftest failed')
    from vf.instrument import AnchorCount
    with AnchorCount(rec, ANCHORS):
        for i in range(shard['n']):
            run_case(mp, rec, r, i * NSHARDS + shard['shard'], tier)
    rec.event('identities evaluated exactly', rec.evals)


def required(agg, tier):
    miss = []
    for op in ('expm_diag/taylor', 'expm_diag/pade', 'explog/taylor', 'explog/pade', 'sqrtm/', 'sqrtm/on-cut', 'powm/', 'cossin/'):
        if not any(k.startswith(op) for k in agg['classes']):
            miss.append('no %s case observed inside the envelope' % op)
    if not agg['anchors'].get('mpmath.matrices.calculus:MatrixCalculusMethods._sqrtm_rot') and \
            'unresolved:mpmath.matrices.calculus:MatrixCalculusMethods._sqrtm_rot' not in agg['anchors']:
        miss.append('sqrtm rotation path never reached')
    if not agg['events'].get('identities evaluated exactly'):
        miss.append('oracle evaluated nothing')
    return miss


def replay(case, rec):
    mp = _mp()
    c = case['case']
    import random
    r = random.Random(0)
    op, p, cls = c['op'], c['prec'], c.get('spectrum', 'replay')
    if op.startswith('expm_diag'):
        d = [L.simplify(L.GQ(Fraction(a), Fraction(b))) for a, b in c['d']]
        return check_expm_diag(mp, rec, r, op.split('/')[1], cls, p, 'thorough', d=d)
    A = deser(c['A'])
    # eigenvalues are only needed for the envelope; a replayed case was inside it when recorded
    cc = {'A': A, 'lam': [Fraction(1)], 'diag': False, 'V': None, 'Vi': None}
    if op.startswith('explog'):
        check_explog(mp, rec, r, op.split('/')[1], cls, p, cc)
    elif op == 'sqrtm':
        check_sqrtm(mp, rec, r, cls, p, cc)
    elif op == 'powm':
        check_powm(mp, rec, r, cls, p, cc, k=c['k'])
    elif op == 'cossin':
        cc['lam'] = [Fraction(0)]
        check_cossin(mp, rec, r, cls, p, cc)
    else:
        rec.undecided('replay of %s cases re-runs the seeded shard instead' % op)
