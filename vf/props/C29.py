"""C29 -- root finders return genuine roots, in the documented order.

Observed (real calls into the tree): findroot with every solver name and verify=True on polynomial / transcendental /
multidimensional problems from near, far and non-convergent starts; the five bracketing solvers on genuine brackets;
mnewton on (x-r)^m g(x) with numerical and user-supplied df / d2f (the callbacks count their own invocations and log
the evaluation points); polyroots(error=True) on polynomials with planted roots; multiplicity on planted roots.
Oracle: exact Fraction evaluation of the polynomial at the returned dyadic point (residuals, brackets, root distance,
ordering predicate); for transcendental f the reference release at 2p+200 bits with exactly transferred arguments."""
import math
from fractions import Fraction as Fr
from vf import gens as G
from vf.builderM import (fr, cfr, mk, hexq, unhexq, at_prec, dyadic, pmul, pder, peval, cpeval, to_int_coeffs,
                         sqrt_up, sqrt_down, cabs_up, flo, is_finite, mkc)

PROP = 'C29'
LEVEL = 'exploration'
NEEDS_REF = True
RULE = ('seeded stratified generation: section (solver | bracket | multidimensional | mnewton | polyroots | multiplicity) x '
        'solver name x function family x start class x precision 30..300; a case is non-trivial when the call RETURNED a value '
        'and the oracle decided it (calls that raise satisfy the statement vacuously and are counted as class raised); '
        'distinct = distinct (section, solver, problem parameters, start, precision, options)')
ASSUMPTIONS = ['Fraction arithmetic is exact; returned mpf/mpc values are read from their raw tuples',
               'for the transcendental families the reference release (mpmath 1.3.0) at 2p+200 bits evaluates '
               'sin/cos/exp/log/atan of an exactly transferred argument with relative error < 2^-(2p+100)',
               'the rounding error of the tree evaluating f at p+20 bits inside findroot is below K*2^-(p+20)*sum|terms| '
               '(K = 8(deg+1) for Horner, 32 for the two-term transcendental families); only residuals exceeding '
               'sqrt(tol) by more than this allowance are violations, the band in between is undecided',
               'mnewton envelope ("nearby"): |x0-r| in [2^-8, 0.3], all other roots of the polynomial at distance >= 2 from r',
               'polyroots residual predicate: |p(z_i)| <= e(|p\'(z_i)| + e*B2) + 8(deg+1) 2^-(p+extraprec) sum|c_k||z_i|^k with '
               'e = deg*max(1,|z_i|)*err (Gershgorin factor deg; err is floored at 2^(1-p) by the library, which covers the final rounding of '
               'roots of size |z_i|), last term: evaluation noise at the working precision',
               'ordering predicate asserted for real-coefficient polynomials whose planted roots are simple and >= 2^-6 apart']
LEVEL_TEXT = ('exploration: ~1.5*10^4 (quick) / ~7*10^4 (thorough) generated root-finding problems run on the real code; every returned '
              'value is re-evaluated independently (exactly for polynomials), bracketing results compared with the bracket, mnewton '
              'results with the planted root, polyroots lists with the ordering predicate and the residual/error predicate')
LEVEL_NOTE = ('inputs not generated are not covered; transcendental residuals rely on the reference release at high precision; '
              'a solver that turns every success into an exception is reported as inconclusive (class never observed), not as a violation')
TECHNIQUE = 'runtime result monitor: independent exact / high-precision re-evaluation of every value the root finders return'
SHARD_TIMEOUT = {'quick': 1800, 'thorough': 7200}

NSHARDS = 16
COUNTS = {'quick': {'solver': 280, 'bracket': 200, 'md': 48, 'mnewton': 256, 'polyroots': 64, 'multiplicity': 96},
          'thorough': {'solver': 1400, 'bracket': 1000, 'md': 200, 'mnewton': 1200, 'polyroots': 300, 'multiplicity': 450}}
PRECS = [30, 36, 40, 53, 64, 80, 100, 113, 150, 185, 195, 200, 205, 250, 300]
SCALAR_SOLVERS = ['newton', 'secant', 'mnewton', 'halley', 'muller', 'anewton']
BRACKET_SOLVERS = ['bisect', 'illinois', 'pegasus', 'anderson', 'ridder']
ALL_SOLVERS = SCALAR_SOLVERS + BRACKET_SOLVERS + ['mdnewton']


def shards(tier, seed):
    return [{'counts': COUNTS[tier]} for _ in range(NSHARDS)]


def _mp():
    import mpmath
    return mpmath.mp


def _ref():
    from vf import refmodel
    return refmodel.ref().mp


# -----------------------------------------------------------------------------------------------------
# problem families
# -----------------------------------------------------------------------------------------------------
def _T(name):
    """terms of a transcendental family: list of functions (ctx, x, c) -> term"""
    if name == 'sin':
        return [lambda C, x, c: C.sin(x), lambda C, x, c: -c]
    if name == 'exp':
        return [lambda C, x, c: C.exp(x), lambda C, x, c: -c]
    if name == 'xexp':
        return [lambda C, x, c: x * C.exp(x), lambda C, x, c: -c]
    if name == 'cosx':
        return [lambda C, x, c: C.cos(x), lambda C, x, c: -(c * x)]
    if name == 'log':
        return [lambda C, x, c: C.log(x), lambda C, x, c: -c]
    if name == 'atan':
        return [lambda C, x, c: C.atan(x), lambda C, x, c: -c]
    if name == 'decay':
        return [lambda C, x, c: C.exp(-x)]
    raise ValueError(name)


TRANS = {   # c range, genuine bracket (sign change for every c in range), approximate root
    'sin': ((-0.9, 0.9), (-1.5, 1.5), lambda c: math.asin(c)),
    'exp': ((0.1, 20.0), (-3.0, 4.0), lambda c: math.log(c)),
    'xexp': ((0.1, 10.0), (0.0, 3.0), None),
    'cosx': ((0.5, 2.0), (0.0, 2.0), None),
    'log': ((-2.0, 2.0), (1.0 / 16, 16.0), lambda c: math.exp(c)),
    'atan': ((-1.2, 1.2), (-8.0, 8.0), lambda c: math.tan(c)),
}


def _float_root(name, c):
    cr, br, rf = TRANS[name]
    if rf is not None:
        return rf(c)
    f = {'xexp': lambda x: x * math.exp(x) - c, 'cosx': lambda x: math.cos(x) - c * x}[name]
    a, b = br
    fa = f(a)
    for _ in range(60):
        m = 0.5 * (a + b)
        if (f(m) < 0) == (fa < 0):
            a = m
        else:
            b = m
    return 0.5 * (a + b)


def _unint(v):
    return int(v, 16) if isinstance(v, str) else int(v)


class Problem(object):
    """scalar problem: either an integer-coefficient polynomial (exact oracle) or a transcendental family"""

    def __init__(self, spec):
        self.spec = spec
        self.kind = spec['kind']
        if self.kind == 'poly':
            self.ic = [_unint(v) for v in spec['ic']]
            self.deg = len(self.ic) - 1
        else:
            self.name = spec['name']
            self.c = unhexq(spec['c']) if spec.get('c') is not None else Fr(0)
            self.terms = _T(self.name)

    def tree_f(self, mp, log):
        if self.kind == 'poly':
            ic = self.ic

            def f(x):
                log.append(x)
                return mp.polyval(ic, x)
        else:
            c = mk(mp, self.c)
            terms = self.terms

            def f(x):
                log.append(x)
                s = terms[0](mp, x, c)
                for t in terms[1:]:
                    s = s + t(mp, x, c)
                return s
        return f

    def residual(self, x, p):
        """(lo, hi, S, K): enclosure of |f(x)| (Fractions), S = sum of |terms| (upper bound), K = noise constant"""
        if self.kind == 'poly':
            z = cfr(x)
            v = cpeval([Fr(k) for k in self.ic], z)
            a2 = v[0] * v[0] + v[1] * v[1]
            az = cabs_up(z)
            S = sum(abs(k) * az ** (self.deg - i) for i, k in enumerate(self.ic))
            return sqrt_down(a2), sqrt_up(a2), S, 8 * (self.deg + 1)
        from vf import refmodel
        rmp = _ref()
        with at_prec(rmp, 2 * p + 200):
            xr = refmodel.to_ref(rmp, x)
            c = mk(rmp, self.c)
            vals = [t(rmp, xr, c) for t in self.terms]
            v = vals[0]
            S = abs(vals[0])
            for t in vals[1:]:
                v = v + t
                S = S + abs(t)
            av = abs(v)
            if not (rmp.isfinite(av) and rmp.isfinite(S)):
                raise ArithmeticError('non-finite reference value')
            if av == 0 or rmp.mag(av) < -(10 * p + 1000):
                # |f(x)| is astronomically small (e.g. exp(-x) at a huge x): no need for its exact value
                Sq = fr(S) if rmp.mag(S) > -(10 * p + 1000) else Fr(1, 1 << (10 * p))
                return Fr(0), Fr(1, 1 << (10 * p)), Sq, 32
            slack = rmp.ldexp(S, -(2 * p + 100))
            lo = fr(av - slack) if av > slack else Fr(0)
            hi = fr(av + slack)
            return lo, hi, fr(S) * (1 + Fr(1, 1 << 50)), 32

    def nonmonotone_on(self, a, b):
        """True when f is certainly not monotone on [min(a,b), max(a,b)] (a sufficient test on a grid; exact for polynomials)"""
        lo, hi = min(a, b), max(a, b)
        if self.kind == 'poly':
            d = pder([Fr(k) for k in self.ic])
            sg = set()
            for j in range(65):
                v = peval(d, lo + (hi - lo) * Fr(j, 64))
                if v:
                    sg.add(v > 0)
            return len(sg) == 2
        if self.name == 'sin':
            return float(lo) < math.pi / 2 - 1e-6 and float(hi) > math.pi / 2 + 1e-6      # maximum of sin strictly inside
        return False

    def sign_at(self, q, p):
        """exact / reference sign of f at a real dyadic point (0 when not safely decided)"""
        if self.kind == 'poly':
            v = peval([Fr(k) for k in self.ic], q)
            return (v > 0) - (v < 0)
        rmp = _ref()
        with at_prec(rmp, 2 * p + 200):
            xr = mk(rmp, q)
            c = mk(rmp, self.c)
            vals = [t(rmp, xr, c) for t in self.terms]
            v = sum(vals[1:], vals[0])
            S = sum((abs(t) for t in vals[1:]), abs(vals[0]))
            if not hasattr(v, '_mpf_'):
                return 0
            if abs(v) <= rmp.ldexp(S, -(p + 40)):
                return 0
            return 1 if v > 0 else -1


def decide_residual(rec, prob, x, p, tolq, case, what, keybase):
    """three-valued verdict for |f(x)|^2 <= tol 'at the working precision'"""
    try:
        lo, hi, S, K = prob.residual(x, p)
    except Exception as e:
        rec.undecided('oracle failed: %s' % type(e).__name__, case)
        return 'undecided'
    if hi * hi <= tolq:
        return 'held'
    allowance = K * Fr(1, 1 << (p + 20)) * S
    bound = sqrt_up(tolq) * (1 + Fr(1, 1 << 20)) + allowance
    if lo > bound:
        sev = None
        try:
            sev = round(math.log2(flo(lo * lo / tolq)), 1)
        except Exception:
            pass
        rec.violation(keybase, what, case, observed={'abs_f_lower': flo(lo), 'abs_f_sq_over_tol_log2': sev},
                      expected={'tol': flo(tolq), 'allowance': flo(allowance)})
        return 'violated'
    rec.undecided('residual within the evaluation-noise band of sqrt(tol)', case)
    return 'undecided'


# -----------------------------------------------------------------------------------------------------
# generators (spec = JSON-able dict; run_* re-creates everything from the spec, so replay == re-run)
# -----------------------------------------------------------------------------------------------------
def _poly_from_roots(real_roots, pairs):
    c = [Fr(1)]
    for a in real_roots:
        c = pmul(c, [Fr(1), -a])
    for a, b in pairs:
        c = pmul(c, [Fr(1), -2 * a, a * a + b * b])
    return c


def _far_factor(r, rt):
    """polynomial g without roots within distance 2 of rt: returns (coeffs, label)"""
    k = r.choice(['1', 'lin', 'lin2', 'quad'])
    g = [Fr(1)]
    if k in ('lin', 'lin2'):
        g = pmul(g, [Fr(1), -(rt + r.choice([-1, 1]) * dyadic(r, 2, 5, 16))])
    if k == 'lin2':
        g = pmul(g, [Fr(1), -(rt + r.choice([-1, 1]) * dyadic(r, 2, 5, 16))])
    if k == 'quad':
        a = rt + dyadic(r, -2, 2, 16)
        b = dyadic(r, 2, 4, 16)
        g = pmul(g, [Fr(1), -2 * a, a * a + b * b])
    return g, k


def _pick_p(r, i):
    return PRECS[i % len(PRECS)] if r.random() < 0.7 else r.randint(30, 300)


def _tol_opt(r, p):
    x = r.random()
    if x < 0.75:
        return None
    return r.randint(16, p + 8)      # tol = 2^-k


def gen_scalar_problem(r, fam):
    """returns (problem spec, approximate root as Fraction or complex pair, extra)"""
    if fam == 'poly-simple':
        rt = dyadic(r, -4, 4, 16)
        g, gk = _far_factor(r, rt)
        ic, _ = to_int_coeffs(pmul([Fr(1), -rt], g))
        return {'kind': 'poly', 'ic': ic}, (rt, Fr(0))
    if fam == 'poly-mult':
        rt = dyadic(r, -4, 4, 16)
        m = r.randint(2, 4)
        g, gk = _far_factor(r, rt)
        c = g
        for _ in range(m):
            c = pmul(c, [Fr(1), -rt])
        ic, _ = to_int_coeffs(c)
        return {'kind': 'poly', 'ic': ic, 'm': m}, (rt, Fr(0))
    if fam == 'poly-noroot':
        a = dyadic(r, -3, 3, 16)
        b = dyadic(r, 1, 4, 16)
        c = _poly_from_roots([], [(a, b)])
        if r.random() < 0.3:
            c = pmul(c, _poly_from_roots([], [(a + 1, b + 1)]))
        ic, _ = to_int_coeffs(c)
        return {'kind': 'poly', 'ic': ic}, (a, Fr(0))          # real start: no real root exists
    if fam == 'poly-complex':
        a = dyadic(r, -3, 3, 16)
        b = dyadic(r, 1, 4, 16)
        c = _poly_from_roots([dyadic(r, -4, 4, 16)] if r.random() < 0.5 else [], [(a, b)])
        ic, _ = to_int_coeffs(c)
        return {'kind': 'poly', 'ic': ic}, (a, b)
    if fam == 'cubic':
        return {'kind': 'poly', 'ic': [1, 0, -2, -5]}, (Fr(2094551, 10 ** 6), Fr(0))
    if fam == 'decay':
        return {'kind': 'trans', 'name': 'decay', 'c': None}, (Fr(0), Fr(0))
    name = fam.split(':')[1]
    (clo, chi), br, _ = TRANS[name]
    c = dyadic(r, clo, chi, 1 << 12)
    if c == 0:
        c = Fr(1, 8)
    rt = Fr(_float_root(name, float(c))).limit_denominator(1 << 20)
    return {'kind': 'trans', 'name': name, 'c': hexq(c)}, (rt, Fr(0))


SCALAR_FAMS = ['poly-simple', 'poly-mult', 'poly-noroot', 'poly-complex', 'cubic', 'decay',
               't:sin', 't:exp', 't:xexp', 't:cosx', 't:log', 't:atan']
SOLVER_CELLS = [(s, f, st) for s in SCALAR_SOLVERS for f in SCALAR_FAMS for st in ('near', 'far')]
BRACKET_FAMS = ['poly-simple', 'poly-mult3', 'poly-even', 'poly-multi', 'poly-multi', 't:sinhump', 't:sin', 't:exp', 't:xexp', 't:cosx', 't:log', 't:atan']
BRACKET_CELLS = [(s, f, k) for s in BRACKET_SOLVERS for f in BRACKET_FAMS for k in ('signchange', 'signchange', 'reversed', 'nosign', 'rootatend')]


def _dy(q, den=1 << 20):
    """snap a Fraction to the dyadic grid"""
    return Fr(int(q * den), den)


def gen_solver_case(r, i):
    solver, fam, start = SOLVER_CELLS[i % len(SOLVER_CELLS)]
    p = _pick_p(r, i // len(SOLVER_CELLS) + i)
    pspec, (ra, rb) = gen_scalar_problem(r, fam)
    npts = 1
    if solver == 'secant':
        npts = r.choice([1, 2])
    elif solver == 'muller':
        npts = r.choice([1, 2, 3])
    pts = []
    for k in range(npts):
        if start == 'near':
            d = r.choice([-1, 1]) * Fr(r.randint(1, 104), 1024)
        else:
            d = r.choice([-1, 1]) * Fr(r.randint(512, 51200), 1024)
        re = _dy(ra + d * (k + 1))
        if fam.startswith('t:log') and re <= 0:
            re = Fr(1, 64)
        im = Fr(0)
        if rb != 0 and solver in ('secant', 'muller', 'newton', 'halley') and r.random() < 0.8:
            im = _dy(rb + r.choice([-1, 1]) * Fr(r.randint(1, 104), 1024) * (k + 1))
        pts.append([hexq(re), hexq(im)])
    spec = {'sec': 'solver', 'solver': solver, 'fam': fam, 'start': start, 'prob': pspec, 'p': p, 'x0': pts,
            'tolk': _tol_opt(r, p), 'maxsteps': r.choice([None, None, None, 5, 60])}
    return spec


def gen_bracket_case(r, i):
    solver, fam, kind = BRACKET_CELLS[i % len(BRACKET_CELLS)]
    p = _pick_p(r, i // len(BRACKET_CELLS) + 3 * i)
    if fam == 'poly-multi':
        # several real roots: exactly one inside the bracket, the neighbours just outside -> f is not monotone on the bracket
        rt = dyadic(r, -4, 4, 16)
        d1, d2 = dyadic(r, Fr(1, 4), 2, 16), dyadic(r, Fr(1, 4), 2, 16)
        c = pmul(pmul([Fr(1), -rt], [Fr(1), -(rt - d1)]), [Fr(1), -(rt + d2)])
        if r.random() < 0.4:
            c = pmul(c, [Fr(1), -(rt + d2 + dyadic(r, Fr(1, 4), 2, 16))])
        if r.random() < 0.3:
            c = pmul(c, _far_factor(r, rt)[0])
        ic, _ = to_int_coeffs(c)
        pspec = {'kind': 'poly', 'ic': ic, 'm': 1}
        lo, hi = rt - d1 * Fr(31, 32), rt + d2 * Fr(31, 32)
    elif fam == 't:sinhump':
        # sin x - c on [a, b] with a < asin c < pi/2 < b < pi - asin c: one crossing, the maximum of sin inside
        c = dyadic(r, Fr(1, 5), Fr(3, 5), 1 << 12)
        pspec = {'kind': 'trans', 'name': 'sin', 'c': hexq(c)}
        rt = Fr(math.asin(float(c))).limit_denominator(1 << 20)
        lo, hi = Fr(-1, 2), Fr(12, 5)
    elif fam.startswith('poly'):
        rt = dyadic(r, -4, 4, 16)
        g, gk = _far_factor(r, rt)
        m = {'poly-simple': 1, 'poly-mult3': 3, 'poly-even': 2}[fam]
        c = g
        for _ in range(m):
            c = pmul(c, [Fr(1), -rt])
        ic, _ = to_int_coeffs(c)
        pspec = {'kind': 'poly', 'ic': ic, 'm': m}
        lo, hi = rt - Fr(15, 8), rt + Fr(15, 8)
    else:
        name = fam.split(':')[1]
        (clo, chi), (lo, hi), _ = TRANS[name]
        c = dyadic(r, clo, chi, 1 << 12)
        if c == 0:
            c = Fr(1, 8)
        pspec = {'kind': 'trans', 'name': name, 'c': hexq(c)}
        rt = Fr(_float_root(name, float(c))).limit_denominator(1 << 20)
        lo, hi = Fr(lo), Fr(hi)
    w1, w2 = rt - lo, hi - rt
    if kind in ('signchange', 'reversed'):
        a = _dy(rt - w1 * Fr(r.randint(8, 1000), 1000))
        b = _dy(rt + w2 * Fr(r.randint(8, 1000), 1000))
        if fam == 't:sinhump':
            b = _dy(Fr(17, 10) + Fr(r.randint(0, 700), 1000))         # in [1.7, 2.4]: past the maximum at pi/2
        if fam == 'poly-multi' and r.random() < 0.6:
            a = _dy(rt - w1 * Fr(r.randint(600, 1000), 1000))       # reach past the local extrema next to the neighbouring roots
            b = _dy(rt + w2 * Fr(r.randint(600, 1000), 1000))
        if kind == 'reversed':
            a, b = b, a
    elif kind == 'nosign':
        a = _dy(rt + w2 * Fr(r.randint(20, 400), 1000))
        b = _dy(rt + w2 * Fr(r.randint(500, 1000), 1000))
        if r.random() < 0.5:
            a = _dy(rt - w1 * Fr(r.randint(500, 1000), 1000))
            b = _dy(rt - w1 * Fr(r.randint(20, 400), 1000))
    else:   # root at the end (exact only for dyadic polynomial roots)
        a = _dy(rt)
        b = _dy(rt + w2 * Fr(r.randint(100, 1000), 1000))
        if r.random() < 0.5:
            a, b = _dy(rt - w1 * Fr(r.randint(100, 1000), 1000)), _dy(rt)
    return {'sec': 'bracket', 'solver': solver, 'fam': fam, 'bk': kind, 'prob': pspec, 'p': p, 'a': hexq(a), 'b': hexq(b),
            'tolk': _tol_opt(r, p), 'maxsteps': r.choice([None, None, None, 400])}


def gen_mnewton_case(r, i):
    m = 1 + i % 6
    form = ('expanded', 'factored')[(i // 6) % 2]
    der = ('num', 'df', 'df+d2f', 'd2f')[(i // 12) % 4]
    p = _pick_p(r, i // 48 + i)
    rt = dyadic(r, -4, 4, 16)
    g, gk = _far_factor(r, rt)
    delta = r.choice([-1, 1]) * Fr(r.randint(1, 76), 256)        # 2^-8 .. 0.297
    return {'sec': 'mnewton', 'm': m, 'form': form, 'der': der, 'p': p, 'r': hexq(rt), 'g': [hexq(k) for k in g], 'gk': gk,
            'delta': hexq(delta)}


POLY_KINDS = ['simple', 'simple', 'equalim', 'equalim', 'repeated', 'cluster', 'complexcoef', 'realonly', 'conjonly', 'deg12']
DEG_CLASSES = [(1, 3), (4, 8), (9, 14), (15, 20)]


def _rat(r, lo, hi):
    """planted root coordinate: mostly not representable in binary, so that the returned roots carry a final rounding"""
    return dyadic(r, lo, hi, r.choice([16, 16, 3, 7, 10, 12]))


def gen_polyroots_case(r, i):
    kind = POLY_KINDS[i % len(POLY_KINDS)]
    dlo, dhi = DEG_CLASSES[(i // len(POLY_KINDS)) % 4]
    deg = r.randint(dlo, dhi)
    if kind == 'deg12':
        deg = r.randint(1, 2)
    if kind == 'equalim':
        deg = max(deg, 4)
    p = _pick_p(r, i // 40 + 7 * i)
    roots = []      # [re, im, mult]  im > 0: conjugate pair;  for complexcoef: single complex roots
    d = 0
    R = 16 if (deg <= 8 and r.random() < 0.3) else 4          # root magnitudes
    eqb = _rat(r, Fr(1, 16), R)
    while d < deg:
        want_pair = kind in ('conjonly', 'equalim') or (kind not in ('realonly', 'complexcoef') and r.random() < 0.5)
        if kind == 'complexcoef':
            roots.append([_rat(r, -R, R), _rat(r, -R, R), 1])
            d += 1
        elif want_pair and deg - d >= 2:
            a = _rat(r, -R, R)
            b = eqb if kind == 'equalim' and r.random() < 0.8 else _rat(r, Fr(1, 16), R)
            mult = 2 if (kind == 'repeated' and deg - d >= 4 and r.random() < 0.3) else 1
            roots.append([a, b, mult])
            d += 2 * mult
        else:
            a = _rat(r, -R, R)
            if kind == 'cluster' and roots:
                a = roots[-1][0] + Fr(1, r.choice([64, 256, 1024]))
            mult = min(deg - d, r.randint(2, 3)) if (kind == 'repeated' and r.random() < 0.4) else 1
            roots.append([a, Fr(0), mult])
            d += mult
    opts = {}
    if r.random() < 0.4:
        opts['maxsteps'] = r.choice([100, 200])
    if r.random() < 0.4:
        opts['extraprec'] = r.choice([p, 2 * p, 30])
    return {'sec': 'polyroots', 'kind': kind, 'p': p, 'roots': [[hexq(a), hexq(b), m] for a, b, m in roots], 'opts': opts,
            'scale': r.choice([1, 1, 3, -2, 7])}


def gen_multiplicity_case(r, i):
    m = 1 + i % 8
    form = ('factored', 'expanded')[(i // 8) % 2]
    p = _pick_p(r, i // 16 + i)
    rt = dyadic(r, -4, 4, 16)
    g, gk = _far_factor(r, rt)
    # sometimes scale f by a power of two so that its first non-vanishing derivative at r is small (2^-12..2^-4) but still far
    # above multiplicity's absolute threshold eps^0.8
    return {'sec': 'multiplicity', 'm': m, 'form': form, 'p': p, 'r': hexq(rt), 'g': [hexq(k) for k in g],
            'small': r.choice([None, None, 4, 8, 12])}


def gen_md_case(r, i):
    kind = ('doc', 'planted2', 'planted3', 'overdet')[i % 4]
    p = _pick_p(r, i // 4 + i)
    if kind == 'doc':
        # x1^2 + x2 ; 5x1^2 - 3x1 + 2x2 - 3   (docstring system)
        eqs = [[[1, [2, 0]], [1, [0, 1]]], [[5, [2, 0]], [-3, [1, 0]], [2, [0, 1]], [-3, [0, 0]]]]
        x0 = r.choice([[0, 0], [10, 10], [-3, 5], [1, -1]])
        return {'sec': 'md', 'kind': kind, 'p': p, 'n': 2, 'eqs': eqs, 'x0': [hexq(Fr(v)) for v in x0], 'norm': r.choice([None, 2]),
                'jac': False}
    n = 3 if kind == 'planted3' else 2
    neq = n + 1 if kind == 'overdet' else n
    root = [Fr(r.randint(-24, 24), 8) for _ in range(n)]
    # f_i = sum_j a_ij (x_j - r_j) + b_i (x_j - r_j)(x_k - r_k), expanded into integer monomials (scaled by 64)
    eqs = []
    for e in range(neq):
        mon = {}

        def add(coef, exps):
            mon[exps] = mon.get(exps, Fr(0)) + coef
        for j in range(n):
            a = Fr(r.randint(-6, 6)) + (3 if j == e % n else 0)
            ex = tuple(1 if t == j else 0 for t in range(n))
            add(a, ex)
            add(-a * root[j], tuple([0] * n))
        j, k = r.randrange(n), r.randrange(n)
        b = Fr(r.randint(-2, 2))
        # b (xj - rj)(xk - rk)
        ejk = [0] * n
        ejk[j] += 1
        ejk[k] += 1
        add(b, tuple(ejk))
        ej = tuple(1 if t == j else 0 for t in range(n))
        ek = tuple(1 if t == k else 0 for t in range(n))
        add(-b * root[k], ej)
        add(-b * root[j], ek)
        add(b * root[j] * root[k], tuple([0] * n))
        eqs.append([[int(c * 64), list(ex)] for ex, c in sorted(mon.items()) if c])
    far = r.random() < 0.3
    x0 = [_dy(root[j] + r.choice([-1, 1]) * Fr(r.randint(1, 64), 256 if not far else 4)) for j in range(n)]
    return {'sec': 'md', 'kind': kind, 'p': p, 'n': n, 'eqs': eqs, 'x0': [hexq(v) for v in x0], 'norm': r.choice([None, None, 2]),
            'jac': r.random() < 0.3}


# -----------------------------------------------------------------------------------------------------
# runners
# -----------------------------------------------------------------------------------------------------
def _tolq(p, tolk):
    return Fr(1, 1 << (p + 9)) if tolk is None else Fr(1, 1 << tolk)


def _desc(x):
    try:
        return repr(x)[:120]
    except Exception:
        return '?'


def _mkz(mp, pt):
    re, im = unhexq(pt[0]), unhexq(pt[1])
    if im == 0:
        return mk(mp, re)
    return mkc(mp, re, im)


def run_solver(mp, rec, spec):
    p, solver = spec['p'], spec['solver']
    prob = Problem(spec['prob'])
    log = []
    kw = {}
    tolq = _tolq(p, spec['tolk'])
    if spec['tolk'] is not None:
        kw['tol'] = mk(mp, tolq)
    if spec['maxsteps'] is not None:
        kw['maxsteps'] = spec['maxsteps']
    ident = ('solver', solver, spec['fam'], repr(spec['prob']), p, repr(spec['x0']), spec['tolk'], spec['maxsteps'])
    with at_prec(mp, p):
        f = prob.tree_f(mp, log)
        x0 = [_mkz(mp, pt) for pt in spec['x0']]
        try:
            x = mp.findroot(f, x0 if len(x0) > 1 else x0[0], solver=solver, verify=True, **kw)
        except Exception as e:
            rec.case(ident, False, cls='%s/raised:%s' % (solver, type(e).__name__))
            rec.cls('solver-family/%s/raised' % spec['fam'])
            return
    rec.event('findroot returned values re-evaluated')
    if not is_finite(x):
        rec.case(ident, True, cls='%s/returned' % solver)
        rec.violation('C29/findroot/%s/non-finite' % solver, 'findroot returned a non-finite value with verify=True', spec,
                      observed=_desc(x), expected='a root or an exception')
        return
    v = decide_residual(rec, prob, x, p, tolq, spec, 'findroot(solver=%s, verify=True) returned x with |f(x)|^2 > tol' % solver,
                        'C29/findroot/%s/returned-non-root' % solver)
    rec.case(ident, v != 'undecided', cls='%s/returned' % solver)
    rec.cls('solver-family/%s/returned' % spec['fam'])
    if len(log) == 0:
        rec.violation('C29/harness/no-evaluation', 'f was never evaluated', spec)
    rec.sample({'solver': solver, 'fam': spec['fam'], 'p': p, 'x': _desc(x), 'verdict': v})


def run_bracket(mp, rec, spec):
    p, solver = spec['p'], spec['solver']
    prob = Problem(spec['prob'])
    a, b = unhexq(spec['a']), unhexq(spec['b'])
    log = []
    kw = {}
    tolq = _tolq(p, spec['tolk'])
    if spec['tolk'] is not None:
        kw['tol'] = mk(mp, tolq)
    if spec['maxsteps'] is not None:
        kw['maxsteps'] = spec['maxsteps']
    ident = ('bracket', solver, spec['fam'], repr(spec['prob']), p, spec['a'], spec['b'], spec['tolk'], spec['maxsteps'])
    sa, sb = prob.sign_at(a, p), prob.sign_at(b, p)
    genuine = sa * sb < 0
    nonmono = False
    if genuine:
        rec.cls('%s/genuine-bracket-attempted' % solver)
        nonmono = prob.nonmonotone_on(a, b)
        if nonmono:
            rec.cls('%s/nonmonotone-bracket-attempted' % solver)
    with at_prec(mp, p):
        f = prob.tree_f(mp, log)
        try:
            x = mp.findroot(f, (mk(mp, a), mk(mp, b)), solver=solver, verify=True, **kw)
        except Exception as e:
            rec.case(ident, False, cls='%s/raised:%s' % (solver, type(e).__name__))
            rec.cls('bracket-kind/%s/raised' % spec['bk'])
            return
    rec.event('findroot returned values re-evaluated')
    if not is_finite(x):
        rec.case(ident, True, cls='%s/returned' % solver)
        rec.violation('C29/findroot/%s/non-finite' % solver, 'findroot returned a non-finite value with verify=True', spec,
                      observed=_desc(x), expected='a root or an exception')
        return
    v = decide_residual(rec, prob, x, p, tolq, spec, 'findroot(solver=%s, verify=True) returned x with |f(x)|^2 > tol' % solver,
                        'C29/findroot/%s/returned-non-root' % solver)
    rec.case(ident, v != 'undecided', cls='%s/returned' % solver)
    rec.cls('bracket-kind/%s/returned' % spec['bk'])
    xr, xi = cfr(x)
    lo, hi = min(a, b), max(a, b)
    inside = xi == 0 and lo <= xr <= hi
    if genuine:
        rec.event('bracket containment decided (genuine bracket)')
        rec.cls('%s/bracket-checked' % solver)
        if nonmono:
            rec.cls('%s/nonmonotone-bracket-checked' % solver)
            rec.event('containment decided on brackets where f is not monotone')
        if not inside:
            rec.violation('C29/bracket/%s/outside' % solver, 'bracketing solver returned a point outside its bracket (f(a) f(b) < 0)',
                          spec, observed=_desc(x), expected='[%s, %s]' % (flo(lo), flo(hi)))
    elif not inside:
        rec.note('bracketing solver left an interval without sign change (outside the envelope)', {'solver': solver, 'x': _desc(x), 'a': flo(a), 'b': flo(b)})
        rec.event('non-bracket interval left (observation only)')


def _md_eval(eqs, xs):
    out, S = [], []
    for eq in eqs:
        v, s = Fr(0), Fr(0)
        for coef, ex in eq:
            t = Fr(coef)
            for xj, e in zip(xs, ex):
                t *= xj ** e
            v += t
            s += abs(t)
        out.append(v)
        S.append(s)
    return out, S


def run_md(mp, rec, spec):
    p, n = spec['p'], spec['n']
    eqs = spec['eqs']
    ident = ('md', repr(eqs), p, repr(spec['x0']), spec['norm'], spec['jac'])
    tolq = _tolq(p, None)
    calls = [0]

    def f(*xs):
        calls[0] += 1
        res = []
        for eq in eqs:
            v = mp.zero
            for coef, ex in eq:
                t = mp.mpf(coef)
                for xj, e in zip(xs, ex):
                    if e:
                        t = t * xj ** e
                v = v + t
            res.append(v)
        return res
    kw = {}
    if spec['norm'] == 2:
        kw['norm'] = lambda v: mp.norm(v, 2)
    if spec['jac']:
        def J(*xs):
            M = mp.matrix(len(eqs), n)
            for i, eq in enumerate(eqs):
                for j in range(n):
                    v = mp.zero
                    for coef, ex in eq:
                        if ex[j]:
                            t = mp.mpf(coef * ex[j])
                            for k, (xk, e) in enumerate(zip(xs, ex)):
                                ee = e - 1 if k == j else e
                                if ee:
                                    t = t * xk ** ee
                            v = v + t
                    M[i, j] = v
            return M
        kw['J'] = J
    with at_prec(mp, p):
        try:
            x = mp.findroot(f, tuple(mk(mp, unhexq(v)) for v in spec['x0']), verify=True, **kw)
        except Exception as e:
            rec.case(ident, False, cls='mdnewton/raised:%s' % type(e).__name__)
            return
    rec.event('findroot returned values re-evaluated')
    try:
        xs = [fr(x[i]) for i in range(n)]
    except Exception:
        rec.case(ident, True, cls='mdnewton/returned')
        rec.violation('C29/findroot/mdnewton/non-finite', 'multidimensional findroot returned a non-finite / non-real vector', spec,
                      observed=_desc(x))
        return
    vals, S = _md_eval(eqs, xs)
    if spec['norm'] == 2:
        n2 = sum(v * v for v in vals)
        lo, hi = sqrt_down(n2), sqrt_up(n2)
        Sx = sqrt_up(sum(s * s for s in S))
    else:
        lo = hi = max(abs(v) for v in vals)
        Sx = max(S)
    nterms = max(len(eq) for eq in eqs)
    allowance = 8 * (nterms + 4) * Fr(1, 1 << (p + 20)) * Sx
    rec.case(ident, True, cls='mdnewton/returned')
    if hi * hi <= tolq:
        return
    if lo > sqrt_up(tolq) * (1 + Fr(1, 1 << 20)) + allowance:
        rec.violation('C29/findroot/mdnewton/returned-non-root', 'multidimensional findroot(verify=True) returned x with |f(x)|^2 > tol',
                      spec, observed={'norm_f': flo(lo)}, expected={'tol': flo(tolq)})
    else:
        rec.undecided('residual within the evaluation-noise band of sqrt(tol)', spec)


def run_mnewton(mp, rec, spec):
    p, m, form, der = spec['p'], spec['m'], spec['form'], spec['der']
    rt = unhexq(spec['r'])
    g = [unhexq(k) for k in spec['g']]
    delta = unhexq(spec['delta'])
    c = g
    for _ in range(m):
        c = pmul(c, [Fr(1), -rt])
    ic, L = to_int_coeffs(c)
    gi = [k * L for k in g]          # same scaling as ic, so that the user derivatives belong to both forms
    assert all(k.denominator == 1 for k in gi)
    gi = [int(k) for k in gi]
    d1 = pder([Fr(k) for k in ic])
    d2 = pder(d1)
    d1 = [int(k) for k in d1]
    d2 = [int(k) for k in d2]
    ident = ('mnewton', m, form, der, p, spec['r'], repr(spec['g']), spec['delta'])
    log, ncall = [], {'df': 0, 'd2f': 0}
    exc = None
    with at_prec(mp, p):
        R = mk(mp, rt)
        x0 = R + mk(mp, delta)
        if form == 'expanded':
            def f(x):
                log.append(x)
                return mp.polyval(ic, x)
        else:
            def f(x):
                log.append(x)
                return (x - R) ** m * mp.polyval(gi, x)
        kw = {}
        if 'df' in der.split('+'):
            def df(x):
                ncall['df'] += 1
                return mp.polyval(d1, x)
            kw['df'] = df
        if 'd2f' in der.split('+'):
            def d2f(x):
                ncall['d2f'] += 1
                return mp.polyval(d2, x)
            kw['d2f'] = d2f
        try:
            x = mp.findroot(f, x0, solver='mnewton', **kw)
        except Exception as e:
            exc = e
            x = None
    bound_m = Fr(2) ** (4 * m - p)       # |x - r|^m <= 2^(4m-p)  <=>  |x - r| <= 2^(4 - p/m)

    def close(v):
        try:
            zr, zi = cfr(v)
        except Exception:
            return False
        d2_ = (zr - rt) ** 2 + zi ** 2
        return d2_ ** m <= bound_m ** 2
    ok = exc is None and close(x)
    cls = 'mnewton/m=%d/%s/%s' % (m, form, der)
    rec.case(ident, exc is None, cls=cls)
    rec.event('mnewton problems with planted root of multiplicity m run')
    if 'd2f' in kw:
        rec.event('user d2f supplied to mnewton')
        if ncall['d2f']:
            rec.event('user d2f actually called by mnewton')
    if ok:
        d = abs(fr(x) - rt) if hasattr(x, '_mpf_') else None
        if d:
            rec.maximum('mnewton log2|x-r| + p/m (bound: 4)', round(math.log2(flo(d)) + p / m, 2), spec)
        return
    # classify the failure by what the monitors saw
    reached = any(close(v) for v in log)
    if 'd2f' in kw and ncall['d2f'] == 0:
        key = 'C29/mnewton/user-d2f-never-called'
    elif isinstance(exc, ZeroDivisionError):
        key = 'C29/mnewton/ZeroDivisionError'
    elif reached:
        key = 'C29/mnewton/left-root-after-reaching-it'
    elif exc is not None:
        key = 'C29/mnewton/raised:%s' % type(exc).__name__
    else:
        key = 'C29/mnewton/inaccurate'
    obs = {'exception': '%s: %s' % (type(exc).__name__, str(exc)[:100])} if exc is not None else {'x': _desc(x)}
    obs['user_callback_calls'] = dict(ncall)
    obs['an_evaluation_point_was_within_the_bound'] = reached
    rec.violation(key, 'mnewton from a nearby start on (x-r)^m g(x) did not return r within 2^(4-p/m)', spec, observed=obs,
                  expected='|x - r| <= 2^(4 - %d/%d)' % (p, m))


def run_halley_d2f(mp, rec, spec):
    """observation only: does halley call the user-supplied d2f?"""
    p = spec['p']
    rt = unhexq(spec['r'])
    ncall = {'d2f': 0}
    with at_prec(mp, p):
        R = mk(mp, rt)

        def d2f(x):
            ncall['d2f'] += 1
            return 6 * x
        try:
            mp.findroot(lambda x: x ** 3 - R ** 3 - 1, R + 1.25, solver='halley', df=lambda x: 3 * x ** 2, d2f=d2f)
        except Exception:
            pass
    rec.event('halley: user d2f supplied')
    if ncall['d2f']:
        rec.event('halley: user d2f actually called')
    else:
        rec.note('halley ignores the user-supplied d2f (same keyword slip as mnewton; not part of the statement)', {'p': p})


def run_polyroots(mp, rec, spec):
    p, kind = spec['p'], spec['kind']
    roots = [(unhexq(a), unhexq(b), m) for a, b, m in spec['roots']]
    complexcoef = kind == 'complexcoef'
    # exact coefficients (complex for complexcoef)
    cre, cim = [Fr(1)], [Fr(0)]

    def mul_lin(cre, cim, ar, ai):
        # multiply by (x - (ar + i ai))
        nre = cre + [Fr(0)]
        nim = cim + [Fr(0)]
        for k in range(len(cre)):
            nre[k + 1] -= cre[k] * ar - cim[k] * ai
            nim[k + 1] -= cre[k] * ai + cim[k] * ar
        return nre, nim
    planted = []
    for a, b, m in roots:
        for _ in range(m):
            if complexcoef or b == 0:
                cre, cim = mul_lin(cre, cim, a, b)
                planted.append((a, b))
            else:
                cre, cim = mul_lin(cre, cim, a, b)
                cre, cim = mul_lin(cre, cim, a, -b)
                planted.append((a, b))
                planted.append((a, -b))
    deg = len(cre) - 1
    sc = spec['scale']
    L = 1
    for k in cre + cim:
        L = L * k.denominator // math.gcd(L, k.denominator)
    ire = [int(k * L) * sc for k in cre]
    iim = [int(k * L) * sc for k in cim]
    ident = ('polyroots', kind, p, repr(spec['roots']), repr(spec['opts']), sc)
    opts = dict(spec['opts'])
    extraprec = opts.get('extraprec', 10)
    with at_prec(mp, p):
        if complexcoef:
            coeffs = [mkc(mp, Fr(a), Fr(b)) if b else a for a, b in zip(ire, iim)]
        else:
            coeffs = ire
        try:
            res = mp.polyroots(coeffs, error=True, **opts)
        except Exception as e:
            rec.case(ident, False, cls='polyroots/%s/raised:%s' % (kind, type(e).__name__))
            return
    rec.event('polyroots results checked')
    rec.case(ident, True, cls='polyroots/%s/returned' % kind)
    try:
        rs, err = res
        zs = [cfr(z) for z in rs]
        E = fr(err)
    except Exception:
        rec.violation('C29/polyroots/malformed', 'polyroots(error=True) did not return (list of finite numbers, error)', spec, observed=_desc(res))
        return
    if len(rs) != deg:
        rec.violation('C29/polyroots/len', 'polyroots returned %d roots for degree %d' % (len(rs), deg), spec, observed=len(rs), expected=deg)
        return
    # residual consistent with the returned error --------------------------------------------
    are = [Fr(k) for k in ire]
    aim = [Fr(k) for k in iim]
    cabs = [cabs_up((a, b)) for a, b in zip(are, aim)]

    def ceval(cr, ci, z):
        ar, ai = Fr(0), Fr(0)
        zr, zi = z
        for kr, ki in zip(cr, ci):
            ar, ai = ar * zr - ai * zi + kr, ar * zi + ai * zr + ki
        return ar, ai
    d1r = [k * (deg - i) for i, k in enumerate(are[:-1])] or [Fr(0)]
    d1i = [k * (deg - i) for i, k in enumerate(aim[:-1])] or [Fr(0)]
    worst = Fr(0)
    for z in zs:
        az = cabs_up(z)
        e = deg * max(1, az) * E        # err read relative to the root scale (it is floored at 2^(1-p) by the library)
        resid = cabs_up(ceval(are, aim, z))
        dabs = cabs_up(ceval(d1r, d1i, z))
        B2 = sum(cabs[i] * (deg - i) * (deg - i - 1) * (az + e) ** (deg - i - 2) for i in range(deg - 1))
        S = sum(cabs[i] * az ** (deg - i) for i in range(deg + 1))
        bound = e * (dabs + e * B2) + 8 * (deg + 1) * Fr(2) ** (-(p + extraprec)) * S
        resid_lo = resid * (1 - Fr(1, 1 << 100))
        if bound == 0:
            ratio = Fr(0) if resid == 0 else Fr(10 ** 9)
        else:
            ratio = resid_lo / bound
        worst = max(worst, ratio)
    rec.maximum('polyroots residual / (bound implied by returned error)', round(flo(worst), 6), spec)
    if worst > 1:
        rec.violation('C29/polyroots/residual-vs-error', 'polyroots: residual |p(z)| larger than the returned error estimate allows',
                      spec, observed={'ratio': flo(worst), 'err': flo(E)}, expected='ratio <= 1', severity=round(math.log2(flo(worst)), 1))
    # ordering predicate ------------------------------------------------------------------------------
    if complexcoef:
        return
    distinct = sorted(set(planted))
    simple = len(distinct) == len(planted)
    sep = None
    if simple and len(distinct) > 1:
        sep = min(cabs_up((u[0] - v[0], u[1] - v[1])) for i, u in enumerate(distinct) for v in distinct[i + 1:])
    if not simple or (sep is not None and sep < Fr(1, 64)):
        rec.event('polyroots ordering not asserted (repeated / clustered planted roots)')
        return
    # match every returned root to its planted root
    match = []
    for z in zs:
        best = min(distinct, key=lambda u: (u[0] - z[0]) ** 2 + (u[1] - z[1]) ** 2)
        d2_ = (best[0] - z[0]) ** 2 + (best[1] - z[1]) ** 2
        lim = (sep / 4) ** 2 if sep is not None else Fr(1, 16)
        if d2_ > lim:
            rec.undecided('returned root too far from every planted root to decide the ordering', spec)
            return
        match.append(best)
    if sorted(match) != distinct:
        rec.undecided('returned roots do not match the planted roots one-to-one', spec)
        return
    rec.event('polyroots ordering predicate decided')
    rec.cls('polyroots-order/%s' % kind)
    nreal = sum(1 for u in distinct if u[1] == 0)
    head = match[:nreal]
    if any(u[1] != 0 for u in head):
        rec.violation('C29/polyroots/order/real-not-first', 'polyroots: a complex root precedes a real root', spec,
                      observed=[_desc(z) for z in rs], expected='real roots first')
        return
    # real roots must be returned as exactly real numbers (imaginary part 0)
    if any(z[1] != 0 for z in zs[:nreal]):
        rec.violation('C29/polyroots/order/real-root-with-imag', 'polyroots: a root of a real polynomial matching a real planted root has a nonzero imaginary part',
                      spec, observed=[_desc(z) for z in rs[:nreal]])
        return
    tail = match[nreal:]
    bad = None
    for j in range(0, len(tail), 2):
        u, v = tail[j], tail[j + 1]
        if not (u[0] == v[0] and u[1] == -v[1]):
            bad = j
            break
    if bad is None:
        return
    # mechanism: which roots separate the partners?  (the documented sort key is the real part; ties of |Im| are the known slip)
    u = tail[bad]
    partner = (u[0], -u[1])
    k = tail.index(partner)
    between = tail[bad + 1:k]
    if all(abs(w[1]) == abs(u[1]) for w in between):
        key = 'C29/polyroots/order/equal-abs-imag'
    else:
        key = 'C29/polyroots/order/other'
    rec.violation(key, 'polyroots (real coefficients): complex roots are not returned as adjacent conjugate pairs', spec,
                  observed=[_desc(z) for z in rs[nreal:]], expected='z, conj(z) adjacent')


def run_multiplicity(mp, rec, spec):
    p, m, form = spec['p'], spec['m'], spec['form']
    rt = unhexq(spec['r'])
    g = [unhexq(k) for k in spec['g']]
    c = g
    for _ in range(m):
        c = pmul(c, [Fr(1), -rt])
    ic, _L = to_int_coeffs(c)
    gi = [int(k * _L) for k in g]        # same scaling as ic
    ident = ('multiplicity', m, form, p, spec['r'], repr(spec['g']), spec.get('small'))
    if form == 'expanded':
        # envelope: the user function's own rounding noise at the root stays far below multiplicity's threshold eps^0.8
        S = sum(abs(k) * abs(rt) ** (len(ic) - 1 - i) for i, k in enumerate(ic))
        inside = len(ic) * S * Fr(2) ** (12 - p) <= Fr(2) ** (-((4 * p) // 5))
    else:
        inside = True
    # multiplicity's threshold eps^0.8 is ABSOLUTE: the envelope is "f scaled so that its first non-vanishing derivative at r
    # has magnitude about 1 (small=None) or 2^-4 / 2^-8 / 2^-12, and at least 2^8 eps^0.8"; f is scaled by an exact power of two
    D = abs(math.factorial(m) * peval([Fr(k) for k in gi], rt))       # |f^(m)(r)| of the integer-scaled polynomial
    k2 = D.numerator.bit_length() - D.denominator.bit_length() + (spec.get('small') or 0)
    sc = Fr(2) ** (-k2)
    if D * sc < Fr(2) ** (8 - (4 * (p - 1)) // 5):
        sc = Fr(2) ** (-(D.numerator.bit_length() - D.denominator.bit_length()))
    with at_prec(mp, p):
        R = mk(mp, rt)
        SC = mk(mp, sc)
        if form == 'expanded':
            f = lambda x: SC * mp.polyval(ic, x)
        else:
            f = lambda x: SC * (x - R) ** m * mp.polyval(gi, x)
        try:
            got = mp.multiplicity(f, R)
        except Exception as e:
            got = '%s' % type(e).__name__
    if not inside:
        rec.event('multiplicity outside the envelope (observation only)')
        if got != m:
            rec.note('multiplicity of an expanded polynomial whose evaluation noise exceeds eps^0.8', {'p': p, 'm': m, 'got': got})
        return
    rec.case(ident, True, cls='multiplicity/m=%d/%s' % (m, form))
    rec.event('multiplicity results compared with the planted multiplicity')
    if got != m:
        rec.violation('C29/multiplicity/%s' % ('raised' if isinstance(got, str) else 'wrong'),
                      'multiplicity(f, r) of a planted polynomial root is wrong', spec, observed=got, expected=m)


RUNNERS = {'solver': run_solver, 'bracket': run_bracket, 'md': run_md, 'mnewton': run_mnewton, 'polyroots': run_polyroots,
           'multiplicity': run_multiplicity, 'halley': run_halley_d2f}
GENS = {'solver': gen_solver_case, 'bracket': gen_bracket_case, 'md': gen_md_case, 'mnewton': gen_mnewton_case,
        'polyroots': gen_polyroots_case, 'multiplicity': gen_multiplicity_case}


def run_shard(shard, rec):
    mp = _mp()
    r = G.rng(PROP, shard['seed'], shard['shard'])
    from vf.instrument import AnchorCount
    counts = shard['counts']
    k = shard['shard']
    with AnchorCount(rec, ['mpmath.calculus.optimization:findroot', 'mpmath.calculus.optimization:MNewton.__iter__',
                           'mpmath.calculus.optimization:Bisection.__iter__', 'mpmath.calculus.optimization:Illinois.__iter__',
                           'mpmath.calculus.optimization:Ridder.__iter__', 'mpmath.calculus.optimization:MDNewton.__iter__',
                           'mpmath.calculus.optimization:multiplicity', 'mpmath.calculus.polynomials:polyroots']):
        for sec in ('solver', 'bracket', 'md', 'mnewton', 'polyroots', 'multiplicity'):
            n = counts[sec]
            for i in range(n):
                spec = GENS[sec](r, i * NSHARDS + k)       # cells interleaved over the shards: every cell is visited on every seed
                mp.prec = 53
                try:
                    RUNNERS[sec](mp, rec, spec)
                finally:
                    mp.prec = 53
        run_halley_d2f(mp, rec, {'p': 53 + k, 'r': hexq(Fr(k, 4))})


def required(agg, tier):
    miss = []
    cl = agg['classes']
    for s in ALL_SOLVERS:
        if not cl.get('%s/returned' % s):
            miss.append('solver %s never returned a value (nothing to verify)' % s)
    for s in BRACKET_SOLVERS:
        if cl.get('%s/nonmonotone-bracket-checked' % s, 0) < 5:
            miss.append('fewer than 5 results of %s on sign-change brackets where f is not monotone' % s)
        got, tried = cl.get('%s/bracket-checked' % s, 0), cl.get('%s/genuine-bracket-attempted' % s, 0)
        if not got or got < 0.2 * tried:
            miss.append('bracketing solver %s returned a result for only %d of %d genuine brackets (< 20%%): containment not observed' % (s, got, tried))
    ev = agg['events']
    for name in ('findroot returned values re-evaluated', 'bracket containment decided (genuine bracket)',
                 'mnewton problems with planted root of multiplicity m run', 'polyroots results checked',
                 'polyroots ordering predicate decided', 'multiplicity results compared with the planted multiplicity',
                 'user d2f supplied to mnewton'):
        if not ev.get(name):
            miss.append('monitor saw nothing: ' + name)
    for m in range(1, 7):
        if not any(k.startswith('mnewton/m=%d/' % m) for k in cl):
            miss.append('no mnewton case with multiplicity %d' % m)
    if not any(k.startswith('polyroots/equalim/returned') for k in cl):
        miss.append('no polyroots case with several pairs of equal |Im| returned')
    return miss


def replay(case, rec):
    mp = _mp()
    spec = case['case']
    mp.prec = 53
    RUNNERS[spec['sec']](mp, rec, spec)
