"""C14 -- real interval operations contain every possible exact result.

Observed : every iv operator / function result for + - * / ** abs neg pos exp log sqrt sin cos tan atan2 gamma rgamma
           loggamma factorial and every conversion (int, float, mpf, Fraction, string forms) -- the returned endpoints;
           every interval stored into an iv number (StoreHook: a <= b, canonical, no nan); every directed-rounded libmp
           primitive result produced on the way (ReturnTap).
Oracle   : rigorous enclosure E of f at SAMPLE POINTS of the inputs (endpoints, midpoint, adjacent-to-endpoint points,
           random many-bit dyadic points, zero, finite points of infinite intervals; corners/pairs for binary ops):
           exact integer arithmetic for + - * and small integer powers, vf.ball for the rest, a consensus enclosure for
           the gamma family.  Violated iff E lies ENTIRELY outside the returned interval.  Interior extrema: sin/cos
           must reach +-1 when a multiple of pi/2 of the right residue is provably inside, tan must be unbounded when a
           pole is provably inside, gamma is sampled next to its minimum.
Keys     : a containment failure is attributed to the first directed primitive whose own result is on the wrong side
           of the enclosure of its own exact arguments (C14/<primitive>/<excess class>); otherwise to the interval
           operation and the sign classes of its operands (C14/<op>/<classes>)."""
import math
from fractions import Fraction
from vf import exactq as Q
from vf import gens as G
from vf import ball
from vf import ivoracle as O
from vf.ball import RB, Indeterminate

PROP = 'C14'
LEVEL = 'exploration'
NEEDS_REF = True
RULE = ('seeded stratified generation: operation x interval class (point, 1-ulp, narrow, wide, zero-straddling, '
        'zero-touching, pole-straddling, half-infinite, infinite, endpoints longer than iv.prec) x precision x boundary '
        'hunter; a case is non-trivial when an interval was returned with at least one finite endpoint and at least one '
        'sample point of the inputs was decided against it; distinct = distinct (operation, operand endpoints, prec)')
ASSUMPTIONS = ['vf.ball enclosures are rigorous (self-test python -m vf.ball); exact integer arithmetic of CPython',
               'gamma family: consensus enclosure (reference release 1.3.0 at p+64 and 2p+200 bits and the tree mp at '
               '3p+300 bits agree to 2^-(p+40)); tier: consensus enclosure, not a proof',
               'operands are injected exactly (iv.mpf((mpf,mpf)) keeps the raw endpoints); containment is tested at sample '
               'points only -- a failure strictly between the samples is not seen']
SHARD_TIMEOUT = {'quick': 600, 'thorough': 3000}
LEVEL_TEXT = ('exploration: ~1.4*10^5 (quick) / ~8*10^5 (thorough) interval operations on the real code, each result tested '
              'against rigorous enclosures of the exact value at ~10 sample points of the inputs; generators aim exact '
              'values into the guard bits of an endpoint and cover every sign case of the interval routines')
LEVEL_NOTE = ('trusted base: vf/ball.py, vf/exactq.py, CPython ints; gamma family decided by a consensus enclosure '
              '(evidence classes gamma*/... carry tier: consensus enclosure); only sampled points of each input interval '
              'are tested')
TECHNIQUE = 'runtime oracle monitor on interval results + StoreHook on stored intervals + ReturnTap on directed primitives'

CASES = {'quick': 9000, 'thorough': 50000}
NSHARDS = 16
OPS = (['add', 'sub', 'mul', 'div'] * 3 + ['pow_int'] * 4 + ['pow_real'] * 3 + ['unary'] * 2 + ['exp'] * 4 + ['log'] * 4 +
       ['sqrt'] * 2 + ['sin', 'cos'] * 3 + ['tan'] * 3 + ['atan2'] * 4 + ['gamma'] * 3 + ['convert'] * 5 + ['string'] * 5)
GAMMA_FUNS = ['gamma', 'rgamma', 'loggamma', 'factorial']
PRECS = [10, 15, 20, 24, 30, 53, 53, 64, 100, 113, 200, 333, 500, 1000]
X0_GAMMA = Fraction(14616321449683623412626595423257213284681962040064463512959884085987864403538018102430749927337255,
                    10 ** 97)


def shards(tier, seed):
    return [{'n': CASES[tier]} for _ in range(NSHARDS)]


# ---------------------------------------------------------------------------------------
# generators
# ---------------------------------------------------------------------------------------

def pick_prec(r, cap=1000):
    x = r.random()
    if x < 0.7:
        p = r.choice(PRECS)
    elif x < 0.95:
        p = r.randint(10, 400)
    else:
        p = r.randint(10, 1000)
    return min(p, cap)


def val(r, p, emin, emax, sign=None, bits=None):
    """raw value with leading bit position in [emin, emax] (value in [2^(top-1), 2^top))"""
    b = bits or r.choice([1, 2, 3, p // 2 + 1, p - 1, p, p, p, p + 1, 2 * p, 3 * p + 7])
    m = G.mantissa(r, max(1, b))
    top = r.randint(emin, emax)
    s = r.randint(0, 1) if sign is None else sign
    return Q.canon(s, m, top - m.bit_length())


def next_p(d, p, up=True):
    """the neighbouring p-bit (or longer, if d is longer) dyadic above/below d != 0"""
    m, e = d
    k = max(0, p - abs(m).bit_length())
    return (m << k) + (1 if up else -1), e - k


ICLASSES = ['point', 'point', 'ulp', 'narrow', 'narrow', 'wide', 'wide', 'zero', 'touch0', 'halfinf', 'inf']


def interval(r, p, v, cls, positive=False):
    """(lo_raw, hi_raw) of class cls built around the raw value v"""
    d = O.dy(v)
    if d[0] == 0:
        d = (1, -r.randint(0, p))
    if cls == 'point':
        return O.raw(d), O.raw(d)
    if cls == 'ulp':
        return O.raw(d), O.raw(next_p(d, p))
    if cls == 'narrow':
        k = r.randint(2, p + 25)
        w = (abs(d[0]) * (r.getrandbits(8) | 1), d[1] - k - 8)
        return O.raw(d), O.raw(O.dadd(d, w))
    if cls == 'wide':
        t = r.choice([1, 1, 2, 3, 7, 100, 1 << 20])
        w = (abs(d[0]) * t * (r.getrandbits(6) | 1), d[1] - 6)
        if r.random() < 0.5 and not positive:
            return O.raw(O.dsub(d, w)), O.raw(d)
        return O.raw(d), O.raw(O.dadd(d, w))
    if cls == 'zero':
        a = (abs(d[0]), d[1])
        c = (abs(d[0]) * (r.getrandbits(7) | 1), d[1] - r.choice([0, 3, 7, 7, 10, p]))
        if r.random() < 0.5:
            a, c = c, a
        return O.raw(O.dneg(a)), O.raw(c)
    if cls == 'touch0':
        a = (abs(d[0]), d[1])
        if r.random() < 0.5 or positive:
            return Q.fzero, O.raw(a)
        return O.raw(O.dneg(a)), Q.fzero
    if cls == 'halfinf':
        if r.random() < 0.5 or positive:
            return O.raw(d), Q.finf
        return Q.fninf, O.raw(d)
    if cls == 'inf':
        return Q.fninf, Q.finf
    raise ValueError(cls)


def gen_generic(r, p, lo=-40, hi=40):
    x = r.random()
    if x < 0.5:
        return val(r, p, -8, 8)
    if x < 0.8:
        return val(r, p, lo, hi)
    return val(r, p, -p - 30, p + 30)


def hunter_small(r, p):
    """+-j 2^-k: 1 + x is a short dyadic, the rest of the series lies beyond the guard bits"""
    j = r.choice([1, 1, 1, 3, 5, 7, 9, 255, (1 << r.randint(1, 12)) - 1, (1 << r.randint(1, 12)) + 1])
    k = r.choice([r.randint(p // 2 - 4, p + 45), r.randint(1, 2 * p + 60), (p + 14) // 2 + r.randint(0, 6), p + 14 + r.randint(-3, 3),
                  p + 20 + r.randint(-3, 3)])
    return Q.canon(r.randint(0, 1), j, -max(1, k))


def hunter_near_one(r, p):
    """1 +- j 2^-k with k up to beyond 2p"""
    j = r.choice([1, 1, 1, 3, 5, 7, (1 << r.randint(1, 10)) - 1])
    k = r.choice([r.randint(1, 2 * p + 40), r.randint(p - 5, p + 30), r.randint(p // 2, p), 148 if p == 200 else p + 20])
    k = max(k, j.bit_length() + 1)
    m = (1 << k) + r.choice([-1, 1]) * j
    return Q.canon(0, m, -k)


def near_pi2(r, p):
    """a q-bit dyadic next to k pi/2"""
    k = r.choice([1, 2, 3, 4, 5, 6, 7, 8, r.randint(1, 100), r.randint(1, 1 << 30), -r.randint(1, 50)])
    q = r.choice([p, p, p + 10, 2 * p, max(4, p // 2)])
    with ball.prec(q + 80 + abs(k).bit_length()):
        v = ball.pi() * k
        lo = v.lo
    m, e = lo[0], lo[1] - 1
    sh = max(0, abs(m).bit_length() - q)
    m = (m >> sh) + r.choice([-1, 0, 0, 1, 2])
    if m == 0:
        m = 1
    return O.raw((m, e + sh))


# ---------------------------------------------------------------------------------------
# the checking context
# ---------------------------------------------------------------------------------------

class Ctx(object):
    def __init__(self, rec, r, tier):
        import mpmath
        self.mpmath = mpmath
        self.iv = mpmath.iv
        self.mp = mpmath.mp
        self.rec = rec
        self.r = r
        self.tier = tier
        self.consensus = None
        self.sm = None
        self.tap = None
        self.tap_checked = 0
        self.last_exc = None

    def cons(self):
        if self.consensus is None:
            self.consensus = O.Consensus()
        return self.consensus

    def mk(self, lo, hi):
        """iv.mpf with exactly these raw endpoints (public route: a pair of mp.mpf values)"""
        mp = self.mp
        return self.iv.mpf((mp.make_mpf(lo), mp.make_mpf(hi)))

    def operand(self, lo, hi, allow_plain=True):
        """the interval as iv.mpf, or (for point intervals, sometimes) as an exactly equal int / float / mp.mpf"""
        r = self.r
        if allow_plain and lo == hi and O.is_fin(lo) and r.random() < 0.3:
            v = G.as_python_number(r, lo)
            if v is not None:
                return v, type(v).__name__
            return self.mp.make_mpf(lo), 'mpf'
        return self.mk(lo, hi), 'iv'


def fmt_raw(t):
    return list(t) if O.is_fin(t) else {Q.finf: '+inf', Q.fninf: '-inf'}.get(t, 'nan')


def classify(ctx, op, prec, records, opclasses, kind, store_kind=None):
    """mechanism key of a containment failure"""
    checked = O.check_records(records, ctx.cons() if op in GAMMA_FUNS else None)
    ctx.tap_checked += len(checked)
    # order of blame: an interval-level routine that itself produced an inverted interval; then a wrong-side directed
    # primitive (it explains a failure better than the interval routine that merely used its value); then an
    # interval-level routine whose own result misses its own sample points
    inv = [c for c in checked if c[0] == 'mpi_atan2' and c[3] == 'violated' and c[4] is None]
    order = inv + [c for c in checked if c[0] != 'mpi_atan2'] + [c for c in checked if c[0] == 'mpi_atan2' and c not in inv]
    for name, args, ret, verdict, exc in order:
        if verdict == 'violated':
            if name == 'mpi_atan2':
                rg = O.regime(name, args)
                info = {'primitive': name, 'prec': args['prec'], 'regime': rg, 'y': [fmt_raw(t) for t in args['y']],
                        'x': [fmt_raw(t) for t in args['x']], 'result': [fmt_raw(t) for t in ret]}
                return 'C14/mpi_atan2/' + rg, info, exc
            if name == 'from_str':
                ex = Q.parse_decimal(args['x'])
                approx = False
                try:
                    from mpmath.libmp.libmpf import str_to_man_exp
                    approx = abs(str_to_man_exp(args['x'])[1]) > 400
                except Exception:
                    pass
                return ('C14/from_str/' + ('approx-branch-directed' if approx else 'exact-branch-directed'),
                        {'primitive': name, 'x': args['x'], 'prec': args['prec'], 'rnd': args['rnd'], 'result': fmt_raw(ret)}, exc)
            nm = name
            if name in ('mpf_gamma', 'mpc_gamma'):
                nm = name[:4] + {0: 'gamma', 1: 'factorial', 2: 'rgamma', 3: 'loggamma'}[args.get('type', 0)]
            info = {'primitive': nm, 'prec': args['prec'], 'rnd': args['rnd'], 'excess_ulps': exc,
                    'result': fmt_raw(ret) if len(ret) == 4 else [fmt_raw(ret[0]), fmt_raw(ret[1])]}
            for k in ('x', 's', 't', 'y', 'n', 'p', 'q', 'z'):
                if k in args and args[k] is not None:
                    v = args[k]
                    if isinstance(v, tuple) and len(v) == 2:
                        info[k] = [fmt_raw(v[0]), fmt_raw(v[1])]
                    else:
                        info[k] = fmt_raw(v) if isinstance(v, tuple) else v
            info['regime'] = O.regime(name, args)
            return 'C14/%s/%s/%s' % (nm, info['regime'], O.excess_class(exc)), info, exc
    key = 'C14/%s/%s' % (op, opclasses)
    if store_kind:
        key += '/' + store_kind
    return key, None, None


def run_checked(ctx, op, prec, call, inputs, point_oracles, extra_checks=None, variant='', consensus_tier=False, info=None):
    """Execute one interval operation under the monitors and test the result.
    inputs: list of (lo, hi) raw pairs (for ident / classes); point_oracles: list of (kind, sample, enclose(wp));
    extra_checks(res_parts) -> list of (kind, sample, enclose)"""
    rec, iv, r = ctx.rec, ctx.iv, ctx.r
    opclasses = ':'.join(O.sign_class(lo, hi).replace('inf', '') or 'R' for lo, hi in inputs) if inputs else (variant.split(':')[0] or 'any')
    cls = '%s/%s' % (op, ':'.join(O.sign_class(lo, hi) for lo, hi in inputs)) if inputs else '%s/%s' % (op, variant)
    if variant:
        rec.cls('variant/%s/%s' % (op, variant))
    ident = (op, variant, tuple(inputs), prec, repr(sorted(info.items())) if info else None)
    case = {'op': op, 'variant': variant, 'prec': prec, 'inputs': [[fmt_raw(lo), fmt_raw(hi)] for lo, hi in inputs]}
    if info:
        case.update(info)
    old = iv.prec
    iv.prec = prec
    ctx.sm.take()
    ctx.tap.begin()
    try:
        try:
            res = call()
        finally:
            records = ctx.tap.end()
            iv.prec = old
    except Exception as ex:
        ctx.sm.take()
        ctx.last_exc = ex
        rec.case(ident, False, cls='%s/raised:%s' % (op, type(ex).__name__))
        rec.event('operation raised (no interval returned)')
        return None
    bad = ctx.sm.take()
    if hasattr(res, '_mpi_') and not hasattr(res, '_f'):
        parts = [res._mpi_]
    elif hasattr(res, '_mpci_'):
        parts = list(res._mpci_)
        cls += '/complex-result'
    else:
        rec.case(ident, False, cls=op + '/non-interval-result')
        return None
    rec.event('interval results observed')
    rec.event('directed primitive results recorded', len(records))
    case['result'] = [[fmt_raw(a), fmt_raw(b)] for a, b in parts]
    found = None
    # stored-interval monitor
    for kind, v in bad:
        key, info, exc = classify(ctx, op, prec, records, opclasses, kind, store_kind=kind)
        rec.violation(key, '%s: stored interval is %s' % (op, kind), dict(case, culprit=info), observed=case['result'],
                      expected='a <= b with canonical endpoints', severity=exc if (exc is not None and exc == exc and exc != float('inf')) else None)
        found = key
    inverted = any(k == 'inverted' for k, _ in bad) or any(O.is_nan(a) or O.is_nan(b) or O.raw_cmp(a, b) > 0 for a, b in parts)
    decided = 0
    finite_end = any(O.is_fin(a) or O.is_fin(b) for a, b in parts)
    oracles = list(point_oracles)
    if extra_checks is not None:
        oracles += extra_checks(parts)
    if not inverted:
        for kind, sample, enclose in oracles:
            if len(parts) == 1 and getattr(enclose, 'complex', False):
                rec.event('sample points without finite enclosure (skipped)')
                continue
            if len(parts) == 2 and not getattr(enclose, 'complex', False):
                # real operation answered with a complex rectangle: the value is real -> imaginary part must contain 0
                enc = (lambda wp, f=enclose: _as_complex(f(wp)))
            else:
                enc = enclose
            try:
                verdict, info = O.decide_point(parts, enc, prec)
            except (OverflowError, MemoryError, ZeroDivisionError) as ex:
                verdict, info = 'indeterminate', type(ex).__name__
            if verdict == 'held':
                decided += 1
                rec.event('sample points held')
            elif verdict == 'violated':
                decided += 1
                rec.event('sample points violated')
                if found is None:
                    key, culprit, exc = classify(ctx, op, prec, records, opclasses, kind)
                    sev = info.get('excess_ulps') if culprit is None else (exc if exc is not None else float('nan'))
                    rec.violation(key, '%s: exact value at a sample point (%s) lies outside the returned interval' % (op, kind),
                                  dict(case, sample=sample, sample_kind=kind, culprit=culprit, detail=info),
                                  observed=case['result'], expected='interval containing ' + info['enclosure'],
                                  severity=sev if (sev == sev and sev != float('inf')) else None)
                    if sev == sev and sev != float('inf'):
                        rec.maximum('largest excess outside the interval (ulps)', sev, dict(case, sample=sample))
                    found = key
            elif verdict == 'undecided':
                rec.undecided('enclosure straddles an endpoint at the precision cap', dict(case, sample=sample, info=info))
            elif isinstance(info, str) and info.startswith('consensus'):
                rec.undecided('gamma family: ' + info, dict(case, sample=sample))
            else:
                rec.event('sample points without finite enclosure (skipped)')
    if consensus_tier:
        cls += '/tier:consensus-enclosure'
    rec.case(ident, bool(finite_end and decided), cls=cls)
    rec.sample(case)
    # independent look at the directed primitives (localisation monitor), on a fraction of the cases
    if found is None and records and r.random() < (0.12 if op not in GAMMA_FUNS else 0.0):
        chk = O.check_records(records)
        ctx.tap_checked += len(chk)
        for name, args, ret, verdict, exc in chk:
            if verdict == 'violated':
                rec.event('directed primitive on the wrong side while the interval still contained the samples')
                rec.note('harmless wrong-side primitives', {'primitive': name, 'prec': args.get('prec'), 'rnd': args.get('rnd'), 'op': op})
    return res


def _as_complex(E):
    from vf.ball import CB
    if isinstance(E, RB):
        return CB(E, RB.point(0, 0))
    return E


def fmt_d(d):
    return [d[0], d[1]]


# ---------------------------------------------------------------------------------------
# operations
# ---------------------------------------------------------------------------------------

def op_arith(ctx, op, p):
    r = ctx.r
    g = r.choice(G.GAPS[:15])
    a, b, _ = G.pair_with_gap(r, p, g, long_big=r.choice([None, None, 2 * p, 3 * p + 7, 305]))
    if abs(a[2]) > 30000 or abs(b[2]) > 30000:
        a, b = val(r, p, -40, 40), val(r, p, -40, 40)
    ca, cb = r.choice(ICLASSES), r.choice(ICLASSES)
    x = interval(r, p, a, ca)
    y = interval(r, p, b, cb)
    if r.random() < 0.06:
        y = x
    X, tx = ctx.operand(*x)
    Y, ty = ctx.operand(*y)
    if tx == 'mpf' or (tx != 'iv' and ty != 'iv'):
        X, tx = ctx.mk(*x), 'iv'                 # mp.mpf (op) interval is the mp context's business, not an iv operation
    f = {'add': lambda: X + Y, 'sub': lambda: X - Y, 'mul': lambda: X * Y, 'div': lambda: X / Y}[op]
    orc = {'add': O.o_add, 'sub': O.o_sub, 'mul': O.o_mul, 'div': O.o_div}[op]
    sx = O.samples_1d(r, x[0], x[1], p)
    sy = O.samples_1d(r, y[0], y[1], p)
    if y is x:
        pairs = [(s, s) for s in sx]
    else:
        pairs = O.sample_pairs(r, sx, sy)
    pts = []
    for (k1, d1), (k2, d2) in pairs:
        if op == 'div' and d2[0] == 0:
            continue
        kind = k1 if k1 == k2 else k1 + 'x' + k2
        pts.append((kind, [fmt_d(d1), fmt_d(d2)], (lambda wp, d1=d1, d2=d2: orc(d1, d2))))
    run_checked(ctx, op, p, f, [x, y], pts, variant='%s.%s' % (tx, ty))


def op_unary(ctx, p):
    r = ctx.r
    op = r.choice(['abs', 'neg', 'pos'])
    x = interval(r, p, gen_generic(r, p), r.choice(ICLASSES))
    X = ctx.mk(*x)
    f = {'abs': lambda: abs(X), 'neg': lambda: -X, 'pos': lambda: +X}[op]
    pts = [(k, fmt_d(d), (lambda wp, d=d: O.REAL_FUNS[op](d))) for k, d in O.samples_1d(r, x[0], x[1], p)]
    run_checked(ctx, op, p, f, [x], pts)


def kw_variant(ctx, name, X, p):
    """call iv.<name>(X) either at iv.prec = p or with the prec= keyword from a different context precision"""
    iv = ctx.iv
    fn = getattr(iv, 'ln' if name == 'log' else name)
    if ctx.r.random() < 0.15:
        def call():
            iv.prec = ctx.r.choice([53, 20, 300])
            return fn(X, prec=p)
        return call, 'kw'
    return (lambda: fn(X)), ''


def op_fun(ctx, name, p):
    r = ctx.r
    x = None
    cls = r.choice(ICLASSES)
    if name == 'exp':
        t = r.random()
        if t < 0.45:
            v = hunter_small(r, p)
        elif t < 0.8:
            v = val(r, p, -p - 30, 8)
        else:
            v = val(r, p, 5, r.choice([12, 12, 30, 60]))
    elif name == 'log':
        t = r.random()
        if t < 0.45:
            v = hunter_near_one(r, p)
        elif t < 0.55:
            v = Q.canon(0, 1, r.randint(-3000, 3000))
        elif t < 0.62:
            v = val(r, p, -200000, 200000, sign=0)
        else:
            v = val(r, p, r.choice([-3000, -40, -3]), r.choice([3000, 40, 3]), sign=0)
        if cls in ('zero', 'inf') or (cls == 'halfinf' and r.random() < 0.5):
            cls = 'touch0'
        x = interval(r, p, v, cls, positive=True)
    elif name == 'sqrt':
        t = r.random()
        if t < 0.4:
            m = G.mantissa(r, r.choice([max(1, p // 2), p, p + 1, p + 3]))
            sq = m * m + r.choice([0, 0, 1, -1])
            v = Q.canon(0, max(1, sq), 2 * r.randint(-20, 20) + r.randint(0, 1))
        else:
            v = val(r, p, -60, 60, sign=0)
        if cls in ('zero', 'inf'):
            cls = 'touch0'
        x = interval(r, p, v, cls, positive=True)
    elif name in ('sin', 'cos', 'tan'):
        t = r.random()
        if t < 0.35:
            v = near_pi2(r, p)
        elif t < 0.55:
            v = hunter_small(r, p)
        elif t < 0.85:
            v = val(r, p, -p - 30, 6)
        else:
            v = val(r, p, 6, r.choice([30, 200, 2000]))
        if r.random() < 0.3:
            # width chosen in units of pi/2: exercises the quadrant-count logic
            d = O.dy(v)
            w = Fraction(r.choice([1, 2, 3, 4, 5, 6, 7])) * Fraction(355, 226) * Fraction(r.randint(90, 110), 100)
            hi = O.dadd(d, (int(w * (1 << 40)), -40))
            x = (O.raw(d), O.raw(hi))
    else:
        raise ValueError(name)
    if x is None:
        x = interval(r, p, v, cls)
    X = ctx.mk(*x)
    call, variant = kw_variant(ctx, name, X, p)
    if name == 'log' and r.random() < 0.1:
        call, variant = (lambda: ctx.iv.ln(X)), 'ln'
    orc = O.REAL_FUNS[name]
    samples = O.samples_1d(r, x[0], x[1], p)
    pts = []
    for k, d in samples:
        if name == 'log' and d[0] <= 0:
            continue
        if name == 'sqrt' and d[0] < 0:
            continue
        pts.append((k, fmt_d(d), (lambda wp, d=d: orc(d))))

    extra = None
    if name in ('sin', 'cos', 'tan'):
        def extra(parts, x=x, name=name):
            return trig_extrema(x, name, p)
    run_checked(ctx, name, p, call, [x], pts, extra_checks=extra, variant=variant)


def trig_extrema(x, name, p):
    """interior critical points: multiples of pi/2 provably inside the input"""
    lo, hi = x
    out = []
    if not (O.is_fin(lo) and O.is_fin(hi)):
        ks = range(0, 8)       # every residue occurs in an unbounded interval
    else:
        if O.raw_cmp(lo, hi) >= 0:
            return out
        A, B = RB.from_raw(lo), RB.from_raw(hi)
        wp = p + 80 + max(0, (A.mag() or 0), (B.mag() or 0))
        if wp > 20000:
            return out
        with ball.prec(wp):
            h = ball.pi().ldexp(-1)
            qa, qb = A / h, B / h
        kmin = math.floor(qa.hi_fraction()) + 1
        kmax = math.ceil(qb.lo_fraction()) - 1
        if kmin > kmax:
            return out
        ks = range(kmin, min(kmax, kmin + 7) + 1)
    res = set(k % 4 for k in ks)
    one, mone = RB.point(1, 0), RB.point(-1, 0)
    if name == 'sin':
        if 1 in res:
            out.append(('extremum', 'sin=+1 at pi/2+2k pi inside', lambda wp: one))
        if 3 in res:
            out.append(('extremum', 'sin=-1 at 3pi/2+2k pi inside', lambda wp: mone))
    elif name == 'cos':
        if 0 in res:
            out.append(('extremum', 'cos=+1 at 2k pi inside', lambda wp: one))
        if 2 in res:
            out.append(('extremum', 'cos=-1 at pi+2k pi inside', lambda wp: mone))
    elif name == 'tan':
        if 1 in res or 3 in res:
            # tan is unbounded on both sides of a pole: any finite endpoint excludes values taken next to it
            big = RB.point(1, 1 << 40)
            out.append(('pole', 'tan unbounded above next to a pole inside', lambda wp: big))
            out.append(('pole', 'tan unbounded below next to a pole inside', lambda wp: -big))
    return out


def op_atan2(ctx, p):
    r = ctx.r
    t = r.random()
    if t < 0.3:
        # ratio hunters: |y/x| = 2^-k around the "atan(x) ~ x" and "~ pi/2" switches
        k = r.choice([p + 20 + r.randint(-4, 4), r.randint(1, 2 * p), p + 4 + r.randint(-3, 3)])
        a = val(r, p, -5, 5)
        b = val(r, p, -5 - k, 5 - k)
        if r.random() < 0.5:
            a, b = b, a
        yv, xv = a, b
    else:
        yv, xv = gen_generic(r, p), gen_generic(r, p)
    cy = r.choice(ICLASSES + ['zeropoint'])
    cx = r.choice(ICLASSES + ['zeropoint'])
    y = (Q.fzero, Q.fzero) if cy == 'zeropoint' else interval(r, p, yv, cy)
    x = (Q.fzero, Q.fzero) if cx == 'zeropoint' else interval(r, p, xv, cx)
    Y, ty = ctx.operand(*y)
    X, tx = ctx.operand(*x)
    sy = O.samples_1d(r, y[0], y[1], p)
    sx = O.samples_1d(r, x[0], x[1], p)
    pts = []
    for (k1, d1), (k2, d2) in O.sample_pairs(r, sy, sx, cap=14):
        if d1[0] == 0 and d2[0] == 0:
            continue
        kind = k1 if k1 == k2 else k1 + 'x' + k2
        pts.append((kind, [fmt_d(d1), fmt_d(d2)], (lambda wp, d1=d1, d2=d2: O.o_atan2(d1, d2))))
    run_checked(ctx, 'atan2', p, lambda: ctx.iv.atan2(Y, X), [y, x], pts, variant='%s.%s' % (ty, tx))


def op_pow_int(ctx, p):
    r = ctx.r
    t = r.random()
    if t < 0.4:
        v = hunter_near_one(r, p)
        if r.random() < 0.3:
            v = (1,) + v[1:]
        n = r.choice([3, 5, 10, 17, 100, 1000, 12345, 1 << r.randint(2, 20), (1 << r.randint(2, 20)) + 1, r.randint(3, 10 ** 6)])
    elif t < 0.8:
        v = val(r, p, -10, 10)
        n = r.choice([0, 1, 2, 3, 4, 5, 7, 8, 16, 33, 100, r.randint(2, 300)])
    else:
        v = val(r, p, -300, 300)
        n = r.choice([2, 3, 7, 64, r.randint(2, 2000)])
    if r.random() < 0.3:
        n = -n
    cls = r.choice(ICLASSES)
    x = interval(r, p, v, cls)
    X = ctx.mk(*x)
    form = r.choice(['int', 'int', 'ivpoint', 'mpf', 'float'])
    if form == 'int' or abs(n) > (1 << 50):
        E, form = n, 'int'
    elif form == 'ivpoint':
        E = ctx.iv.mpf(n)
    elif form == 'mpf':
        E = ctx.mp.mpf(n)
    else:
        E = float(n)
    pts = []
    for k, d in O.samples_1d(r, x[0], x[1], p):
        if d[0] == 0 and n < 0:
            continue
        pts.append((k, [fmt_d(d), n], (lambda wp, d=d: O.o_pow_int(d, n))))
    run_checked(ctx, 'pow_int', p, lambda: X ** E, [x], pts, info={'n': n},
                variant='%s:%s' % (form, 'neg' if n < 0 else ('0' if n == 0 else ('even' if n % 2 == 0 else 'odd'))))


def op_pow_real(ctx, p):
    r = ctx.r
    t = r.random()
    rp = False
    if t < 0.3:
        bv = hunter_near_one(r, p)
    elif t < 0.8:
        bv = val(r, p, -6, 6, sign=0)
    else:
        bv = val(r, p, -6, 6)
    cb = r.choice(['point', 'point', 'ulp', 'narrow', 'wide', 'touch0', 'halfinf', 'zero'])
    x = interval(r, p, bv, cb, positive=(O.dy(bv)[0] > 0 and cb != 'zero'))
    t = r.random()
    if t < 0.25:
        ev = Q.canon(r.randint(0, 1), r.choice([1, 3, 5, 7, 1, 1]), -r.choice([1, 1, 2, 3]))      # halves, quarters
        ce = 'point'
    else:
        ev = val(r, p, -6, 8)
        ce = r.choice(['point', 'point', 'ulp', 'narrow', 'wide', 'zero', 'touch0'])
    y = interval(r, p, ev, ce)
    X, tx = ctx.operand(*x)
    Y, ty = ctx.operand(*y)
    if tx == 'mpf':
        X, tx = ctx.mk(*x), 'iv'
    if tx != 'iv' and ty != 'iv':
        if r.random() < 0.5:
            X, tx = ctx.mk(*x), 'iv'
        else:
            Y, ty = ctx.mk(*y), 'iv'
    sx = O.samples_1d(r, x[0], x[1], p)
    sy = O.samples_1d(r, y[0], y[1], p)
    pts = []
    for (k1, d1), (k2, d2) in O.sample_pairs(r, sx, sy):
        kind = k1 if k1 == k2 else k1 + 'x' + k2
        n = O.int_of(d2)
        if d1[0] > 0 or (n is not None and abs(n) < (1 << 40) and not (d1[0] == 0 and n <= 0)) or (d1[0] == 0 and d2[0] > 0):
            pts.append((kind, [fmt_d(d1), fmt_d(d2)], (lambda wp, d1=d1, d2=d2: O.o_pow_real(d1, d2))))
        elif d1[0] < 0:
            f = (lambda wp, d1=d1, d2=d2: O.o_pow_complex(d1, d2))
            f = _mark_complex(f)
            pts.append((kind + '/complex', [fmt_d(d1), fmt_d(d2)], f))
    use_power = r.random() < 0.1
    call = (lambda: ctx.iv.power(X, Y)) if use_power else (lambda: X ** Y)
    run_checked(ctx, 'pow_real', p, call, [x, y], pts, variant='%s.%s%s' % (tx, ty, '.power' if use_power else ''))


def _mark_complex(f):
    def g(wp):
        return f(wp)
    g.complex = True
    return g


def gamma_value(r, p, name):
    t = r.random()
    if t < 0.18:
        return val(r, p, -4, 5, sign=0)
    if t < 0.3:
        k = r.choice([r.randint(1, p + 45), p + 20 + r.randint(-3, 3)])
        return Q.canon(r.randint(0, 1) if name != 'loggamma' else 0, r.choice([1, 1, 3, 5]), -k)          # next to the pole at 0
    if t < 0.45:
        k = r.randint(1, p + 40)
        base = r.choice([1, 2, 1, 2, 3])
        m = (base << k) + r.choice([-1, 1]) * r.choice([1, 1, 3])
        return Q.canon(0, m, -k)                                               # next to 1, 2 (zeros of loggamma), 3
    if t < 0.55:
        n = r.choice([r.randint(1, 30), r.randint(30, 400)])
        if r.random() < 0.5:
            return Q.canon(0, 2 * n + 1, -1)                                      # half-integers
        return Q.canon(0, n, 0)
    if t < 0.68 and name != 'loggamma':
        n = r.randint(0, 30)
        k = r.choice([1, 2, 3, r.randint(4, p + 30)])
        m = (n << k) + r.choice([1, (1 << k) - 1, r.getrandbits(k) | 1])
        return Q.canon(1, m, -k)                                               # negative non-integers
    if t < 0.8:
        q = X0_GAMMA + Fraction(r.randint(-1000, 1000), 10 ** r.choice([4, 10, 12, 20]))
        b = r.choice([p, 2 * p, 20])
        return O.raw((int(q * (1 << b)), -b))                                  # around the minimum
    if t < 0.92:
        return val(r, p, 5, r.choice([8, 12, 20]), sign=0)
    return val(r, p, 20, r.choice([60, 200, p + 40]), sign=0) if name == 'loggamma' else val(r, p, 5, 14, sign=0)


def gamma_enclosure(ctx, fname, d):
    """enclose(wp): rigorous closed form at (half-)integers, else the consensus enclosure at the ladder's precision"""
    def enc(wp):
        E = O.gamma_exact(fname, d)
        if E is not None:
            ctx.rec.event('gamma-family sample decided by a rigorous closed form')
            return E
        E, why = ctx.cons().enclose(fname, (d, (0, 0)), max(10, wp - 64))
        if E is None:
            raise Indeterminate(why)
        return E
    return enc


def op_gamma(ctx, p):
    r = ctx.r
    name = r.choice(GAMMA_FUNS + ['fac'])
    fname = 'factorial' if name == 'fac' else name
    p = min(p, 333 if ctx.tier == 'quick' else 500)
    v = gamma_value(r, p, fname)
    if fname == 'factorial':
        d = O.dy(v)
        v = O.raw(O.dsub(d, (1, 0))) if O.dsub(d, (1, 0))[0] else v
    cls = r.choice(['point', 'point', 'point', 'ulp', 'narrow', 'narrow', 'wide', 'halfinf', 'zero', 'touch0'])
    if fname == 'loggamma' and cls in ('zero',):
        cls = 'touch0'
    x = interval(r, p, v, cls, positive=(fname == 'loggamma'))
    X = ctx.mk(*x)
    call, variant = kw_variant(ctx, name, X, p)
    samples = O.samples_1d(r, x[0], x[1], p, nrand=2)
    # sample next to the minimum of gamma when it is inside
    shift = 1 if fname == 'factorial' else 0
    for b in (64, p + 30):
        q = X0_GAMMA - shift
        dd = (int(q * (1 << b)), -b)
        if O.is_fin(x[0]) and O.is_fin(x[1]) and O.contains_point(x[0], x[1], dd) and O.contains_point(x[0], x[1], O.dadd(dd, (1, -b))):
            samples.append(('extremum', O.dnorm(dd)))
            samples.append(('extremum', O.dnorm(O.dadd(dd, (1, -b)))))
    if len(samples) > 7:
        keep = [s for s in samples if s[0] in ('endpoint', 'point', 'mid', 'extremum')]
        rest = [s for s in samples if s not in keep]
        r.shuffle(rest)
        samples = keep + rest[:max(0, 7 - len(keep))]
    cons = ctx.cons()
    pts = []
    for k, d in samples:
        if d[0] == 0 and fname != 'rgamma' and fname != 'factorial':
            continue
        n = O.int_of(d)
        if n is not None and n + shift <= 0 and fname != 'rgamma':
            continue                                                  # pole
        if fname == 'loggamma' and d[0] < 0:
            continue
        if abs(d[0]).bit_length() + d[1] > 40 and fname != 'loggamma':
            continue

        pts.append((k, fmt_d(d), gamma_enclosure(ctx, fname, d)))
    run_checked(ctx, fname, p, call, [x], pts, variant=variant + ('fac' if name == 'fac' else ''), consensus_tier=True)


def op_convert(ctx, p):
    """ints, floats, mpf values, Fractions, pairs of them -> interval containing the denoted number / range"""
    r = ctx.r
    iv, mp = ctx.iv, ctx.mp

    def one():
        kind = r.choice(['int', 'int', 'float', 'float', 'float', 'mpf', 'mpf', 'mpf', 'Fraction', 'mpq'] if r.random() < 0.4 else ['int', 'float', 'mpf'])
        if kind == 'int':
            v = r.choice([1, -1]) * (G.mantissa(r, G.mant_bits(r, p)) << r.choice([0, 0, 1, 7, 200]))
            return kind, v, Fraction(v)
        if kind == 'float':
            import struct
            while True:
                v = struct.unpack('<d', struct.pack('<Q', r.getrandbits(64)))[0]
                if v == v and abs(v) != float('inf'):
                    break
            return kind, v, Fraction(v)
        if kind == 'mpf':
            t = val(r, p, -300, 300)
            return kind, mp.make_mpf(t), O.dfrac(O.dy(t))
        n = r.choice([1, -1]) * r.randint(1, 1 << r.choice([3, 20, 80, 300]))
        d = r.randint(1, 1 << r.choice([3, 20, 80, 300]))
        if r.random() < 0.3:
            m = (G.mantissa(r, max(2, p)) << 1) | 1
            n = m * d + r.choice([-1, 0, 1])
            d = d << (p + 1)
        q = Fraction(n, d)
        if kind == 'mpq':
            from mpmath.rational import mpq
            return kind, mpq(q.numerator, q.denominator), q
        return kind, q, q
    form = r.choice(['single', 'single', 'pair', 'list', 'binop', 'mpi'])
    k1, v1, q1 = one()
    if form == 'single':
        call = lambda: iv.mpf(v1)
        lo = hi = q1
        variant = k1
    elif form == 'binop':
        call = lambda: iv.mpf(0) + v1
        lo = hi = q1
        variant = 'binop:' + k1
    else:
        k2, v2, q2 = one()
        if q2 < q1:
            (k1, v1, q1), (k2, v2, q2) = (k2, v2, q2), (k1, v1, q1)
        lo, hi = q1, q2
        variant = '%s:%s,%s' % (form, k1, k2)
        if form == 'pair':
            call = lambda: iv.mpf((v1, v2))
        elif form == 'list':
            call = lambda: iv.mpf([v1, v2])
        else:
            call = lambda: ctx.mpmath.mpi(v1, v2)
    qs = [('endpoint', lo), ('endpoint', hi)] if lo != hi else [('point', lo)]
    if lo != hi:
        qs.append(('mid', (lo + hi) / 2))
    pts = [(k, str(q) if len(str(q)) < 200 else 'fraction', (lambda wp, q=q: RB.from_fraction(q, wp))) for k, q in qs]
    ctx.last_exc = None
    res = run_checked(ctx, 'convert', p, call, [], pts, variant=variant,
                      info={'value': [repr(v1)[:400]] + ([repr(v2)[:400]] if form not in ('single', 'binop') else [])})
    if res is None and ('Fraction' in variant or 'mpq' in variant) and isinstance(ctx.last_exc, NotImplementedError):
        # the statement names Fractions among the convertible types
        ctx.rec.case(('convert-unsupported', variant), True, cls='convert/unsupported-rational-type')
        ctx.rec.violation('C14/convert/rational-type-not-accepted',
                          'iv.convert / iv.mpf does not accept Fraction / mpq values (NotImplementedError): no interval is produced '
                          'for a type the statement lists as convertible',
                          {'op': 'convert', 'variant': variant, 'prec': p, 'value': str(q1)[:80]},
                          observed='exception', expected='interval containing the rational number')


DIG = '0123456789'


def dec_literal(r, p, maxexp=None):
    """(text, exact Fraction) of a decimal literal"""
    nd = r.choice([1, 2, 3, 5, 17, 17, 40, r.randint(1, 60), 500 if r.random() < 0.1 else 8])
    digs = ''.join(r.choice(DIG) for _ in range(nd)).lstrip('0') or '7'
    if r.random() < 0.3:
        # next to a binary rounding boundary: exact decimal expansion of a (p+1)-bit dyadic, maybe truncated / nudged
        m = (G.mantissa(r, p) << 1) | 1
        e = r.randint(-p - 40, 40)
        digs, ex10 = (str(m * 5 ** (-e)), e) if e < 0 else (str(m << e), 0)
        k = r.choice([len(digs), len(digs), 17, 25, max(1, len(digs) - 1)])
        if k < len(digs):
            ex10 += len(digs) - k
            digs = digs[:k]
        if r.random() < 0.3:
            digs = str(int(digs) + r.choice([-1, 1]))
        text = digs[0] + '.' + digs[1:] + 'e' + str(ex10 + len(digs) - 1)
        if r.random() < 0.4:
            text = '-' + text
        q = Q.parse_decimal(text)
        return text, q.fraction()
    point = r.randint(0, len(digs))
    body = digs[:point] + ('.' + digs[point:] if r.random() < 0.8 else '')
    if body.startswith('.'):
        body = '0' + body
    if '.' not in body:
        body = digs
    ex = r.choice([0, 0, 0, r.randint(-5, 5), r.randint(-30, 30), r.randint(-350, 350), r.choice([-1, 1]) * r.randint(380, 420),
                   r.choice([-1, 1]) * r.randint(401, 5000)])
    if maxexp is not None:
        ex = max(-maxexp, min(maxexp, ex))
    text = body
    if ex or r.random() < 0.1:
        text += r.choice(['e', 'E']) + (r.choice(['', '+']) if ex >= 0 else '') + str(ex)
    if r.random() < 0.4:
        text = '-' + text
    q = Q.parse_decimal(text)
    return text, (q.fraction() if not Q.is_special(q) else None)


def op_string(ctx, p):
    r = ctx.r
    iv = ctx.iv
    form = r.choice(['plain', 'plain', 'pm', 'paren', 'percent', 'pmpercent', 'brackets', 'diff'])
    sp = (lambda: r.choice(['', ' ']))
    if form == 'plain':
        text, q = dec_literal(r, p)
        lo = hi = q
    elif form in ('pm', 'paren', 'percent', 'pmpercent'):
        a, qa = dec_literal(r, p)
        b, qb = dec_literal(r, p, maxexp=30)
        b = b.lstrip('-')
        qb = abs(qb)
        if form == 'pm':
            text = a + sp() + '+-' + sp() + b
            lo, hi = qa - qb, qa + qb
        elif form == 'paren':
            text = a + sp() + '(' + b + ')'
            lo, hi = qa - qb, qa + qb
        else:
            text = (a + sp() + '(' + b + '%)') if form == 'percent' else (a + sp() + '+-' + sp() + b + '%')
            w = abs(qa) * qb / 100
            lo, hi = qa - w, qa + w
    elif form == 'brackets':
        a, qa = dec_literal(r, p)
        b, qb = dec_literal(r, p)
        if qb < qa:
            (a, qa), (b, qb) = (b, qb), (a, qa)
        text = '[' + sp() + a + ',' + sp() + b + sp() + ']'
        lo, hi = qa, qb
    else:
        nd = r.choice([1, 3, 17, 40])
        shared = ''.join(r.choice(DIG) for _ in range(nd))
        pt = r.randint(0, nd)
        shared = (shared[:pt] or '0') + '.' + shared[pt:]
        k = r.randint(1, 4)
        y = ''.join(r.choice(DIG) for _ in range(k))
        z = ''.join(r.choice(DIG) for _ in range(k))
        if y == z:
            z = str((int(z) + 1) % 10 ** k).zfill(k)
        neg = r.random() < 0.4
        ex = r.choice(['', '', 'e%d' % r.randint(-30, 30), 'e%d' % (r.choice([-1, 1]) * r.randint(401, 3000))])
        qy = Q.parse_decimal(shared + y + ex).fraction()
        qz = Q.parse_decimal(shared + z + ex).fraction()
        if neg:
            qy, qz = -qy, -qz
        # value order: the first digit group must denote the smaller number
        if qy > qz:
            y, z, qy, qz = z, y, qz, qy
        text = ('-' if neg else '') + shared + '[' + y + ',' + sp() + z + ']' + ex
        lo, hi = qy, qz
    qs = [('endpoint', lo), ('endpoint', hi)] if lo != hi else [('point', lo)]
    if lo != hi:
        qs.append(('mid', (lo + hi) / 2))
    pts = [(k, 'denoted ' + k, (lambda wp, q=q: RB.from_fraction(q, wp))) for k, q in qs]
    variant = form

    def call():
        return iv.mpf(text)
    run_checked(ctx, 'string', p, call, [], pts, variant=variant, info={'text': text if len(text) < 1500 else text[:1500] + '...'})


# ---------------------------------------------------------------------------------------
def run_case(ctx, i):
    r = ctx.r
    op = OPS[i % len(OPS)]
    p = pick_prec(r)
    if op in ('add', 'sub', 'mul', 'div'):
        op_arith(ctx, op, p)
    elif op == 'unary':
        op_unary(ctx, p)
    elif op in ('exp', 'log', 'sqrt', 'sin', 'cos', 'tan'):
        op_fun(ctx, op, p)
    elif op == 'atan2':
        op_atan2(ctx, p)
    elif op == 'pow_int':
        op_pow_int(ctx, p)
    elif op == 'pow_real':
        op_pow_real(ctx, p)
    elif op == 'gamma':
        op_gamma(ctx, p)
    elif op == 'convert':
        op_convert(ctx, p)
    elif op == 'string':
        op_string(ctx, p)


def run_shard(shard, rec):
    import mpmath
    r = G.rng(PROP, shard['seed'], shard['shard'])
    ctx = Ctx(rec, r, shard['tier'])
    with O.IntervalStoreMonitor(mpmath.iv) as sm, O.PrimitiveTap() as tap:
        ctx.sm, ctx.tap = sm, tap
        for i in range(shard['n']):
            run_case(ctx, i + shard['shard'] * 11)
        rec.event('interval stores seen by the StoreHook', sm.stores)
        rec.event('directed primitive results compared with their own enclosure', ctx.tap_checked)
    if ctx.consensus is not None:
        for k, v in ctx.consensus.stats.items():
            rec.event('consensus enclosure ' + k, v)


def required(agg, tier):
    miss = []
    cl = agg['classes']
    for op in ['add', 'sub', 'mul', 'div', 'pow_int', 'pow_real', 'abs', 'neg', 'exp', 'log', 'sqrt', 'sin', 'cos', 'tan', 'atan2',
               'gamma', 'rgamma', 'loggamma', 'factorial', 'convert', 'string']:
        if not any(k.startswith(op + '/') and '/raised' not in k for k in cl):
            miss.append('no %s result observed' % op)
    ev = agg['events']
    if not ev.get('interval stores seen by the StoreHook'):
        miss.append('StoreHook saw no interval store')
    if not ev.get('directed primitive results recorded'):
        miss.append('ReturnTap recorded no directed primitive result')
    if not ev.get('sample points held'):
        miss.append('no sample point was decided')
    return miss


def replay(case, rec):
    """re-run the recorded operation on the recorded operands"""
    import mpmath
    from vf.core import unjson_int
    c = case['case']
    r = G.rng(PROP, 'replay', 0)
    ctx = Ctx(rec, r, 'quick')

    def rw(t):
        if isinstance(t, str):
            return {'+inf': Q.finf, '-inf': Q.fninf}[t]
        return (int(t[0]), unjson_int(t[1]), unjson_int(t[2]), int(t[3]))
    op, p = c['op'], c['prec']
    ins = [(rw(a), rw(b)) for a, b in c.get('inputs', [])]
    with O.IntervalStoreMonitor(mpmath.iv) as sm, O.PrimitiveTap() as tap:
        ctx.sm, ctx.tap = sm, tap
        iv = ctx.iv
        if op in ('add', 'sub', 'mul', 'div') and len(ins) == 2:
            x, y = ins
            X, Y = ctx.mk(*x), ctx.mk(*y)
            f = {'add': lambda: X + Y, 'sub': lambda: X - Y, 'mul': lambda: X * Y, 'div': lambda: X / Y}[op]
            orc = {'add': O.o_add, 'sub': O.o_sub, 'mul': O.o_mul, 'div': O.o_div}[op]
            pts = []
            for (k1, d1), (k2, d2) in O.sample_pairs(r, O.samples_1d(r, x[0], x[1], p), O.samples_1d(r, y[0], y[1], p), cap=30):
                if op == 'div' and d2[0] == 0:
                    continue
                pts.append((k1 + 'x' + k2, [fmt_d(d1), fmt_d(d2)], (lambda wp, d1=d1, d2=d2: orc(d1, d2))))
            run_checked(ctx, op, p, f, [x, y], pts, variant='replay')
        elif op in O.REAL_FUNS and len(ins) == 1:
            x = ins[0]
            X = ctx.mk(*x)
            if op in ('abs', 'neg', 'pos'):
                f = {'abs': lambda: abs(X), 'neg': lambda: -X, 'pos': lambda: +X}[op]
            else:
                f = lambda: getattr(iv, op)(X)
            orc = O.REAL_FUNS[op]
            pts = [(k, fmt_d(d), (lambda wp, d=d: orc(d))) for k, d in O.samples_1d(r, x[0], x[1], p, nrand=8)
                   if not (op == 'log' and d[0] <= 0) and not (op == 'sqrt' and d[0] < 0)]
            extra = (lambda parts: trig_extrema(x, op, p)) if op in ('sin', 'cos', 'tan') else None
            run_checked(ctx, op, p, f, [x], pts, extra_checks=extra, variant='replay')
        elif op == 'atan2' and len(ins) == 2:
            y, x = ins
            Y, X = ctx.mk(*y), ctx.mk(*x)
            pts = []
            for (k1, d1), (k2, d2) in O.sample_pairs(r, O.samples_1d(r, y[0], y[1], p), O.samples_1d(r, x[0], x[1], p), cap=30):
                if d1[0] == 0 and d2[0] == 0:
                    continue
                pts.append((k1 + 'x' + k2, [fmt_d(d1), fmt_d(d2)], (lambda wp, d1=d1, d2=d2: O.o_atan2(d1, d2))))
            run_checked(ctx, 'atan2', p, lambda: iv.atan2(Y, X), [y, x], pts, variant='replay')
        elif op in GAMMA_FUNS and len(ins) == 1:
            x = ins[0]
            X = ctx.mk(*x)
            cons = ctx.cons()
            pts = []
            for k, d in O.samples_1d(r, x[0], x[1], p, nrand=2):
                pts.append((k, fmt_d(d), gamma_enclosure(ctx, op, d)))
            run_checked(ctx, op, p, lambda: getattr(iv, op)(X), [x], pts, variant='replay', consensus_tier=True)
        else:
            rec.undecided('replay of %s cases re-runs the seeded shard instead' % op)
