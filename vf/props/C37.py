"""C37 -- the pure-Python and the gmpy backend give identical core results.

gmpy2 is not installed and cannot be; what runs is every line of mpmath's own ``BACKEND == 'gmpy'`` code on top of a
semantic shim (vf/gmpy2_shim.py) that is placed in sys.modules of a *child process* before mpmath is imported.
Each shard worker spawns two children (python backend / shim backend) that execute the same seeded operation stream
and print the raw results; the shard worker compares the two streams record by record.

Shards 0..11 compare python <-> gmpy2-flavoured shim (version 2.1.5: gmpy.bit_length, bit_scan1, isqrt, isqrt_rem),
shards 12..15 compare python <-> legacy-gmpy-flavoured shim (version 1.17: mpz.numdigits -> gmpy_bitcount, scan1,
sqrt, sqrtrem), so that both generations of mpmath's gmpy-conditional code are executed.
"""
import os, sys, json, math, time, hashlib, subprocess
from fractions import Fraction
from vf import exactq as Q
from vf import gens as G

PROP = 'C37'
LEVEL = 'exploration'
RULE = ('seeded stratified operation stream: operation (about 190 libmp / context routines) x rounding mode x precision '
        '(5..2500, weighted to the backend-dependent cutoffs 200/400/600 and their neighbours 199-201, 399-401, 599-601) x '
        'operand shape (gens: mantissa patterns, exponent gaps, ties, specials); a case is non-trivial when the operation '
        'returned a value (not the same exception type) in both backends and the value is not a special/zero; '
        'distinct = distinct (routine, arguments, precision, mode)')
ASSUMPTIONS = ['vf/gmpy2_shim.py implements the documented integer semantics of the gmpy2 / gmpy 1.x API used by mpmath '
               '(self-tested against Python int in every child before the stream starts)',
               'a bug inside the real gmpy2 C library, its optional _mpmath_normalize/_mpmath_create fast paths, or effects of '
               'gmpy2.mpz not being an int subclass cannot be seen',
               'both children execute the same operation stream (argument digests are compared record by record)']
SHARD_TIMEOUT = {'quick': 600, 'thorough': 3000}
LEVEL_TEXT = ('exploration: ~6.4*10^5 (quick) / ~6.4*10^6 (thorough) seeded operations executed in a python-backend process and '
              'in a shim-gmpy-backend process of the same working tree (BACKEND == "gmpy", mpf_mul is gmpy_mpf_mul, '
              'numeral is numeral_gmpy, gmpy cutoffs 400/200 asserted in the child); results compared bit for bit')
LEVEL_NOTE = ('trusted base: the shim stands in for gmpy2\'s C primitives (mpz as int subclass with exact Python integer '
              'semantics); a bug inside real gmpy2, or inside its C fast paths _mpmath_normalize/_mpmath_create which the shim '
              'does not define, cannot be seen. What is executed and compared is mpmath\'s own gmpy-conditional code '
              '(both the gmpy2 >= 2 and the legacy gmpy < 2 branches)')
TECHNIQUE = 'differential runtime monitor: identical seeded operation streams in two backend processes, stream comparison'

N_SHARDS = 16
LEGACY_SHARDS = (12, 13, 14, 15)
OPS_PER_SHARD = {'quick': 40000, 'thorough': 400000}
BATCH = 40000            # operations per pair of child processes (bounds memory; every batch starts from cold caches)
CHILD_TIMEOUT = {'quick': 500, 'thorough': 900}        # per batch
MODES = ('n', 'f', 'c', 'd', 'u')

# Routines that are *documented* as approximate and for which a difference between the backends was shown to be
# legitimate.  isqrt_fast (and sqrt_fixed = isqrt_fast(x << prec)): the python implementation is a division-free Newton
# iteration documented as "1 ulp too small with a roughly 0.1% probability", gmpy.isqrt is exact.  Decided exactly:
# every backend's value must be within 1 of floor(sqrt(x)).  Everything else is compared for strict equality.
RELAXED = {'isqrt_fast': 1, 'sqrt_fixed': 1}


# Elementary functions are not documented as correctly rounded: "relative error below 2^(4-p)", per part for
# exp/log/sin/cos/sinh/cosh, measured against the larger part for the other complex functions (statement of C12).
# The backends use different internal algorithms (EXP_COSH_CUTOFF, COS_SIN_CACHE_PREC, exact vs approximate isqrt), so
# results that sit closer to a p-bit number than the internal working precision resolves may legitimately come out one
# ulp apart (shown on the unchanged tree: tanh/sinh of tiny arguments, pow, agm, sin, tan, cos_pi ... under directed
# rounding).  Class EL therefore asserts agreement within the documented accuracy 2^(4-p); everything else is strict.
PER_PART = ('exp', 'log', 'sin', 'cos', 'sinh', 'cosh', 'cos_sin', 'cosh_sinh', 'expj', 'expjpi', 'cos_sin_pi', 'cos_pi', 'sin_pi')
EL_TOL_BITS = 4


class _P(object):
    """parser of the result encoding (numbers and nested tuples only)"""

    def __init__(self, s):
        self.s, self.i = s, 0

    def parse(self):
        s = self.s
        c = s[self.i]
        if c == '(':
            self.i += 1
            out = []
            if s[self.i] == ')':
                self.i += 1
                return out
            while True:
                out.append(self.parse())
                c = s[self.i]
                self.i += 1
                if c == ')':
                    return out
                if c != ',':
                    raise ValueError('bad list')
        if c in 'MCV':
            self.i += 1
            return self.parse()
        j = self.i
        while j < len(s) and s[j] not in ',)':
            j += 1
        tok = s[self.i:j]
        self.i = j
        if c == 'i':
            return int(tok[1:], 16)
        if c == 'b':
            return bool(int(tok[1:]))
        if tok == 'N':
            return None
        if c == 'd':
            return ('d', tok[1:])
        raise ValueError('token ' + tok[:20])


def _is_raw(t):
    return isinstance(t, list) and len(t) == 4 and all(isinstance(x, int) and not isinstance(x, bool) for x in t)


def _absfrac(t):
    s, m, e, b = t
    return Fraction(m << e) if e >= 0 else Fraction(m, 1 << -e)


def _val(t):
    v = _absfrac(t)
    return -v if t[0] else v


def tolerant_equal(f, p, va, vb):
    """(ok, worst difference in units of 2^-p relative).  ok: same shape, every real leaf within 2^(4-p) relative
    (complex pairs: of the larger part unless the routine is one of the per-part ones), specials identical."""
    try:
        A, B = _P(va).parse(), _P(vb).parse()
    except (ValueError, IndexError):
        return False, None
    base = f[2:] if f.startswith('X.') else f
    per_part = base.split('_', 1)[-1] in PER_PART or base.startswith('mpi_') or base.startswith('ctx_')
    worst = [0.0]

    def leaf(x, y, scale):
        if x == y:
            return True
        if not x[1] or not y[1]:
            return False                  # zero / special against something else
        if x[0] != y[0]:
            return False
        d = abs(_absfrac(x) - _absfrac(y))
        ref = scale if scale is not None else max(_absfrac(x), _absfrac(y))
        if ref > 10**9 * max(_absfrac(x), _absfrac(y)) or d == 0:
            pass
        u = d / ref * (1 << p)
        if u > worst[0]:
            worst[0] = float(u) if u < 10**300 else 1e300
        return u <= (1 << EL_TOL_BITS)

    def walk(x, y):
        if _is_raw(x) and _is_raw(y):
            return leaf(x, y, None)
        if isinstance(x, list) and isinstance(y, list):
            if len(x) != len(y):
                return False
            if len(x) == 2 and all(_is_raw(t) for t in x + y) and not per_part:
                big = max(_absfrac(t) if t[1] else Fraction(0) for t in x + y)
                if big == 0:
                    return x == y
                return all(leaf(a, b, big) for a, b in zip(x, y))
            return all(walk(a, b) for a, b in zip(x, y))
        return x == y
    ok = walk(A, B)
    return ok, worst[0]


def relaxed_verdict(f, args, va, vb):
    """exact decision for the routines in RELAXED: True (both within the documented accuracy) / False"""
    x = int(args[0][1], 16)
    if f == 'sqrt_fixed':
        x <<= int(args[1][1], 16)
    root = math.isqrt(x)
    for v in (va, vb):
        if not v.startswith('i'):
            return False
        if abs(int(v[1:], 16) - root) > RELAXED[f]:
            return False
    return True


def shards(tier, seed):
    return [{'n': OPS_PER_SHARD[tier], 'flavor': 'legacy' if i in LEGACY_SHARDS else 'gmpy2'} for i in range(N_SHARDS)]


# ---------------------------------------------------------------------------------------
# descriptor encoding (JSON-native, backend independent)
# ---------------------------------------------------------------------------------------
def eF(raw):
    s, m, e, b = raw
    if not m:
        return ['F', {Q.fzero: '0', Q.fnan: 'nan', Q.finf: '+inf', Q.fninf: '-inf'}[raw]]
    return ['F', s, '%x' % m, e]


def eI(n):
    return ['I', ('-%x' % -n) if n < 0 else '%x' % n]


def eZ(n):
    return ['Z', ('-%x' % -n) if n < 0 else '%x' % n]


def eC(a, b):
    return ['C', eF(a), eF(b)]


def eS(s):
    return ['S', s]


def eD(x):
    return ['D', x.hex()]


def eL(items):
    return ['L', items]


def eT(items):
    return ['T', items]


def eK(d):
    return ['K', d]       # keyword arguments (last element of the argument list)


# ---------------------------------------------------------------------------------------
# generation of the operation stream (pure Python; no mpmath)
# ---------------------------------------------------------------------------------------
PRECS_EDGE = [199, 200, 201, 399, 400, 401, 599, 600, 601]
PRECS_SMALL = [5, 6, 10, 15, 24, 53, 64, 100, 113]
PRECS_BIG = [1000, 1500, 2499, 2500]


def pick_prec(r, kind):
    x = r.random()
    if kind == 'EL':
        if x < 0.30:
            return r.randint(170, 620)
        if x < 0.50:
            return r.choice(PRECS_EDGE) - r.choice([0, 0, 10, 12, 15, 20, 25, 30])
        if x < 0.85:
            return r.choice(PRECS_SMALL)
        if x < 0.95:
            return r.randint(5, 170)
        return r.choice(PRECS_BIG)
    if x < 0.45:
        return r.choice(PRECS_SMALL)
    if x < 0.65:
        return r.choice(PRECS_EDGE)
    if x < 0.90:
        return r.randint(5, 700)
    return r.choice(PRECS_BIG)


def real(r, p, sign=None, lo=-40, hi=40, special=0.02, zero=0.02):
    """raw real with a moderate exponent (magnitude roughly 2^lo .. 2^hi)"""
    x = r.random()
    if x < special:
        return r.choice(G.SPECIALS[1:])
    if x < special + zero:
        return Q.fzero
    b = G.mant_bits(r, p)
    if b > 4 * p + 64:
        b = p + 3
    m = G.mantissa(r, b)
    top = r.randint(lo, hi)
    s = r.randint(0, 1) if sign is None else sign
    return Q.canon(s, m, top - b)


def unit_real(r, p, lim_exact=True):
    """|x| <= 1 (for asin/acos/atanh)"""
    b = max(1, min(G.mant_bits(r, p), 3 * p))
    m = G.mantissa(r, b)
    k = r.choice([0, 0, 0, 1, 2, 5, p // 2, p, 2 * p])
    if r.random() < 0.15:
        # close to 1: 1 - 2^-k
        m = (1 << (k + 1)) - 1
        return Q.canon(r.randint(0, 1), m, -(k + 1))
    return Q.canon(r.randint(0, 1), m, -b - k)


def decimal_literal(r, p):
    nd = r.choice([1, 2, 5, 15, 17, 30, max(1, int(p * 0.30103)), max(1, int(p * 0.30103)) + 2, 80])
    ds = ''.join(r.choice('0123456789') for _ in range(nd)) or '0'
    ex = r.choice([0, 0, 1, -1, 5, -5, 20, -20, 100, -100, 308, -324, 400, -400, 401, -401, 1000, -1000, 5000, -5000])
    form = r.randrange(6)
    sg = r.choice(['', '-', '+'])
    if form == 0:
        return sg + ds
    if form == 1 and nd > 1:
        k = r.randrange(1, nd)
        return sg + ds[:k] + '.' + ds[k:]
    if form == 2:
        return sg + ds + 'e' + str(ex)
    if form == 3 and nd > 1:
        k = r.randrange(1, nd)
        return sg + ds[:k] + '.' + ds[k:] + 'E' + ('%+d' % ex)
    if form == 4:
        return sg + '.' + ds + 'e' + str(ex)
    # exact decimal tie at precision p:  (2m+1) / 2^(p+1) is a terminating decimal
    m = (G.mantissa(r, max(2, min(p, 60))) << 1) | 1
    k = max(2, min(p, 60)) + 1
    q = Fraction(m, 1 << k)
    num = q.numerator * 5 ** k
    s = str(num).rjust(k + 1, '0')
    return sg + s[:-k] + '.' + s[-k:]


EL_REAL = ['mpf_exp', 'mpf_log', 'mpf_cos', 'mpf_sin', 'mpf_tan', 'mpf_cosh', 'mpf_sinh', 'mpf_tanh', 'mpf_atan',
           'mpf_asin', 'mpf_acos', 'mpf_asinh', 'mpf_acosh', 'mpf_atanh', 'mpf_cbrt', 'mpf_cos_pi', 'mpf_sin_pi',
           'mpf_cos_sin', 'mpf_cosh_sinh', 'mpf_cos_sin_pi', 'mpf_expj', 'mpf_expjpi', 'mpf_fibonacci']
EL_CPLX = ['mpc_exp', 'mpc_log', 'mpc_cos', 'mpc_sin', 'mpc_tan', 'mpc_cosh', 'mpc_sinh', 'mpc_tanh', 'mpc_atan',
           'mpc_asin', 'mpc_acos', 'mpc_asinh', 'mpc_acosh', 'mpc_atanh', 'mpc_cbrt', 'mpc_cos_pi', 'mpc_sin_pi',
           'mpc_cos_sin', 'mpc_expj', 'mpc_expjpi', 'mpc_arg', 'mpc_sqrt', 'mpc_abs']
CONSTS = ['mpf_pi', 'mpf_e', 'mpf_ln2', 'mpf_ln10', 'mpf_phi', 'mpf_euler', 'mpf_catalan', 'mpf_apery', 'mpf_khinchin',
          'mpf_degree', 'mpf_mertens', 'mpf_twinprime', 'mpf_glaisher']
CONSTS_FIXED = ['pi_fixed', 'e_fixed', 'ln2_fixed', 'ln10_fixed', 'phi_fixed', 'euler_fixed', 'catalan_fixed',
                'apery_fixed', 'degree_fixed']
SP_REAL = ['mpf_gamma', 'mpf_loggamma', 'mpf_rgamma', 'mpf_factorial', 'mpf_psi0', 'mpf_erf', 'mpf_erfc', 'mpf_ei', 'mpf_e1',
           'mpf_ci', 'mpf_si', 'mpf_ellipk', 'mpf_ellipe', 'mpf_agm1', 'mpf_zeta', 'mpf_altzeta', 'mpf_harmonic']
SP_CPLX = ['mpc_gamma', 'mpc_loggamma', 'mpc_ei', 'mpc_zeta', 'mpc_agm1', 'mpc_ellipk']
MPI_UN = ['mpi_sqrt', 'mpi_exp', 'mpi_log', 'mpi_cos', 'mpi_sin', 'mpi_tan', 'mpi_atan', 'mpi_abs', 'mpi_neg', 'mpi_pos',
          'mpi_mid', 'mpi_delta']
MPI_BIN = ['mpi_add', 'mpi_sub', 'mpi_mul', 'mpi_div', 'mpi_pow', 'mpi_atan2']
CTX_OPS = ['binop', 'cmp', 'hash', 'str', 'ctor_str', 'ctor_float', 'pickle', 'fsum', 'fdot', 'powi', 'conv', 'mag',
           'cplx', 'iv', 'nstr', 'misc']

# the cyclic schedule: (kind, weight).  kind names index the generator functions g_<kind>
SCHEDULE = (['arith'] * 10 + ['arith2'] * 4 + ['sqrt'] * 3 + ['powi'] * 3 + ['sum'] * 2 + ['conv'] * 6 + ['str'] * 6 +
            ['cmp'] * 3 + ['round'] * 3 + ['mpc'] * 5 + ['mpi'] * 3 + ['elr'] * 14 + ['elc'] * 6 + ['el2'] * 5 +
            ['const'] * 2 + ['int'] * 8 + ['sp'] * 2 + ['ctx'] * 12)


def g_arith(r, i):
    p = pick_prec(r, 'CR')
    rnd = MODES[i % 5]
    f = r.choice(['mpf_add', 'mpf_sub', 'mpf_mul', 'mpf_div', 'mpf_mul', 'mpf_mul'])
    gap = G.GAPS[(i // 5) % len(G.GAPS)]
    if f in ('mpf_mul', 'mpf_div') and gap in ('huge', 'astro') and r.random() < 0.5:
        gap = 'small'
    long_big = r.choice([p + 1, 2 * p, 3 * p + 7]) if r.random() < 0.2 else None
    a, b, _ = G.pair_with_gap(r, p, gap, long_big=long_big)
    if r.random() < 0.15:
        a = G.tie_value(r, p)
    if r.random() < 0.04:
        a = r.choice(G.SPECIALS)
    if r.random() < 0.04:
        b = r.choice(G.SPECIALS)
    prec = p
    if f != 'mpf_div' and r.random() < 0.08 and gap not in ('huge', 'astro'):
        prec = 0
    return 'CR', f, [eF(a), eF(b), eI(prec), eS(rnd)]


def g_arith2(r, i):
    p = pick_prec(r, 'CR')
    rnd = MODES[i % 5]
    f = r.choice(['mpf_mul_int', 'mpf_mul_int', 'mpf_rdiv_int', 'mpf_shift', 'mpf_pos', 'mpf_neg', 'mpf_abs', 'mpf_hypot',
                  'mpf_perturb', 'mpf_mod', 'mpf_frexp', 'mpf_sign'])
    a = G.raw_real(r, p, wild=(f not in ('mpf_mod', 'mpf_hypot')))
    n = r.choice([0, 1, -1, 2, 3, 10, -7, 255, 1023, 1024, 1025, -(1 << 40) + 1, (1 << r.randint(1, 300)) + r.choice([-1, 0, 1]),
                  r.getrandbits(r.choice([8, 30, 64, 200])) - 5])
    if f == 'mpf_mul_int':
        return 'CR', f, [eF(a), (eI if r.random() < 0.7 else eZ)(n), eI(p), eS(rnd)]
    if f == 'mpf_rdiv_int':
        return 'CR', f, [eI(n), eF(a), eI(p), eS(rnd)]
    if f == 'mpf_shift':
        return 'CR', f, [eF(a), eI(r.choice([0, 1, -1, 7, -300, 10**9, r.randint(-5000, 5000)]))]
    if f in ('mpf_pos', 'mpf_neg', 'mpf_abs'):
        return 'CR', f, [eF(a), eI(p if r.random() < 0.85 else 0), eS(rnd)]
    if f == 'mpf_hypot':
        return 'EL', f, [eF(a), eF(G.raw_real(r, p, wild=False)), eI(p), eS(rnd)]
    if f == 'mpf_perturb':
        return 'CR', f, [eF(a), eI(r.randint(0, 1)), eI(p), eS(rnd)]
    if f == 'mpf_mod':
        b = G.raw_real(r, p, wild=False, special=0.02, zero=0.01)
        return 'CR', f, [eF(a), eF(b), eI(p), eS(rnd)]
    return 'CR', f, [eF(a)]


def g_sqrt(r, i):
    p = pick_prec(r, 'CR')
    rnd = MODES[i % 5]
    if r.random() < 0.5:
        m = G.mantissa(r, r.choice([p, p + 1, max(1, p // 2), p + 3]))
        k = r.random()
        if k < 0.3:
            v = m * m
        elif k < 0.6:
            v = m * m + r.choice([-1, 1])
        else:
            h = (m << 1) | 1
            v = h * h + r.choice([-1, 0, 1]) * r.choice([1, 2, 1 << r.randint(0, p)])
        if v <= 0:
            v = m * m
        a = Q.canon(0, v, 2 * r.randint(-20, 20) + r.randint(0, 1))
    else:
        a = G.raw_real(r, p)
        if r.random() < 0.9 and a[1]:
            a = (0,) + a[1:]
    f = r.choice(['mpf_sqrt', 'mpf_sqrt', 'mpf_sqrt', 'mpf_nthroot', 'mpf_cbrt'])
    if f == 'mpf_nthroot':
        n = r.choice([1, 2, 2, 3, 4, 5, 7, 16, -1, -2, 50])
        return ('CR' if n in (1, 2) else 'EL'), f, [eF(a), eI(n), eI(p), eS(rnd)]
    return ('CR' if f == 'mpf_sqrt' else 'EL'), f, [eF(a), eI(p), eS(rnd)]


def g_powi(r, i):
    p = pick_prec(r, 'CR')
    rnd = MODES[i % 5]
    a = real(r, p, lo=-8, hi=8)
    n = r.choice([0, 1, 2, 3, -1, -2, 5, 10, -7, 17, 31, 64, 100, -100, 255, 1000, -1000, r.randint(-60, 60), r.randint(-3000, 3000)])
    if a[3] * abs(n) > 400000:
        n = r.randint(-9, 9)
    if r.random() < 0.25:
        z = eC(real(r, p, lo=-8, hi=8), real(r, p, lo=-8, hi=8))
        # large exponents go through exp(n log z): an elementary routine, not an exact one
        return 'EL', 'mpc_pow_int', [z, eI(n), eI(p), eS(rnd)]
    return 'CR', 'mpf_pow_int', [eF(a), eI(n), eI(p), eS(rnd)]


def g_sum(r, i):
    p = pick_prec(r, 'CR')
    rnd = MODES[i % 5]
    n = r.randint(0, 12)
    xs = [G.raw_real(r, p, wild=(r.random() < 0.1), special=0.01) for _ in range(n)]
    if xs and r.random() < 0.3:
        s, m, e, b = xs[0]
        if m:
            xs.append((1 - s, m, e, b))
    return 'CR', 'mpf_sum', [eL([eF(x) for x in xs]), eI(p if r.random() < 0.9 else 0), eS(rnd), ['B', r.random() < 0.3]]


def g_conv(r, i):
    p = pick_prec(r, 'CR')
    rnd = MODES[i % 5]
    f = r.choice(['from_int', 'from_man_exp', 'from_man_exp', 'from_float', 'to_float', 'from_rational', 'to_rational', 'to_int',
                  'to_fixed', 'to_man_exp', 'to_pickable', 'from_pickable', 'from_Decimal', 'normalize', 'normalize1', 'round_int'])
    n = r.choice([1, -1]) * (G.mantissa(r, G.mant_bits(r, p)) << r.choice([0, 0, 1, 7, 200]))
    if r.random() < 0.1:
        n = r.choice([0, 1, -1, 255, 256, 257, 1023, 1024, -1024])
    if f == 'from_int':
        return 'CR', f, [(eI if r.random() < 0.6 else eZ)(n), eI(p if r.random() < 0.85 else 0), eS(rnd)]
    if f == 'from_man_exp':
        e = r.choice([0, 1, -1, -p, 10**6, -10**18, r.randint(-3000, 3000)])
        pr = r.choice([p, p, p, 0, None])
        return 'CR', f, [(eI if r.random() < 0.5 else eZ)(n), eI(e), ['N'] if pr is None else eI(pr), eS(rnd)]
    if f == 'from_float':
        import struct
        x = struct.unpack('<d', struct.pack('<Q', r.getrandbits(64)))[0]
        if r.random() < 0.2:
            x = r.choice([0.0, -0.0, 1.0, 0.1, 5e-324, 2.2250738585072014e-308, 1.7976931348623157e308, float('inf'), -float('inf'), float('nan')])
        return 'CR', f, [eD(x), eI(p), eS(rnd)]
    a = G.raw_real(r, p, wild=(r.random() < 0.1))
    if f == 'to_float':
        e = r.choice([0, -1074, -1075, -1076, -1022, -1023, 1023, 1024, 970, r.randint(-1200, 1200)])
        b = G.mant_bits(r, 53)
        a = Q.canon(r.randint(0, 1), G.mantissa(r, b), e - r.choice([0, b, 52, 53]))
        if r.random() < 0.1:
            a = r.choice(G.SPECIALS)
        return 'CR', f, [eF(a), eK({'strict': r.random() < 0.3, 'rnd': rnd})]
    if f == 'from_rational':
        num = r.choice([1, -1]) * r.randint(0, 1 << r.choice([3, 20, 80, 300]))
        den = r.randint(1, 1 << r.choice([3, 20, 80, 300]))
        if r.random() < 0.3:
            m = (G.mantissa(r, max(2, p)) << 1) | 1
            num = m * den + r.choice([-1, 0, 1])
            den = den << (p + 1)
        return 'CR', f, [(eI if r.random() < 0.6 else eZ)(num), (eI if r.random() < 0.6 else eZ)(den), eI(p), eS(rnd)]
    if f in ('to_rational', 'to_man_exp', 'to_pickable'):
        a = G.raw_real(r, p, wild=False, special=0 if f != 'to_pickable' else 0.03)
        return 'CR', f, [eF(a)]
    if f == 'from_pickable':
        a = G.raw_real(r, p, wild=False, special=0.03)
        s, m, e, b = a
        return 'CR', f, [eT([eI(s), eS('%x' % m), eI(e), eI(b)])]
    if f == 'to_int':
        a = G.raw_real(r, p, wild=False)
        return 'CR', f, [eF(a), r.choice([['N'], eS(rnd)])]
    if f == 'to_fixed':
        a = G.raw_real(r, p, wild=False, special=0)
        return 'CR', f, [eF(a), eI(r.choice([0, 1, p, 2 * p, 53]))]
    if f == 'from_Decimal':
        return 'CR', f, [['DEC', decimal_literal(r, p)], r.choice([eI(p), ['N']]), eS(rnd)]
    if f == 'round_int':
        return 'CR', f, [eZ(abs(n) | 1), eI(r.randint(0, 64)), eS(rnd)]
    # normalize / normalize1 on a raw (sign, man, exp, bc) with a non-canonical mantissa
    man = abs(n) or 1
    if f == 'normalize1':
        man |= 1
    return 'CR', f, [eI(r.randint(0, 1)), eZ(man), eI(r.randint(-100, 100)), ['BC'], eI(p), eS(rnd)]


def g_str(r, i):
    p = pick_prec(r, 'CR')
    if p > 1000 and r.random() < 0.7:
        p = r.choice(PRECS_SMALL)
    rnd = MODES[i % 5]
    f = r.choice(['from_str', 'from_str', 'to_str', 'to_str', 'to_digits_exp', 'str_to_man_exp', 'to_bstr', 'from_bstr',
                  'mpc_to_str', 'mpi_from_str', 'mpi_to_str'])
    if f == 'from_str':
        s = decimal_literal(r, p)
        if r.random() < 0.05:
            s = r.choice(['inf', '-inf', 'nan', '+inf', '0', '-0', '0.0', '1e', '', 'abc', '1/3', '-7/9', '0x10', '1_0'])
        return 'CR', f, [eS(s), eI(p), eS(rnd)]
    a = G.raw_real(r, p, wild=False)
    if r.random() < 0.1 and a[1]:
        a = (a[0], a[1], r.choice([10**5, -10**5, 33219, -33220]), a[3])
    dps = r.choice([1, 2, 3, 5, 15, 17, 30, max(1, int(p * 0.30103)), max(1, int(p * 0.30103)) + 3, 100])
    if f == 'to_str':
        kw = {}
        if r.random() < 0.5:
            kw = {'strip_zeros': r.random() < 0.5, 'show_zero_exponent': r.random() < 0.3}
            if r.random() < 0.5:
                kw['min_fixed'] = r.choice([-5, -1, 0, -1000])
                kw['max_fixed'] = r.choice([5, 1, 20, 1000])
        return 'CR', f, [eF(a), eI(dps), eK(kw)]
    if f == 'to_digits_exp':
        if not a[1]:
            a = Q.canon(0, 5, -1)
        return 'CR', f, [eF(a), eI(dps)]
    if f == 'str_to_man_exp':
        s = decimal_literal(r, p)
        return 'CR', f, [eS(s), eI(10)]
    if f == 'to_bstr':
        a = G.raw_real(r, p, wild=False, special=0, zero=0)
        return 'CR', f, [eF(a)]
    if f == 'from_bstr':
        m = G.mantissa(r, G.mant_bits(r, min(p, 300)))
        return 'CR', f, [eS(r.choice(['', '-']) + bin(m)[2:] + 'e' + str(r.randint(-50, 50)))]
    if f == 'mpc_to_str':
        return 'CR', f, [eC(a, G.raw_real(r, p, wild=False)), eI(dps)]
    if f == 'mpi_from_str':
        s = decimal_literal(r, p)
        if s.startswith('+'):
            s = s[1:]
        return 'CR', f, [eS(s), eI(p)]
    b = G.raw_real(r, p, wild=False, special=0)
    lo, hi = sorted([a if a[1] or a == Q.fzero else Q.fzero, b], key=lambda t: Q.from_raw(t).fraction() if not Q.is_special(Q.from_raw(t)) else 0)
    return 'CR', f, [eT([eF(lo), eF(hi)]), eI(dps)]


def g_cmp(r, i):
    p = pick_prec(r, 'CR')
    f = r.choice(['mpf_hash', 'mpf_hash', 'mpf_cmp', 'mpf_eq', 'mpf_lt', 'mpf_le', 'mpf_gt', 'mpf_ge', 'mpc_hash', 'mpc_is_nonzero'])
    a = G.raw_real(r, p)
    if r.random() < 0.3:
        # integers and dyadic values whose hash goes through the modular reduction
        a = Q.canon(r.randint(0, 1), G.mantissa(r, r.choice([1, 5, 61, 62, 64, 122, 200])), r.choice([0, 1, 60, 61, 62, -1, -61, 122, -200, 10**6]))
    if f == 'mpf_hash':
        return 'CR', f, [eF(a)]
    if f in ('mpc_hash', 'mpc_is_nonzero'):
        return 'CR', f, [eC(a, G.raw_real(r, p))]
    b = G.raw_real(r, p)
    k = r.random()
    if k < 0.2:
        b = a
    elif k < 0.4 and a[1]:
        b = Q.canon(a[0], a[1] * 2 + r.choice([-1, 1]), a[2] - 1) if r.random() < 0.5 else (1 - a[0],) + a[1:]
    return 'CR', f, [eF(a), eF(b)]


def g_round(r, i):
    p = pick_prec(r, 'CR')
    rnd = MODES[i % 5]
    f = r.choice(['mpf_floor', 'mpf_ceil', 'mpf_nint', 'mpf_frac', 'mpc_floor', 'mpc_nint'])
    b = G.mant_bits(r, p)
    m = G.mantissa(r, b)
    a = Q.canon(r.randint(0, 1), m, r.choice([0, -1, -2, -b, -b + 1, -b - 1, -b // 2, 3, -1000, 1000]))
    if r.random() < 0.06:
        a = r.choice(G.SPECIALS)
    if f.startswith('mpc'):
        return 'CR', f, [eC(a, G.raw_real(r, p, wild=False)), eI(p), eS(rnd)]
    return 'CR', f, [eF(a), eI(p if r.random() < 0.8 else 0), eS(rnd)]


def g_mpc(r, i):
    p = pick_prec(r, 'CR')
    rnd = MODES[i % 5]
    f = r.choice(['mpc_add', 'mpc_sub', 'mpc_mul', 'mpc_mul', 'mpc_div', 'mpc_mul_mpf', 'mpc_mul_int', 'mpc_div_mpf', 'mpc_mpf_div',
                  'mpc_square', 'mpc_reciprocal', 'mpc_abs', 'mpc_mul_imag_mpf', 'mpc_add_mpf', 'mpc_shift', 'mpc_pos', 'mpc_neg',
                  'mpc_conjugate', 'mpc_to_complex'])
    z = (G.raw_real(r, p, wild=False), G.raw_real(r, p, wild=False))
    w = (G.raw_real(r, p, wild=False), G.raw_real(r, p, wild=False))
    if f in ('mpc_add', 'mpc_sub', 'mpc_mul', 'mpc_div'):
        return 'CR', f, [eC(*z), eC(*w), eI(p), eS(rnd)]
    if f in ('mpc_mul_mpf', 'mpc_div_mpf', 'mpc_mul_imag_mpf', 'mpc_add_mpf'):
        return 'CR', f, [eC(*z), eF(w[0]), eI(p), eS(rnd)]
    if f == 'mpc_mpf_div':
        return 'CR', f, [eF(w[0]), eC(*z), eI(p), eS(rnd)]
    if f == 'mpc_mul_int':
        return 'CR', f, [eC(*z), eI(r.choice([0, 1, -1, 3, -1000, 1 << 70])), eI(p), eS(rnd)]
    if f == 'mpc_shift':
        return 'CR', f, [eC(*z), eI(r.randint(-100, 100))]
    if f == 'mpc_to_complex':
        return 'CR', f, [eC(real(r, 53), real(r, 53)), eK({'rnd': rnd})]
    return ('EL' if f == 'mpc_abs' else 'CR'), f, [eC(*z), eI(p), eS(rnd)]


def interval(r, p, positive=False, lo=-20, hi=20):
    a = real(r, p, lo=lo, hi=hi, special=0.01)
    b = real(r, p, lo=lo, hi=hi, special=0.01)
    A, B = Q.from_raw(a), Q.from_raw(b)
    if Q.is_special(A) or Q.is_special(B):
        a, b = real(r, p, special=0, lo=lo, hi=hi), Q.finf
        if positive and a[0]:
            a = (0,) + a[1:]
        return eT([eF(a), eF(b)])
    if positive:
        A, B = Q.absx(A), Q.absx(B)
        a, b = (0,) + a[1:] if a[1] else a, (0,) + b[1:] if b[1] else b
    if Q.cmp(A, B) > 0:
        a, b = b, a
    if r.random() < 0.2:
        b = a
    return eT([eF(a), eF(b)])


def g_mpi(r, i):
    p = pick_prec(r, 'EL')
    if p > 700:
        p = r.choice(PRECS_SMALL)
    if r.random() < 0.6:
        f = r.choice(MPI_UN)
        pos = f in ('mpi_sqrt', 'mpi_log')
        big = 8 if f in ('mpi_exp',) else 20
        return ('CR' if f in ('mpi_sqrt', 'mpi_abs', 'mpi_neg', 'mpi_pos', 'mpi_mid', 'mpi_delta') else 'EL'), f, [interval(r, p, pos, -big, big), eI(p)]
    f = r.choice(MPI_BIN + ['mpi_pow_int'])
    if f == 'mpi_pow_int':
        return 'CR', f, [interval(r, p, lo=-6, hi=6), eI(r.randint(-12, 12)), eI(p)]
    if f == 'mpi_pow':
        return 'EL', f, [interval(r, p, True, -6, 6), interval(r, p, lo=-4, hi=4), eI(p)]
    return ('EL' if f == 'mpi_atan2' else 'CR'), f, [interval(r, p), interval(r, p), eI(p)]


def el_arg(r, p, f):
    """argument for a real elementary function, inside its real domain most of the time"""
    if f in ('mpf_asin', 'mpf_acos', 'mpf_atanh'):
        return unit_real(r, p)
    if f == 'mpf_acosh':
        x = real(r, p, sign=0, lo=1, hi=40, special=0.01, zero=0)
        if r.random() < 0.2:
            k = r.choice([1, 5, p // 2, p - 1, p + 3])
            x = Q.canon(0, (1 << k) + 1, -k)
        return x
    if f == 'mpf_log':
        x = real(r, p, sign=0, lo=-60, hi=60, special=0.02, zero=0.01)
        if r.random() < 0.25:
            k = r.choice([1, 3, p // 2, p - 1, p, 2 * p])
            x = Q.canon(0, (1 << k) + r.choice([-1, 1]), -k)
        return x
    if f in ('mpf_exp', 'mpf_cosh', 'mpf_sinh', 'mpf_tanh', 'mpf_cosh_sinh'):
        k = r.random()
        if k < 0.6:
            return real(r, p, lo=-10, hi=8)
        if k < 0.8:
            return real(r, p, lo=-2 * p - 10, hi=-10)
        return real(r, p, lo=8, hi=r.choice([12, 20, 40]))
    if f == 'mpf_fibonacci':
        if r.random() < 0.5:
            return Q.canon(0, r.randint(0, 400), 0) if r.random() < 0.9 else Q.canon(1, r.randint(1, 50), 0)
        return real(r, p, lo=-4, hi=7)
    if f in ('mpf_cos_pi', 'mpf_sin_pi', 'mpf_cos_sin_pi', 'mpf_expjpi'):
        if r.random() < 0.3:
            return Q.canon(r.randint(0, 1), r.randint(0, 4000), r.choice([0, -1, -2]))
        return real(r, p, lo=-p - 5, hi=30)
    k = r.random()
    if k < 0.55:
        return real(r, p, lo=-6, hi=6)
    if k < 0.75:
        return real(r, p, lo=-2 * p - 10, hi=-6)
    if k < 0.95:
        return real(r, p, lo=6, hi=60)
    return real(r, p, lo=60, hi=r.choice([100, 300, 1000]))


def g_elr(r, i):
    p = pick_prec(r, 'EL')
    rnd = MODES[i % 5]
    f = EL_REAL[(i // 5) % len(EL_REAL)]
    if r.random() < 0.25:
        f = r.choice(['mpf_exp', 'mpf_cos', 'mpf_sin', 'mpf_log', 'mpf_atan', 'mpf_cosh', 'mpf_tan'])
    if p > 1000 and r.random() < 0.5:
        p = r.randint(170, 620)
    return 'EL', f, [eF(el_arg(r, p, f)), eI(p), eS(rnd)]


def g_elc(r, i):
    p = pick_prec(r, 'EL')
    if p > 700 and r.random() < 0.7:
        p = r.randint(170, 620)
    rnd = MODES[i % 5]
    f = EL_CPLX[(i // 5) % len(EL_CPLX)]
    hi = 6 if f not in ('mpc_log', 'mpc_arg', 'mpc_sqrt', 'mpc_abs', 'mpc_cbrt', 'mpc_atan', 'mpc_asin', 'mpc_acos', 'mpc_asinh',
                        'mpc_acosh', 'mpc_atanh') else 40
    lo = r.choice([-6, -6, -p - 10, -40])
    z = (real(r, p, lo=lo, hi=hi), real(r, p, lo=r.choice([-6, -6, -p - 10]), hi=hi))
    cls = 'EL'
    return cls, f, [eC(*z), eI(p), eS(rnd)]


def g_el2(r, i):
    p = pick_prec(r, 'EL')
    if p > 700 and r.random() < 0.7:
        p = r.randint(170, 620)
    rnd = MODES[i % 5]
    f = r.choice(['mpf_pow', 'mpf_pow', 'mpf_atan2', 'mpf_log_hypot', 'mpc_pow', 'mpc_pow_mpf', 'mpc_nthroot', 'mpf_agm',
                  'log_int_fixed', 'agm_fixed'])
    if f == 'mpf_pow':
        a = real(r, p, sign=0 if r.random() < 0.9 else None, lo=-8, hi=8)
        b = real(r, p, lo=-8, hi=6)
        if r.random() < 0.3:
            b = Q.canon(r.randint(0, 1), r.choice([1, 3, 5, 7]), r.choice([-1, -2, 0, 1]))
        return 'EL', f, [eF(a), eF(b), eI(p), eS(rnd)]
    if f in ('mpf_atan2', 'mpf_log_hypot'):
        return 'EL', f, [eF(real(r, p, lo=-30, hi=30)), eF(real(r, p, lo=-30, hi=30)), eI(p), eS(rnd)]
    if f == 'mpf_agm':
        return 'EL', f, [eF(real(r, p, sign=0, lo=-20, hi=20)), eF(real(r, p, sign=0, lo=-20, hi=20)), eI(p), eS(rnd)]
    if f == 'mpc_pow':
        z = (real(r, p, lo=-5, hi=5), real(r, p, lo=-5, hi=5))
        w = (real(r, p, lo=-5, hi=3), real(r, p, lo=-5, hi=3))
        return 'EL', f, [eC(*z), eC(*w), eI(p), eS(rnd)]
    if f == 'mpc_pow_mpf':
        z = (real(r, p, lo=-5, hi=5), real(r, p, lo=-5, hi=5))
        return 'EL', f, [eC(*z), eF(real(r, p, lo=-5, hi=4)), eI(p), eS(rnd)]
    if f == 'mpc_nthroot':
        z = (real(r, p, lo=-10, hi=10), real(r, p, lo=-10, hi=10))
        return 'EL', f, [eC(*z), eI(r.choice([1, 2, 3, 4, 5, 7, -1, -2, 12])), eI(p), eS(rnd)]
    # internal fixed-point helpers without a documented accuracy (they use the approximate isqrt_fast): observed only
    if f == 'log_int_fixed':
        return 'NOTE', f, [eI(r.choice([2, 3, 5, 7, 10, 97, 1000, 2001, r.randint(2, 5000)])), eI(p)]
    a = G.mantissa(r, p) << r.randint(0, 5)
    b = G.mantissa(r, p) << r.randint(0, 5)
    return 'NOTE', f, [eZ(a), eZ(b), eI(p)]


def g_const(r, i):
    p = pick_prec(r, 'CR')
    rnd = MODES[i % 5]
    if r.random() < 0.3:
        # internal fixed-point constants (guard bits, no documented accuracy; pi_fixed uses the approximate isqrt_fast)
        f = r.choice(CONSTS_FIXED)
        return 'NOTE', f, [eI(p)]
    f = CONSTS[(i // 5) % len(CONSTS)]
    if f in ('mpf_glaisher', 'mpf_mertens', 'mpf_twinprime', 'mpf_khinchin') and p > 150:
        p = r.choice([15, 53, 64, 100, 113])
    return 'CONST', f, [eI(p), eS(rnd)]


def g_int(r, i):
    f = r.choice(['bitcount', 'bitcount', 'trailing', 'trailing', 'numeral', 'numeral', 'bin_to_radix', 'isqrt', 'isqrt_fast',
                  'isqrt_small', 'sqrtrem', 'sqrt_fixed', 'ifac', 'ifib', 'gcd', 'list_primes', 'isprime', 'moebius', 'bernfrac',
                  'eulernum', 'stirling1', 'stirling2', 'bctable', 'trailtable', 'int_cache'])
    bits = r.choice([0, 1, 2, 8, 9, 10, 11, 31, 32, 63, 64, 65, 299, 300, 301, 599, 600, 601, 800, 801, 1000, 5000, r.randint(1, 2000)])
    n = G.mantissa(r, bits) if bits else 0
    if r.random() < 0.3 and bits:
        n = (1 << bits) + r.choice([-1, 0, 1])
    enc = eZ if r.random() < 0.6 else eI
    if f == 'bitcount':
        return 'INT', f, [enc(n)]
    if f == 'trailing':
        t = r.choice([0, 0, 1, 7, 8, 9, 16, 63, 64, 200, 1000])
        return 'INT', f, [enc((n << t) * r.choice([1, 1, -1]))]
    if f == 'numeral':
        base = r.choice([10, 10, 10, 2, 16, 8, 3, 7, 36])
        from vf.gmpy2_shim import _digits
        d = len(_digits(n, base))
        size = r.choice([0, 0, d, d, d + 1, d - 1, d, 1, 249, 250, 251, 500, 3000])
        sg = r.choice([1, 1, 1, -1])
        # envelope: callers pass the digit count (to_digits_exp: dps, to_bstr: bitcount) or nothing; a size hint that
        # over-estimates makes numeral_python (only) pad with zeros -- observed, not asserted
        ok = size == 0 or abs(size - d) <= 1 or size < 250 and d < 250
        return ('INT' if ok else 'NOTE'), f, [enc(sg * n), eI(base), eI(size)]
    if f == 'bin_to_radix':
        xb = r.randint(0, 200)
        return 'INT', f, [enc(n), eI(xb), eI(r.choice([10, 10, 2, 16, 7])), eI(r.randint(0, 60))]
    if f in ('isqrt', 'isqrt_fast', 'sqrtrem'):
        k = r.random()
        if k < 0.3 and n:
            n = n * n + r.choice([-1, 0, 1, 2 * n, 2 * n + 1])
        return 'INT', f, [enc(abs(n))]
    if f == 'isqrt_small':
        n = r.getrandbits(r.choice([1, 10, 50, 64, 100, 200, 400]))
        if r.random() < 0.3:
            m = r.getrandbits(r.choice([5, 25, 50, 100]))
            n = m * m + r.choice([-1, 0, 1]) if m else 0
        return 'INT', f, [enc(abs(n))]
    if f == 'sqrt_fixed':
        return 'INT', f, [enc(n), eI(r.choice([10, 53, 100, 333]))]
    if f == 'ifac':
        return 'INT', f, [eI(r.choice([0, 1, 2, 10, 20, 21, 50, 100, 150, 151, 200, 500, r.randint(0, 700)]))]
    if f == 'ifib':
        return 'INT', f, [eI(r.choice([0, 1, 2, 10, 100, 1000, r.randint(0, 3000)]))]
    if f == 'gcd':
        g = G.mantissa(r, r.randint(1, 80))
        return 'INT', f, [enc(g * G.mantissa(r, r.randint(1, 100))), enc(g * G.mantissa(r, r.randint(1, 100)))]
    if f == 'list_primes':
        return 'INT', f, [eI(r.choice([0, 1, 2, 3, 10, 100, 1000, r.randint(0, 3000)]))]
    if f == 'isprime':
        return 'INT', f, [enc(r.choice([0, 1, 2, 3, 4, 561, 1105, 7919, 2**31 - 1, 2**61 - 1, 3215031751, 341550071728321,
                                        r.getrandbits(40) | 1, r.getrandbits(64) | 1]))]
    if f == 'moebius':
        return 'INT', f, [eI(r.choice([1, 2, 4, 6, 30, 12, 2310, r.randint(1, 10**6)]))]
    if f == 'bernfrac':
        return 'INT', f, [eI(r.choice([0, 1, 2, 3, 4, 12, 50, 100, 2 * r.randint(0, 150)]))]
    if f == 'eulernum':
        return 'INT', f, [eI(r.choice([0, 1, 2, 4, 10, 20, 50, 2 * r.randint(0, 60)]))]
    if f in ('stirling1', 'stirling2'):
        nn = r.randint(0, 40)
        return 'INT', f, [eI(nn), eI(r.randint(0, nn + 1))]
    return 'INT', 'X.' + f, []


def g_sp(r, i):
    p = r.choice([15, 53, 64, 100, 113, 200, 333, 400, 601])
    rnd = MODES[i % 5]
    if r.random() < 0.7:
        f = SP_REAL[(i // 5) % len(SP_REAL)]
        pos = f in ('mpf_ellipk', 'mpf_ellipe', 'mpf_agm1', 'mpf_ci', 'mpf_e1')
        a = real(r, p, sign=0 if pos else None, lo=-4, hi=5, special=0, zero=0)
        if f in ('mpf_ellipk', 'mpf_ellipe'):
            a = unit_real(r, p)
        if f == 'mpf_zeta' and r.random() < 0.4:
            a = Q.canon(0, r.randint(2, 60), 0)
        if r.random() < 0.15:
            a = Q.canon(r.randint(0, 1), r.randint(1, 300), r.choice([0, -1]))
        return ('EL' if f == 'mpf_agm1' else 'SP'), f, [eF(a), eI(p), eS(rnd)]
    f = SP_CPLX[(i // 5) % len(SP_CPLX)]
    if p > 200:
        p = r.choice([53, 100, 200])
    return ('EL' if f == 'mpc_agm1' else 'SP'), f, [eC(real(r, p, lo=-3, hi=5, special=0), real(r, p, lo=-3, hi=5, special=0)), eI(p), eS(rnd)]


def g_ctx(r, i):
    """context-level scenarios, executed by X.ctx_<name>"""
    p = pick_prec(r, 'CR')
    if p > 1000:
        p = r.choice(PRECS_EDGE)
    rnd = MODES[i % 5]
    name = CTX_OPS[(i // 5) % len(CTX_OPS)]
    a = G.raw_real(r, p, wild=False)
    b = G.raw_real(r, p, wild=False)
    n = r.choice([0, 1, -1, 2, 3, 7, -12, 255, 1 << 64, -(1 << 200) + 1, r.getrandbits(70) - (1 << 69)])
    import struct
    x = struct.unpack('<d', struct.pack('<Q', r.getrandbits(64)))[0]
    if x != x or x in (float('inf'), -float('inf')) or r.random() < 0.3:
        x = r.choice([0.5, -0.1, 1e300, 3.0, 1e-320, float('inf'), 2.5])
    if name == 'binop':
        op = r.choice(['+', '-', '*', '/', '%', '**', 'r+', 'r-', 'r*', 'r/', 'r**', 'r%'])
        other = r.choice([eF(b), eI(n), eD(x), eC(b, a), ['PC', x, 1.5]])
        if '**' in op:
            a = real(r, p, lo=-4, hi=4)
            other = r.choice([eI(r.randint(-20, 20)), eF(real(r, p, lo=-3, hi=3)), eD(r.choice([0.5, 2.0, -1.5, 0.25])), ['Q', r.randint(-9, 9), r.randint(1, 9)]])
        if '%' in op:
            other = r.choice([eF(real(r, p, lo=-8, hi=8, special=0)), eI(r.choice([1, 2, 3, 7, -5, 1000])), eD(0.75)])
            a = real(r, p, lo=-30, hi=60)
        return 'CR' if '**' not in op else 'EL', 'X.ctx_binop', [eS(op), eF(a), other, eI(p)]
    if name == 'cmp':
        op = r.choice(['==', '!=', '<', '<=', '>', '>='])
        other = r.choice([eF(b), eF(a), eI(n), eD(x), ['Q', r.randint(-9, 9), r.randint(1, 9)]])
        if r.random() < 0.3:
            a = Q.canon(1 if n < 0 else 0, abs(n), 0)
            other = eI(n + r.choice([0, 0, 1, -1]))
        return 'CR', 'X.ctx_cmp', [eS(op), eF(a), other, eI(p)]
    if name == 'hash':
        if r.random() < 0.4:
            a = Q.canon(1 if n < 0 else 0, abs(n), r.choice([0, 0, 1, -1, 61, -3]))
        return 'CR', 'X.ctx_hash', [eF(a), eF(b if r.random() < 0.5 else Q.fzero)]
    if name in ('str', 'nstr'):
        return 'CR', 'X.ctx_str', [eF(a), eF(b), eI(p), eI(r.choice([1, 2, 5, 15, 17, 30, 50]))]
    if name == 'ctor_str':
        return 'CR', 'X.ctx_ctor', [eS(decimal_literal(r, p) if r.random() < 0.85 else r.choice(['1/3', '-7/9', 'inf', 'nan', '(1+2j)', '1.5j', '2 + 3j'])), eI(p), eS(rnd)]
    if name == 'ctor_float':
        return 'CR', 'X.ctx_ctor', [r.choice([eD(x), eI(n), ['Q', n, r.randint(1, 99)], eT([eI(n), eI(r.randint(-80, 80))])]), eI(p), eS(rnd)]
    if name == 'pickle':
        return 'CR', 'X.ctx_pickle', [eF(a), eF(b), eI(r.choice([0, 1, 2]))]
    if name in ('fsum', 'fdot'):
        k = r.randint(0, 8)
        xs = [r.choice([eF(G.raw_real(r, p, wild=False, special=0.01)), eI(r.randint(-100, 100)), eD(r.choice([0.5, -0.1, 3.0, 1e10]))]) for _ in range(k)]
        ys = [eF(G.raw_real(r, p, wild=False, special=0.01)) for _ in range(k)]
        return 'CR', 'X.ctx_' + name, [eL(xs), eL(ys), eI(p), eK({'absolute': r.random() < 0.2, 'squared': r.random() < 0.2} if name == 'fsum' else {})]
    if name == 'powi':
        return 'EL', 'X.ctx_powi', [eF(real(r, p, lo=-6, hi=6)), eI(r.randint(-40, 40)), eI(p)]
    if name == 'conv':
        return 'CR', 'X.ctx_conv', [eF(real(r, p, lo=-80, hi=80, special=0.03)), eI(p)]
    if name == 'mag':
        return 'CR', 'X.ctx_mag', [eF(a), eF(b), eI(p)]
    if name == 'cplx':
        op = r.choice(['+', '-', '*', '/', 'abs', 'sqrt', '**'])
        z = eC(real(r, p, lo=-10, hi=10), real(r, p, lo=-10, hi=10))
        w = r.choice([eC(real(r, p, lo=-10, hi=10), real(r, p, lo=-10, hi=10)), eI(r.randint(-9, 9)), eD(0.5), ['PC', 1.0, -2.0]])
        if op == '**':
            w = eI(r.randint(-12, 12))
        return ('CR' if op not in ('sqrt', '**') else 'EL'), 'X.ctx_cplx', [eS(op), z, w, eI(p)]
    if name == 'iv':
        op = r.choice(['+', '-', '*', '/', 'sqrt', 'exp', 'in', 'str'])
        return ('EL' if op == 'exp' else 'CR'), 'X.ctx_iv', [eS(op), interval(r, p, op == 'sqrt', -10, 10), interval(r, p, lo=-10, hi=10), eI(p)]
    # misc
    op = r.choice(['ldexp', 'frexp', 'floor', 'ceil', 'nint', 'frac', 'isint', 'sign', 'int', 'float', 'round', 'almosteq', 'sqrt',
                   'mpmathify', 'nint_distance', 'fraction'])
    return 'CR', 'X.ctx_misc', [eS(op), eF(real(r, p, lo=-70, hi=70, special=0.04)), eI(r.randint(-50, 50)), eI(p), eS(rnd)]


GEN = {'arith': g_arith, 'arith2': g_arith2, 'sqrt': g_sqrt, 'powi': g_powi, 'sum': g_sum, 'conv': g_conv, 'str': g_str,
       'cmp': g_cmp, 'round': g_round, 'mpc': g_mpc, 'mpi': g_mpi, 'elr': g_elr, 'elc': g_elc, 'el2': g_el2, 'const': g_const,
       'int': g_int, 'sp': g_sp, 'ctx': g_ctx}


def fixed_ops(shard_index):
    """deterministic, seed-independent extras: the backend-dependent tables, zero arguments, and (once per flavour) the
    recursive branch of numeral that needs size >= 1.5 million digits"""
    ops = []
    for f in ('bctable', 'trailtable', 'int_cache', 'powers', 'backend'):
        ops.append(('INT', 'X.' + f, []))
    for n in (0, 1, 2, 255, 256, 1023, 1024):
        for enc in (eI, eZ):
            ops.append(('INT', 'bitcount', [enc(n)]))
            ops.append(('INT', 'trailing', [enc(n)]))
            ops.append(('INT', 'numeral', [enc(n), eI(10), eI(0)]))
            ops.append(('INT', 'numeral', [enc(-n), eI(2), eI(0)]))
    for p in (399, 400, 401, 599, 600, 601, 199, 200, 201):
        for d in (0, 10, 14, 20):
            for f in ('mpf_exp', 'mpf_cos', 'mpf_sin', 'mpf_cosh'):
                ops.append(('EL', f, [eF(Q.canon(0, 0xb504f333f9de6484597d89b3754abe9f, -127)), eI(p - d), eS('n')]))
    if shard_index in (0, LEGACY_SHARDS[0]):
        ops.append(('INT', 'X.bignumeral', [eI(1500003), eI(750010), eI(1500004)]))
        ops.append(('NOTE', 'numeral', [eI(12345), eI(10), eI(1500000)]))
    return ops


def gen_ops(seed, shard_index, n, batch=0):
    """the operation stream of one batch of a shard: list of (cls, fname, encoded args)"""
    r = G.rng(PROP, seed, shard_index if not batch else '%d.%d' % (shard_index, batch))
    ops = fixed_ops(shard_index) if not batch else []
    L = len(SCHEDULE)
    off = shard_index * 7
    count = {}
    for i in range(n):
        kind = SCHEDULE[(i + off) % L]
        c = count.get(kind, shard_index)
        count[kind] = c + 1
        ops.append(GEN[kind](r, c))
    return ops


def digest(op):
    return hashlib.blake2b(json.dumps(op, sort_keys=True).encode(), digest_size=6).hexdigest()


# ---------------------------------------------------------------------------------------
# child process: executes a stream under one backend
# ---------------------------------------------------------------------------------------
class _Timeout(Exception):
    pass


def child_main(argv):
    flavor, spec_path = argv[0], argv[1]
    spec = json.load(open(spec_path))
    repo = os.environ.get('VERIF_REPO', '/repo')
    sys.path[:] = [p for p in sys.path if os.path.abspath(p or '.') != repo]
    sys.path.insert(0, repo)
    try:
        sys.set_int_max_str_digits(0)
    except AttributeError:
        pass
    assert 'mpmath' not in sys.modules
    if flavor == 'python':
        os.environ['MPMATH_NOGMPY'] = '1'
    else:
        os.environ.pop('MPMATH_NOGMPY', None)
        from vf import gmpy2_shim
        bad = gmpy2_shim.selftest(300)
        assert bad == 0, 'shim selftest failed'
        gmpy2_shim.install(flavor)
    os.environ.pop('MPMATH_STRICT', None)
    import mpmath
    assert os.path.abspath(mpmath.__file__).startswith(os.path.abspath(repo) + os.sep), mpmath.__file__
    from mpmath import libmp
    LI, LF, LE = libmp.libintmath, libmp.libmpf, libmp.libelefun
    out = sys.stdout
    if flavor == 'python':
        assert libmp.BACKEND == 'python' and libmp.MPZ is int and LF.mpf_mul is LF.python_mpf_mul
        assert LI.numeral is LI.numeral_python and LI.bitcount is LI.python_bitcount
    else:
        assert libmp.BACKEND == 'gmpy', libmp.BACKEND
        assert LF.mpf_mul is LF.gmpy_mpf_mul and LF.mpf_mul_int is LF.gmpy_mpf_mul_int
        assert LI.numeral is LI.numeral_gmpy and LI.trailing is LI.gmpy_trailing
        assert type(libmp.MPZ(1) + 1) is libmp.MPZ_TYPE and libmp.MPZ_TYPE is not int
        assert LI.ifac is libmp.backend.gmpy.fac
        if flavor == 'gmpy2':
            assert LI.bitcount is libmp.backend.gmpy.bit_length and LI.isqrt is libmp.backend.gmpy.isqrt
        else:
            assert LI.bitcount is LI.gmpy_bitcount and LI.isqrt is libmp.backend.gmpy.sqrt
    out.write('#BACKEND %s %s cutoffs %s %s\n' % (flavor, libmp.BACKEND, getattr(LE, 'EXP_COSH_CUTOFF', None),
                                                  getattr(LE, 'COS_SIN_CACHE_PREC', None)))
    if 'single' in spec:
        ops = [tuple(spec['single'])]
    else:
        ops = gen_ops(spec['seed'], spec['shard'], spec['n'], spec.get('batch', 0))
    ex = Executor(mpmath, libmp)
    import signal

    def on_alarm(sig, frm):
        raise _Timeout()
    signal.signal(signal.SIGALRM, on_alarm)
    cap = 20 if spec.get('tier') == 'quick' else 60
    for idx, op in enumerate(ops):
        cls, f, args = op
        signal.setitimer(signal.ITIMER_REAL, 300 if f == 'X.bignumeral' else cap)
        try:
            try:
                res = ex.run(f, args)
                enc = ex.enc(res)
            finally:
                signal.setitimer(signal.ITIMER_REAL, 0)
        except _Timeout:
            enc = 'TIMEOUT'
        except MemoryError:
            enc = 'TIMEOUT'
        except (Exception, RecursionError) as e:
            enc = 'E:' + type(e).__name__
        if len(enc) > 1500:
            enc = 'H%d:%s' % (len(enc), hashlib.blake2b(enc.encode(), digest_size=12).hexdigest())
        out.write('%d\t%s\t%s\n' % (idx, digest(op), enc))
    out.write('#END %d\n' % len(ops))
    out.flush()


class Executor(object):
    def __init__(self, mpmath, libmp):
        self.mpmath, self.L = mpmath, libmp
        self.MPZ = libmp.MPZ
        self.mp = mpmath.mp
        self.iv = mpmath.iv
        self.mods = [libmp, libmp.libintmath, libmp.libmpf, libmp.libelefun, libmp.libmpc, libmp.libmpi, libmp.gammazeta,
                     libmp.libhyper]

    # -- decoding ------------------------------------------------------------------
    def dec(self, a):
        t = a[0]
        if t == 'F':
            if len(a) == 2:
                return {'0': self.L.fzero, 'nan': self.L.fnan, '+inf': self.L.finf, '-inf': self.L.fninf}[a[1]]
            m = int(a[2], 16)
            return (a[1], self.MPZ(m), a[3], m.bit_length())
        if t == 'I':
            return int(a[1], 16)
        if t == 'Z':
            return self.MPZ(int(a[1], 16))
        if t == 'C':
            return (self.dec(a[1]), self.dec(a[2]))
        if t == 'S':
            return a[1]
        if t == 'D':
            return float.fromhex(a[1])
        if t == 'L':
            return [self.dec(x) for x in a[1]]
        if t == 'T':
            return tuple(self.dec(x) for x in a[1])
        if t == 'B':
            return bool(a[1])
        if t == 'N':
            return None
        if t == 'Q':
            return Fraction(a[1], a[2])
        if t == 'PC':
            return complex(a[1], a[2])
        if t == 'DEC':
            import decimal
            return decimal.Decimal(a[1])
        raise ValueError(t)

    # -- encoding ------------------------------------------------------------------
    def enc(self, v):
        if v is None:
            return 'N'
        if v is True:
            return 'b1'
        if v is False:
            return 'b0'
        if isinstance(v, int):
            return 'i%x' % v if v >= 0 else 'i-%x' % -v
        if isinstance(v, float):
            return 'd' + (v.hex() if v == v else 'nan')
        if isinstance(v, complex):
            return 'z' + self.enc(v.real) + ',' + self.enc(v.imag)
        if isinstance(v, str):
            return 's' + v
        if isinstance(v, bytes):
            return 'y' + v.hex()
        if isinstance(v, (tuple, list)):
            return '(' + ','.join(self.enc(x) for x in v) + ')'
        if isinstance(v, Fraction):
            return 'q%d/%d' % (v.numerator, v.denominator)
        if hasattr(v, '_mpf_'):
            return 'M' + self.enc(v._mpf_)
        if hasattr(v, '_mpc_'):
            return 'C' + self.enc(v._mpc_)
        if hasattr(v, '_mpi_'):
            return 'V' + self.enc(v._mpi_)
        if hasattr(v, '_mpq_'):
            return 'Q' + self.enc(v._mpq_)
        if isinstance(v, dict):
            return '{' + ','.join(self.enc(k) + ':' + self.enc(x) for k, x in sorted(v.items())) + '}'
        return 'o' + type(v).__name__

    # -- execution -----------------------------------------------------------------
    def run(self, f, args):
        kw = {}
        dargs = []
        for a in args:
            if a[0] == 'K':
                kw = dict(a[1])
            elif a[0] == 'BC':
                dargs.append(int(dargs[1]).bit_length())
            else:
                dargs.append(self.dec(a))
        if f.startswith('X.'):
            return getattr(self, 'x_' + f[2:])(*dargs, **kw)
        fn = None
        for m in self.mods:
            fn = getattr(m, f, None)
            if fn is not None:
                break
        if fn is None:
            raise SystemExit('harness error: routine %s does not exist in this tree' % f)
        return fn(*dargs, **kw)

    # tables ------------------------------------------------------------------------
    def x_bctable(self):
        return list(self.L.libintmath.bctable)

    def x_trailtable(self):
        return list(self.L.libintmath.trailtable)

    def x_powers(self):
        return len(self.L.libintmath.powers)

    def x_int_cache(self):
        return [self.L.libmpf.int_cache[k] for k in sorted(self.L.libmpf.int_cache)]

    def x_backend(self):
        L = self.L
        return [L.fzero, L.fone, L.fhalf, L.ftwo, L.fnone, L.ften, L.finf, L.fninf, L.fnan, L.mpf_pi(53), L.mpf_e(53)]

    def x_bignumeral(self, k1, k2, size):
        Z = self.MPZ
        n = Z(7) * Z(10) ** k1 + Z(3) * Z(10) ** k2 + 12345
        return self.L.libintmath.numeral(n, 10, size)

    # context-level -----------------------------------------------------------------
    def _mk(self, v):
        mp = self.mp
        if isinstance(v, tuple) and len(v) == 4:
            return mp.make_mpf(v)
        if isinstance(v, tuple) and len(v) == 2 and isinstance(v[0], tuple):
            return mp.make_mpc(v)
        return v

    def _with_prec(self, p, fn):
        mp = self.mp
        old = mp.prec
        mp.prec = p
        try:
            return fn()
        finally:
            mp.prec = old

    def x_ctx_binop(self, op, a, other, p):
        x, y = self._mk(a), self._mk(other)
        if op[0] == 'r':
            x, y = y, x
            op = op[1:]
        import operator
        fn = {'+': operator.add, '-': operator.sub, '*': operator.mul, '/': operator.truediv, '%': operator.mod,
              '**': operator.pow}[op]
        return self._with_prec(p, lambda: fn(x, y))

    def x_ctx_cmp(self, op, a, other, p):
        import operator
        x, y = self._mk(a), self._mk(other)
        fn = {'==': operator.eq, '!=': operator.ne, '<': operator.lt, '<=': operator.le, '>': operator.gt, '>=': operator.ge}[op]
        return self._with_prec(p, lambda: (fn(x, y), fn(y, x)))

    def x_ctx_hash(self, a, b):
        x = self._mk(a)
        z = self.mp.make_mpc((a, b))
        return (hash(x), hash(z))

    def x_ctx_str(self, a, b, p, n):
        mp = self.mp
        x = self._mk(a)
        z = mp.make_mpc((a, b))
        return self._with_prec(p, lambda: (str(x), repr(x), mp.nstr(x, n), mp.nstr(z, n), repr(z), mp.nstr(x, n, min_fixed=-3, max_fixed=3),
                                           mp.mpf(str(x))._mpf_ if x == x and abs(x) != mp.inf else None, mp.mpf(repr(x)[5:-2])._mpf_ if repr(x).startswith("mpf('") else None))

    def x_ctx_ctor(self, v, p, rnd):
        mp = self.mp
        a = mp.mpf(v, prec=p, rounding=rnd) if not (isinstance(v, str) and 'j' in v) else None
        return self._with_prec(p, lambda: (a, mp.convert(v) if not isinstance(v, tuple) else None, mp.mpmathify(v) if not isinstance(v, tuple) else None))

    def x_ctx_pickle(self, a, b, proto):
        import pickle
        mp = self.mp
        x, z = self._mk(a), mp.make_mpc((a, b))
        s1, s2 = pickle.dumps(x, proto), pickle.dumps(z, proto)
        import copy
        return (s1, s2, pickle.loads(s1), pickle.loads(s2), copy.copy(x), copy.deepcopy(z), x.__getstate__() if hasattr(x, '__getstate__') else None)

    def x_ctx_fsum(self, xs, ys, p, absolute=False, squared=False):
        mp = self.mp
        xs = [self._mk(x) for x in xs]
        return self._with_prec(p, lambda: mp.fsum(xs, absolute=absolute, squared=squared))

    def x_ctx_fdot(self, xs, ys, p):
        mp = self.mp
        xs = [self._mk(x) for x in xs]
        ys = [self._mk(y) for y in ys]
        return self._with_prec(p, lambda: (mp.fdot(xs, ys), mp.fprod(xs)))

    def x_ctx_powi(self, a, n, p):
        mp = self.mp
        x = self._mk(a)
        return self._with_prec(p, lambda: (x ** n, mp.power(x, n), mp.root(x, n) if n > 0 and x >= 0 else None, mp.ldexp(x, n)))

    def x_ctx_conv(self, a, p):
        mp = self.mp
        x = self._mk(a)

        def f():
            out = [float(x), complex(x)]
            for g in (int, math.floor, math.ceil, round, math.trunc):
                try:
                    out.append(g(x))
                except (ValueError, OverflowError, TypeError) as e:
                    out.append('E:' + type(e).__name__)
            out.append(mp.mpf(float(x)))
            out.append(x.man_exp if x.man or x == 0 else None)
            out.append(mp.to_fixed(x, 30) if x.man or x == 0 else None)
            return out
        return self._with_prec(p, f)

    def x_ctx_mag(self, a, b, p):
        mp = self.mp
        x, z = self._mk(a), mp.make_mpc((a, b))
        return self._with_prec(p, lambda: (mp.mag(x), mp.mag(z), mp.isnormal(x), mp.isint(x), mp.isinf(x), mp.isnan(x), mp.frexp(x) if x.man else None,
                                           mp.nint_distance(x) if x.man else None, mp.sign(x), x.bc, x.exp))

    def x_ctx_cplx(self, op, z, w, p):
        mp = self.mp
        z, w = self._mk(z), self._mk(w)

        def f():
            if op == '+': return (z + w, w + z)
            if op == '-': return (z - w, w - z)
            if op == '*': return (z * w, w * z)
            if op == '/': return (z / w, w / z)
            if op == 'abs': return (abs(z), z.conjugate(), -z, +z, mp.arg(z))
            if op == 'sqrt': return (mp.sqrt(z), mp.exp(z), mp.log(z))
            return (z ** w,)
        return self._with_prec(p, f)

    def x_ctx_iv(self, op, a, b, p):
        iv = self.iv
        old = iv.prec
        iv.prec = p
        try:
            x = iv.make_mpf(a)
            y = iv.make_mpf(b)
            if op == '+': return x + y
            if op == '-': return x - y
            if op == '*': return x * y
            if op == '/': return x / y
            if op == 'sqrt': return iv.sqrt(x)
            if op == 'exp': return iv.exp(x)
            if op == 'in': return (x in y, x == y, x < y, x <= y, x.mid, x.delta, x.a, x.b)
            return (str(x), repr(x), iv.nstr(x, 10))
        finally:
            iv.prec = old

    def x_ctx_misc(self, op, a, n, p, rnd):
        mp = self.mp
        x = self._mk(a)

        def f():
            if op == 'ldexp': return mp.ldexp(x, n)
            if op == 'frexp': return mp.frexp(x)
            if op == 'floor': return (mp.floor(x), mp.floor(x, prec=p, rounding=rnd))
            if op == 'ceil': return (mp.ceil(x), mp.ceil(x, prec=10, rounding=rnd))
            if op == 'nint': return mp.nint(x)
            if op == 'frac': return mp.frac(x)
            if op == 'isint': return (mp.isint(x), mp.isint(n))
            if op == 'sign': return mp.sign(x)
            if op == 'int': return int(x)
            if op == 'float': return (float(x), mp.mpf(float(x)) == x)
            if op == 'round': return round(x, n % 6)
            if op == 'almosteq': return mp.almosteq(x, x + mp.ldexp(x, -p + 2))
            if op == 'sqrt': return (mp.sqrt(x, prec=p, rounding=rnd), mp.fmul(x, n, rounding=rnd), mp.fdiv(x, n or 1, rounding=rnd),
                                     mp.fadd(x, n, rounding=rnd, prec=p // 2 + 1), mp.fsub(x, n, exact=True), mp.fneg(x, rounding=rnd, prec=5))
            if op == 'mpmathify': return (mp.mpmathify(n), mp.mpf(n) * x, mp.mpf(n) + x, n * x, n + x, x / (n or 3), (n or 3) / x if x else None)
            if op == 'nint_distance': return mp.nint_distance(x)
            if op == 'fraction': return (mp.mpf(Fraction(n, 7)), x + Fraction(n, 7), mp.mpf(n) / 7 == Fraction(n, 7))
        return self._with_prec(p, f)


# ---------------------------------------------------------------------------------------
# shard worker: spawn both children, compare the streams
# ---------------------------------------------------------------------------------------
def spawn_children(spec, flavors, timeout, repo=None):
    """run one child per flavour concurrently; returns {flavor: (status, lines, stderr_tail)}"""
    import tempfile, threading
    fd, path = tempfile.mkstemp(prefix='vf-C37-', suffix='.spec.json')
    os.write(fd, json.dumps(spec).encode())
    os.close(fd)
    root = os.path.dirname(os.path.dirname(os.path.dirname(os.path.abspath(__file__))))
    res = {}

    def one(flavor):
        env = dict(os.environ)
        env['PYTHONPATH'] = root
        env['PYTHONHASHSEED'] = '0'
        env['PYTHONDONTWRITEBYTECODE'] = '1'
        env.pop('MPMATH_STRICT', None)
        if repo:
            env['VERIF_REPO'] = repo
        if flavor == 'python':
            env['MPMATH_NOGMPY'] = '1'
        else:
            env.pop('MPMATH_NOGMPY', None)
        try:
            p = subprocess.run([sys.executable, '-m', 'vf.props.C37', 'child', flavor, path], env=env, cwd=root,
                               stdout=subprocess.PIPE, stderr=subprocess.PIPE, timeout=timeout)
            st = 'ok' if p.returncode == 0 else 'crash'
            out, err = p.stdout, p.stderr
        except subprocess.TimeoutExpired as e:
            st, out, err = 'timeout', e.stdout or b'', e.stderr or b''
        res[flavor] = (st, out.decode(errors='replace').splitlines(), err.decode(errors='replace')[-3000:])
    ths = [threading.Thread(target=one, args=(f,)) for f in flavors]
    for t in ths:
        t.start()
    for t in ths:
        t.join()
    try:
        os.unlink(path)
    except OSError:
        pass
    return res


def parse_stream(lines):
    head, recs, end = None, {}, None
    for ln in lines:
        if ln.startswith('#BACKEND'):
            head = ln
        elif ln.startswith('#END'):
            end = int(ln.split()[1])
        elif ln and ln[0].isdigit():
            parts = ln.split('\t', 2)
            if len(parts) == 3:
                recs[int(parts[0])] = (parts[1], parts[2])
    return head, recs, end


def trivial_result(enc):
    return enc.startswith('E:') or enc in ('N', 'TIMEOUT')


def mech_key(cls, f, args):
    """mechanism key of a divergence: the routine (for context scenarios the scenario and operator)"""
    name = f[2:] if f.startswith('X.') else f
    if f.startswith('X.ctx_') and args and args[0][0] == 'S' and f in ('X.ctx_binop', 'X.ctx_cmp', 'X.ctx_cplx', 'X.ctx_iv', 'X.ctx_misc'):
        name += '[%s]' % args[0][1].lstrip('r')
    group = {'NOTE': 'note', 'CR': 'exact-or-correctly-rounded', 'EL': 'elementary', 'INT': 'integer', 'CONST': 'constant', 'SP': 'special'}[cls]
    return 'C37/%s/%s' % (group, name)


def compare(rec, ops, a_flavor, b_flavor, sa, sb, case_extra):
    """compare two parsed streams record by record"""
    ha, ra, ea = sa
    hb, rb, eb = sb
    n_cmp = 0
    for idx, op in enumerate(ops):
        cls, f, args = op
        if idx not in ra or idx not in rb:
            continue
        (da, va), (db, vb) = ra[idx], rb[idx]
        dg = digest(op)
        if da != dg or db != dg:
            raise RuntimeError('harness error: operation streams out of step at record %d' % idx)
        n_cmp += 1
        prec = None
        for a in args:
            if a[0] == 'I':
                prec = a[1]
        ident = (f, dg)
        nontrivial = not trivial_result(va) and not trivial_result(vb) and cls not in ('SP', 'NOTE')
        rec.case(ident, nontrivial, cls='%s/%s' % (cls, f[2:] if f.startswith('X.') else f))
        if idx % 997 == 0:
            rec.sample({'routine': f, 'args': args, a_flavor: va[:120], b_flavor: vb[:120]})
        if va == 'TIMEOUT' or vb == 'TIMEOUT':
            rec.undecided('per-operation time cap reached in a child', {'routine': f, 'args': args})
            continue
        if va == vb:
            continue
        case = {'op': [cls, f, args], 'flavors': [a_flavor, b_flavor]}
        case.update(case_extra)
        if cls == 'NOTE':
            rec.note('differences outside the asserted envelope', {'routine': f, 'args': args, a_flavor: va[:80], b_flavor: vb[:80]})
            continue
        if cls == 'SP':
            rec.undecided('special-function results differ between backends (outside the property: observed only)', case)
            rec.note('special-function differences', {'routine': f, 'args': args, a_flavor: va[:200], b_flavor: vb[:200]})
            continue
        if f in RELAXED:
            if relaxed_verdict(f, args, va, vb):
                rec.cls('legitimate difference within documented accuracy/' + f)
                continue
        if cls == 'EL' and not va.startswith('E:') and not vb.startswith('E:'):
            pr = None
            for a in args:
                if a[0] == 'I':
                    pr = int(a[1], 16)
            ok, worst = tolerant_equal(f, pr or 1, va, vb)
            if worst is not None:
                rec.maximum('largest difference between backends, elementary routines (units of 2^-p relative)', worst,
                            {'routine': f, 'args': args, a_flavor: va[:160], b_flavor: vb[:160]})
            if ok:
                rec.cls('legitimate difference within documented accuracy 2^(4-p)/' + (f[2:] if f.startswith('X.') else f))
                rec.event('elementary results differing within the documented accuracy', 1)
                continue
        what = '%s: %s backend and %s backend return different results' % (f, a_flavor, b_flavor)
        rec.violation(mech_key(cls, f, args) + ('' if b_flavor == 'gmpy2' else '/legacy-gmpy'), what, case, observed={b_flavor: vb[:400]}, expected={a_flavor: va[:400]})
    return n_cmp


def run_pair(rec, spec, flavor, ops, timeout, case_extra):
    res = spawn_children(spec, ['python', flavor], timeout, repo=os.environ.get('VERIF_REPO'))
    streams = {}
    for fl, (st, lines, err) in res.items():
        head, recs, end = parse_stream(lines)
        streams[fl] = (head, recs, end)
        rec.event('child %s: records produced' % fl, len(recs))
        if st == 'crash' or head is None:
            raise RuntimeError('child %s failed (%s):\n%s' % (fl, st, err))
        if st == 'timeout' or end is None:
            rec.undecided('child %s stopped by its wall-clock cap after %d of %d records' % (fl, len(recs), len(ops)))
        rec.note('child header', head, cap=4)
        if fl != 'python' and ' gmpy ' not in head:
            raise RuntimeError('shim child did not run the gmpy backend: ' + head)
        if fl == 'python' and ' python python ' not in head:
            raise RuntimeError('python child did not run the python backend: ' + head)
    n = compare(rec, ops, 'python', flavor, streams['python'], streams[flavor], case_extra)
    rec.event('records compared python <-> %s' % flavor, n)
    return n


def run_shard(shard, rec):
    flavor = shard['flavor']
    left, b = shard['n'], 0
    while left > 0:
        n = min(left, BATCH)
        spec = {'seed': shard['seed'], 'shard': shard['shard'], 'n': n, 'tier': shard['tier'], 'batch': b}
        ops = gen_ops(shard['seed'], shard['shard'], n, b)
        run_pair(rec, spec, flavor, ops, CHILD_TIMEOUT[shard['tier']], {})
        left -= n
        b += 1
    rec.event('shim flavour ' + flavor, 1)


def required(agg, tier):
    miss = []
    ev = agg['events']
    if not ev.get('records compared python <-> gmpy2'):
        miss.append('no record compared between python and gmpy2-flavoured backend')
    if not ev.get('records compared python <-> legacy'):
        miss.append('no record compared between python and legacy-gmpy-flavoured backend')
    for need in ('CR/mpf_mul', 'CR/mpf_add', 'CR/mpf_div', 'CR/mpf_sqrt', 'CR/mpf_pow_int', 'CR/from_str', 'CR/to_str', 'CR/mpf_hash',
                 'CR/mpf_cmp', 'CR/to_float', 'CR/from_float', 'CR/mpf_mul_int', 'EL/mpf_exp', 'EL/mpf_cos', 'EL/mpf_log', 'EL/mpc_exp',
                 'CONST/mpf_pi', 'INT/bitcount', 'INT/trailing', 'INT/numeral', 'INT/isqrt', 'INT/sqrtrem', 'INT/ifac', 'INT/bignumeral',
                 'CR/ctx_hash', 'CR/ctx_pickle'):
        if not agg['classes'].get(need):
            miss.append('routine class %s never compared' % need)
    return miss


def replay(case, rec):
    c = case['case']
    cls, f, args = c['op']
    flavor = c['flavors'][1]
    op = (cls, f, args)
    spec = {'single': [cls, f, args], 'tier': 'thorough'}
    run_pair(rec, spec, flavor, [op], 600, {})


if __name__ == '__main__':
    if len(sys.argv) >= 4 and sys.argv[1] == 'child':
        child_main(sys.argv[2:])
    else:
        print('usage: python -m vf.props.C37 child <python|gmpy2|legacy> <spec.json>')
        sys.exit(2)
