"""C34 -- ODE solutions are accurate and independent of evaluation order.

Observed: values of the interpolant returned by odefun for ODE families with closed-form solutions.  Each case runs the
same ODE three times from scratch: a scout run (to learn the recorded series_boundaries from the closure), an in-order
run A and a history run B in which the same (point, caller precision) plan is evaluated in random order, with repeats,
exactly at segment boundaries and at x0, with mp.prec changed between evaluations.
Oracle: B must reproduce A bit for bit at equal (point, caller precision) -- raw tuple equality; all values of A must agree
with the closed form (reference release at 2p+200 bits, exactly transferred dyadic parameters) within the requested
tolerance."""
import math
from fractions import Fraction as Fr
from vf import gens as G
from vf.builderM import fr, mk, hexq, unhexq, at_prec, dyadic, flo

PROP = 'C34'
LEVEL = 'exploration'
NEEDS_REF = True
RULE = ('seeded stratified generation: ODE family (y\'=ay, oscillator, y\'=+-y^2, triangular linear system, y\'=cos(ax), y\'=axy, '
        'polynomial right-hand side, y\'=-2xy^2 from x0=0) x tolerance (default / user) x degree (auto / user) x precision 30..200 x evaluation history; '
        'a case is one (ODE, plan) pair; non-trivial when the history run evaluated at least one point out of order or after a precision '
        'change and the comparison with the in-order run was made; distinct = distinct (family, parameters, options, precision, plan)')
ASSUMPTIONS = ['the reference release (mpmath 1.3.0) at 2p+200 bits evaluates exp/sin/cos of exactly transferred arguments with relative '
               'error < 2^-(2p+100); closed forms are compositions of these',
               'tolerance asserted: |y - Y| <= (tau + 2^(1-q)) * max(1, ||Y||_inf) with tau = 2^(10-p) by default or the tol passed, q the '
               'caller precision of the evaluation (final rounding); p = precision at creation',
               'envelope: x in [x0, x0+X], X <= 10, |a| <= 2; y\'=y^2 only up to 3/4 of the way to the pole; a user degree is at least '
               'tol_prec/6 (otherwise thousands of segments are needed: cost, not correctness)',
               'segment boundaries are read from the closure of the returned function (series_boundaries); if the name disappears the '
               'boundary queries are skipped and the run reports it']
LEVEL_TEXT = ('exploration: ~5.8*10^2 (quick) / ~3.5*10^3 (thorough) ODE problems, each solved three times; ~10 points per problem compared bit '
              'for bit between evaluation histories and against the closed form')
LEVEL_NOTE = 'ODEs and histories not generated are not covered; closed forms rely on the reference release at high precision'
TECHNIQUE = 'history check on the live object (differential run against an in-order run) + closed-form reference monitor'
SHARD_TIMEOUT = {'quick': 1800, 'thorough': 7200}

NSHARDS = 16
COUNTS = {'quick': 36, 'thorough': 220}
FAMS = ['exp', 'osc', 'ysq', 'ysqm', 'tri', 'cosx', 'xy', 'poly', 'rat']
PRECS_Q = [30, 40, 53, 64, 80, 100, 113]
PRECS_T = [30, 40, 53, 64, 80, 100, 113, 150, 200]


def shards(tier, seed):
    return [{'n': COUNTS[tier]} for _ in range(NSHARDS)]


def _mp():
    import mpmath
    return mpmath.mp


def _ref():
    from vf import refmodel
    return refmodel.ref().mp


# -----------------------------------------------------------------------------------------------------
def build(mp, spec):
    """(F, y0) for the tree"""
    a, b, c, y0, x0 = [mk(mp, unhexq(spec[k])) for k in ('a', 'b', 'c', 'y0', 'x0')]
    fam = spec['fam']
    if fam == 'exp':
        return (lambda x, y: a * y), y0
    if fam == 'osc':
        w2 = a * a
        return (lambda x, y: [y[1], -w2 * y[0]]), [y0, b]
    if fam == 'ysq':
        return (lambda x, y: y * y), y0
    if fam == 'ysqm':
        return (lambda x, y: -y * y), y0
    if fam == 'tri':
        return (lambda x, y: [a * y[0] + b * y[1], c * y[1]]), [y0, mp.one]
    if fam == 'cosx':
        return (lambda x, y: mp.cos(a * x)), y0
    if fam == 'xy':
        return (lambda x, y: a * x * y), y0
    if fam == 'poly':
        return (lambda x, y: 3 * x * x + b), y0
    if fam == 'rat':
        return (lambda x, y: -2 * x * y * y), y0
    raise ValueError(fam)


def exact(M, spec, xq):
    """closed form at the exact dyadic point xq, evaluated in library M at its current precision -> list"""
    a, b, c, y0, x0 = [mk(M, unhexq(spec[k])) for k in ('a', 'b', 'c', 'y0', 'x0')]
    x = mk(M, xq)
    t = x - x0
    fam = spec['fam']
    if fam == 'exp':
        return [y0 * M.exp(a * t)]
    if fam == 'osc':
        w = abs(a)
        return [y0 * M.cos(w * t) + b / w * M.sin(w * t), -y0 * w * M.sin(w * t) + b * M.cos(w * t)]
    if fam == 'ysq':
        return [1 / (1 / y0 - t)]
    if fam == 'ysqm':
        return [1 / (1 / y0 + t)]
    if fam == 'tri':
        ea, ec = M.exp(a * t), M.exp(c * t)
        return [y0 * ea + b * (ec - ea) / (c - a), ec]
    if fam == 'cosx':
        return [y0 + (M.sin(a * x) - M.sin(a * x0)) / a]
    if fam == 'xy':
        return [y0 * M.exp(a * (x * x - x0 * x0) / 2)]
    if fam == 'poly':
        return [y0 + x ** 3 - x0 ** 3 + b * t]
    if fam == 'rat':
        return [1 / (1 / y0 + x * x)]           # x0 = 0: an even solution (every odd Taylor coefficient vanishes)
    raise ValueError(fam)


def gen_case(r, i, tier):
    fam = FAMS[i % len(FAMS)]
    precs = PRECS_Q if tier == 'quick' else PRECS_T
    p = precs[(i // len(FAMS)) % len(precs)] if r.random() < 0.75 else r.randint(30, 120)
    a = dyadic(r, -2, 2, 8)
    if a == 0:
        a = Fr(3, 4)
    b = dyadic(r, -2, 2, 8)
    c = dyadic(r, -2, 2, 8)
    if c == a:
        c = a + Fr(1, 2)
    y0 = dyadic(r, Fr(1, 8), 3, 64)
    x0 = dyadic(r, -2, 2, 8)
    X = Fr(r.choice([1, 3, 10]))
    if fam == 'rat':
        x0 = Fr(0)
        X = min(X, Fr(3))
    if fam == 'ysq':
        X = min(X, Fr(int(Fr(3, 4) / y0 * 64), 64))        # at most 3/4 of the way to the pole, on the dyadic grid
    opt = (i // (len(FAMS) * 2)) % 4
    tolk = None
    degree = None
    if opt in (1, 3):
        tolk = r.choice([10, 20, max(12, p // 2), p])
    if opt in (2, 3):
        degree = max(4, ((tolk + 10) if tolk else p + 10) // r.choice([3, 4, 6]))
    npts = r.randint(3, 6)
    pts = sorted(set(dyadic(r, 0, X, 64) for _ in range(npts)))
    return {'fam': fam, 'p': p, 'a': hexq(a), 'b': hexq(b), 'c': hexq(c), 'y0': hexq(y0), 'x0': hexq(x0), 'X': hexq(X),
            'tolk': tolk, 'degree': degree, 'pts': [hexq(x0 + t) for t in pts], 'hseed': r.getrandbits(48)}


def closure_var(f, name, depth=0):
    """look a free variable up in the closure of f (and of the functions it closes over)"""
    code = getattr(f, '__code__', None)
    cl = getattr(f, '__closure__', None) or ()
    if code is None:
        return None
    inner = []
    for nm, cell in zip(code.co_freevars, cl):
        try:
            v = cell.cell_contents
        except ValueError:
            continue
        if nm == name:
            return v
        if callable(v) and getattr(v, '__closure__', None):
            inner.append(v)
    if depth < 2:
        for v in inner:
            got = closure_var(v, name, depth + 1)
            if got is not None:
                return got
    return None


def _raw(v):
    if isinstance(v, list):
        return tuple(tuple(u._mpf_) for u in v)
    return (tuple(v._mpf_),)


def _make(mp, spec):
    p = spec['p']
    with at_prec(mp, p):
        F, y0 = build(mp, spec)
        kw = {}
        if spec['tolk'] is not None:
            kw['tol'] = mk(mp, Fr(1, 1 << spec['tolk']))
        if spec['degree'] is not None:
            kw['degree'] = spec['degree']
        return mp.odefun(F, mk(mp, unhexq(spec['x0'])), y0, **kw)


def _eval(mp, f, xraw, q):
    with at_prec(mp, q):
        return f(mp.make_mpf(xraw))


def run_case(mp, rec, spec):
    import random
    p = spec['p']
    x0 = unhexq(spec['x0'])
    X = unhexq(spec['X'])
    fam = spec['fam']
    ident = ('ode', fam, p, spec['a'], spec['b'], spec['c'], spec['y0'], spec['x0'], spec['tolk'], spec['degree'],
             tuple(spec['pts']), spec['hseed'])
    h = random.Random(spec['hseed'])
    try:
        # scout run: learn the segment boundaries
        fS = _make(mp, spec)
        _eval(mp, fS, mk(mp, x0 + X)._mpf_, p)
    except Exception as e:
        rec.case(ident, False, cls='%s/raised:%s' % (fam, type(e).__name__))
        rec.violation('C34/raised/%s' % type(e).__name__, 'odefun raised on a problem with a closed-form solution inside the envelope', spec,
                      observed='%s: %s' % (type(e).__name__, str(e)[:100]))
        return
    bounds = closure_var(fS, 'series_boundaries')
    plan = []       # (raw x, caller precision, label)
    for s in spec['pts']:
        plan.append((mk(mp, unhexq(s))._mpf_, p, 'interior'))
    plan.append((mk(mp, x0)._mpf_, p, 'x0'))
    xmax = mk(mp, x0 + X)
    if bounds is not None and len(bounds) > 2:
        rec.event('segment boundaries read from the closure')
        inner = [b for b in list(bounds)[1:-1] if b <= xmax]
        for b in h.sample(inner, min(3, len(inner))):
            plan.append((tuple(b._mpf_), p, 'boundary'))
            with at_prec(mp, p):
                nb = [mp.mpf(b, rounding='d'), mp.mpf(b, rounding='u')]
            for v in nb:
                if v >= mk(mp, x0):
                    plan.append((tuple(v._mpf_), p, 'near-boundary'))
    elif bounds is None:
        rec.event('series_boundaries not found in the closure (boundary queries skipped)')
    else:
        rec.event('single segment: no interior boundary')
    # evaluations at other caller precisions (the far point first, so that in B segments get built under a foreign precision)
    others = [q for q in (30, p + 37, max(30, p - 11), 2 * p) if q != p]
    far = max(plan, key=lambda t: mp.make_mpf(t[0]))
    far_entry = (far[0], h.choice(others), 'far@other-prec')
    for t in h.sample(plan, min(2, len(plan))):
        plan.append((t[0], h.choice(others), t[2] + '@other-prec'))
    plan.append(far_entry)
    # run A: in order
    keyf = lambda t: (mp.make_mpf(t[0]), t[1])
    order_a = sorted(set(plan), key=keyf)
    try:
        fA = _make(mp, spec)
        A = {}
        for xr, q, lab in order_a:
            A[(xr, q)] = _raw(_eval(mp, fA, xr, q))
        # run B: history
        fB = _make(mp, spec)
        seq = [far_entry]
        body = []
        for t in set(plan):
            body.extend([t] * h.choice([1, 1, 2, 3]))
        h.shuffle(body)
        seq.extend(body)
        seq.append((mk(mp, x0)._mpf_, p, 'x0'))          # x0 again after every segment exists
        Bvals = []
        for xr, q, lab in seq:
            if h.random() < 0.3:
                mp.prec = h.choice([30, 53, 200, p + 64])      # caller changes the precision between evaluations
            Bvals.append(((xr, q, lab), _raw(_eval(mp, fB, xr, q))))
    except Exception as e:
        rec.case(ident, False, cls='%s/raised:%s' % (fam, type(e).__name__))
        rec.violation('C34/raised/%s' % type(e).__name__, 'the interpolant raised for x >= x0 inside the envelope', spec,
                      observed='%s: %s' % (type(e).__name__, str(e)[:100]))
        return
    finally:
        mp.prec = 53
    rec.case(ident, True, cls='%s/%s/%s' % (fam, 'tol' if spec['tolk'] else 'deftol', 'deg' if spec['degree'] else 'autodeg'))
    rec.event('histories replayed')
    # ---- order independence ---------------------------------------------------------------------------
    seen_prec_change = False
    for idx, ((xr, q, lab), val) in enumerate(Bvals):
        rec.event('order-independence comparisons (bitwise)')
        if 'boundary' == lab:
            rec.event('queries exactly at a recorded segment boundary')
        if lab == 'x0' and idx > 0:
            rec.event('x0 re-queried after later segments exist')
        if q != p:
            seen_prec_change = True
            rec.event('evaluations at a caller precision different from the creation precision')
        if val != A[(xr, q)]:
            where = lab.split('@')[0]
            key = 'C34/order-dependence/%s/%s' % (where, 'other-caller-prec' if q != p else
                                                   ('after-prec-change' if seen_prec_change else 'same-prec'))
            rec.violation(key, 'odefun interpolant: value depends on the evaluation history (differs from the in-order run at the same '
                          'point and caller precision)', dict(spec, at=list(xr), q=q, step=idx),
                          observed=[list(t) for t in val], expected=[list(t) for t in A[(xr, q)]])
            break
    # ---- accuracy -----------------------------------------------------------------------------------------
    rmp = _ref()
    tau = Fr(1, 1 << spec['tolk']) if spec['tolk'] is not None else Fr(2) ** (10 - p)
    for (xr, q), val in A.items():
        xq = fr(mp.make_mpf(xr))
        try:
            with at_prec(rmp, 2 * max(p, q) + 200):
                V = [fr(v) for v in exact(rmp, spec, xq)]
        except Exception as e:
            rec.undecided('closed form not evaluable: %s' % type(e).__name__, spec)
            continue
        got = [fr(mp.make_mpf(t)) for t in val]
        nrm = max(1, max(abs(v) for v in V))
        err = max(abs(g - v) for g, v in zip(got, V))
        bound = (tau + Fr(2) ** (1 - q)) * nrm
        rec.event('values compared with the closed form')
        ratio = err / bound
        rec.maximum('odefun error / tolerance', round(flo(ratio), 6), {'fam': fam, 'p': p, 'q': q, 'x': flo(xq), 'tolk': spec['tolk']})
        guard = Fr(1, 1 << 20)
        if ratio > 1 + guard:
            where = 'x0' if xq == x0 else 'x>x0'
            key = 'C34/accuracy/%s/%s' % (where, 'user-tol' if spec['tolk'] else 'default-tol')
            # mechanism (read from the live object): the step-size rule looks at the LAST Taylor coefficient only.  If on the way
            # to x a segment is (A) exactly 1/2 long with all last coefficients zero (rule skipped), or (B) more than twice as long
            # as the next-to-last coefficient allows under the same rule, the last coefficient was lost / vanishes by parity
            try:
                sd = closure_var(fA, 'series_data')
                xv = mp.make_mpf(xr)
                tolp = (spec['tolk'] + 10) if spec['tolk'] is not None else p + 10
                hit = False
                with at_prec(mp, 64):
                    for (ser, sxa, sxb) in (sd or []):
                        if not sxa <= xv or fam == 'poly':
                            continue
                        n = len(ser[0]) - 1
                        used = sxb - sxa
                        if used == 0.5 and all(not ts[-1] for ts in ser):
                            hit = True
                        alts = [mp.nthroot(mp.ldexp(1, -tolp) / abs(ts[n - 1]), n - 1) / 2 for ts in ser if n > 1 and ts[n - 1]]
                        if alts and used > 2 * min(alts):
                            hit = True
                if hit:
                    key = 'C34/accuracy/step-size-rule-vanishing-last-coefficient'
            except Exception:
                pass
            rec.violation(key,
                          'odefun value differs from the closed-form solution by more than the requested tolerance',
                          dict(spec, at=list(xr), q=q), observed={'err_over_tol': flo(ratio), 'value': [flo(g) for g in got]},
                          expected=[flo(v) for v in V], severity=round(math.log2(flo(ratio)), 1))
        elif ratio > 1 - guard:
            rec.undecided('error within the guard band of the tolerance', spec)
    rec.sample({'fam': fam, 'p': p, 'plan': len(plan), 'history': len(Bvals), 'boundaries': None if bounds is None else len(bounds)})


CASE_CPU_CAP = {'quick': 30.0, 'thorough': 90.0}     # seconds of CPU time (ITIMER_VIRTUAL: independent of the machine load); a normal case needs < 10 s


class _CpuCap(BaseException):
    pass


def _on_cap(sig, frm):
    raise _CpuCap()


def run_shard(shard, rec):
    import signal
    mp = _mp()
    r = G.rng(PROP, shard['seed'], shard['shard'])
    from vf.instrument import AnchorCount
    k = shard['shard']
    signal.signal(signal.SIGVTALRM, _on_cap)
    with AnchorCount(rec, ['mpmath.calculus.odes:ode_taylor', 'mpmath.calculus.odes:odefun']):
        for i in range(shard['n']):
            spec = gen_case(r, i * NSHARDS + k, shard['tier'])
            mp.prec = 53
            cap = CASE_CPU_CAP.get(shard.get('tier'), 90.0)
            signal.setitimer(signal.ITIMER_VIRTUAL, cap)
            try:
                run_case(mp, rec, spec)
            except _CpuCap:
                rec.case(('capped', spec['fam'], spec['p'], spec['hseed']), False, cls='%s/cpu-cap' % spec['fam'])
                rec.undecided('case exceeded the CPU cap of %d s (no verdict; a normal case needs < 10 s)' % cap, spec)
            finally:
                signal.setitimer(signal.ITIMER_VIRTUAL, 0)
                mp.prec = 53


def required(agg, tier):
    miss = []
    ev = agg['events']
    for name in ('histories replayed', 'order-independence comparisons (bitwise)', 'queries exactly at a recorded segment boundary',
                 'x0 re-queried after later segments exist', 'evaluations at a caller precision different from the creation precision',
                 'values compared with the closed form', 'segment boundaries read from the closure'):
        if not ev.get(name):
            miss.append('monitor saw nothing: ' + name)
    for f in FAMS:
        if not any(k.startswith(f + '/') and 'raised' not in k for k in agg['classes']):
            miss.append('no completed case for family ' + f)
    if not agg['anchors'].get('mpmath.calculus.odes:ode_taylor'):
        miss.append('anchor ode_taylor never reached')
    return miss


def replay(case, rec):
    mp = _mp()
    spec = dict(case['case'])
    for k in ('at', 'q', 'step'):
        spec.pop(k, None)
    mp.prec = 53
    run_case(mp, rec, spec)
