"""C01 -- every real value has one canonical representation.

Observed: (1) every raw value *stored* into a number object -- StoreHook on mp.mpf/_mpf_, mp.mpc/_mpc_ (both parts),
the same on two clones, iv.mpf/_mpi_ (both endpoints), iv.mpc/_mpci_ (four endpoints); (2) every raw tuple (or pair /
quad / list of raw tuples) *returned* by a libmp primitive named mpf_*/mpc_*/mpi_*/mpci_*/from_*/normalize*
(ReturnTap, sys.monitoring PY_RETURN).  Oracle: exactq.is_canonical; second oracle for the "as a consequence" clause:
results that exactq finds numerically equal must be ==, hash equal and pickle to identical bytes.
Workload: operators x operand types, conversions, every catalog function at several precisions / rounding modes,
interval arithmetic, fsum/fdot, pickling, matrices, carry patterns, far-apart exponents, mpf_mul_int paths, and
(thorough) the repository's own test-suite run under the same monitor."""
import collections, pickle, copy, math, time
from fractions import Fraction
from vf import exactq as Q
from vf import gens as G
from vf import catalog as K
from vf import dutil as U

PROP = 'C01'
LEVEL = 'exploration'
RULE = ('seeded stratified workload: section (ops/conv/funcs/iv/sum/pickle/matrix/carry/far/mulint/twin) x operation x '
        'operand type x precision x rounding mode; every store into a number object and every raw tuple leaving a libmp '
        'primitive during a case is checked; a case is non-trivial when at least one finite non-zero value was stored or '
        'returned during it (i.e. something was rounded / normalised); distinct = distinct (section, operation, operands, '
        'precision, mode)')
ASSUMPTIONS = ['exactq.is_canonical states the canonical form exactly as the property does (and is not stricter)',
               'descriptors on the per-context number classes see every store (slots _mpf_/_mpc_, attributes _mpi_/_mpci_)',
               'the harness injects only canonical operands (exactq.canon) through make_mpf / make_mpc']
SHARD_TIMEOUT = {'quick': 900, 'thorough': 3000}       # wall-clock watchdog (generous: the machine may be shared)
LEVEL_TEXT = ('exploration: every raw value stored into mpf/mpc/interval objects of mp, two clones and iv, and every raw '
              'tuple returned by ~235 libmp primitives, is checked against the canonical-form predicate while a hostile '
              'workload runs (quick ~2*10^6 stores + ~10^7 primitive returns; thorough adds the repository test-suite '
              'under the same monitor); numerically equal results are compared with ==, hash and pickle bytes')
LEVEL_NOTE = ('trusted base: vf/exactq.py predicate and exact comparison; values that are never stored in a number object '
              'nor returned by a named primitive (e.g. tuples built inline by ctx methods and only returned inside '
              'Python containers) are not observed; inputs not generated are not covered')
TECHNIQUE = 'runtime invariant monitor: store hooks + sys.monitoring return taps, predicate oracle, equal-value twin oracle'

N_SHARDS = 16
CASES = {'quick': 6000, 'thorough': 16000}
CALL_CAP = {'quick': 1.0, 'thorough': 3.0}
SHARD_CPU_BUDGET = {'quick': 100, 'thorough': 900}       # CPU seconds per shard; normal use is ~35 / ~150
SECTIONS = ['ops', 'conv', 'funcs', 'iv', 'sum', 'pickle', 'matrix', 'carry', 'far', 'mulint', 'twin', 'funcs', 'ops',
            'funcs', 'carry', 'iv']
# Primitives whose contract is NOT "returns a normalised raw value" would be listed here with the reason (their returns
# are then counted but not asserted).  Scouting (repo test-suite + this workload, 3.5*10^7 returns of 223 primitives)
# found no primitive matching the name patterns that returns a non-normalised raw tuple, so the list is empty.
TAP_EXCLUDED = {}


def shards(tier, seed):
    out = [{'n': CASES[tier], 'kind': 'gen'} for _ in range(N_SHARDS)]
    if tier == 'thorough':
        out.append({'kind': 'suite', 'n': 0})
    return out


# ---------------------------------------------------------------------------------------
# the monitor
# ---------------------------------------------------------------------------------------

def why_noncanonical(t):
    """None if canonical, else the violated clause"""
    if Q.is_canonical(t):
        return None
    if type(t) is not tuple or len(t) != 4:
        return 'not-a-raw-4-tuple'
    sign, man, exp, bc = t
    if not all(isinstance(v, int) and not isinstance(v, bool) for v in (man, exp, bc)):
        return 'non-integer-field'
    if man == 0:
        return 'zero-or-special-encoding'
    if sign not in (0, 1):
        return 'sign-not-0-or-1'
    if man < 0:
        return 'negative-mantissa'
    if not man & 1:
        return 'even-mantissa'
    if bc != man.bit_length():
        return 'stale-bitcount'
    return 'other'


def numeric_key(t):
    """exact numeric identity of a raw tuple, independent of how it is encoded"""
    sign, man, exp, bc = t
    if not man:
        if t == Q.finf or t == Q.fninf or t == Q.fnan:
            return t
        return Q.fzero
    return Q.canon(sign, int(man), exp)[:3]


class CanonMonitor(object):
    """StoreHook + ReturnTap with the canonical-form predicate.  ``begin(case)`` / ``end()`` bracket a workload case."""

    def __init__(self, max_items=40):
        self.stores = collections.Counter()
        self.prim = collections.Counter()
        self.prim_returns = 0
        self.prim_raws = 0
        self.bad = collections.OrderedDict()      # key -> {'count', 'items'}
        self.case = None
        self.first_bad_prim = None
        self.nonspecial = 0
        self.max_items = max_items
        self.hook = None
        self.tap = None

    # -- attach ------------------------------------------------------------------------
    def attach(self, mps=(), ivs=(), tap=True):
        from vf import instrument as I
        self.hook = I.StoreHook(self._on_store)
        for c in mps:
            self.hook.attach_mp(c)
        for c in ivs:
            self.hook.attach_iv(c)
        if tap:
            codes = U.primitive_codes()
            self.ncodes = len(codes)
            self.tap = I.ReturnTap(codes, self._on_return).install()
        return self

    def detach(self):
        if self.tap is not None:
            self.tap.uninstall()
            self.tap = None
        if self.hook is not None:
            self.hook.detach()
            self.hook = None

    def begin(self, case):
        self.case = case
        self.first_bad_prim = None
        self.nonspecial = 0

    # -- events ------------------------------------------------------------------------
    def _flag(self, key, what, value):
        ent = self.bad.get(key)
        if ent is None:
            ent = self.bad[key] = {'count': 0, 'items': []}
        ent['count'] += 1
        if len(ent['items']) < 3:
            ent['items'].append({'what': what, 'case': self.case, 'observed': repr(value)[:400]})

    def _on_store(self, kind, value):
        self.stores[kind] += 1
        if kind == 'mpf':
            parts = (value,)
        elif kind == 'mpci':
            try:
                (a, b), (c, d) = value
                parts = (a, b, c, d)
            except Exception:
                parts = (value,)
        else:
            parts = value if (type(value) is tuple and len(value) == 2) else (value,)
        for t in parts:
            if type(t) is tuple and len(t) == 4 and t[1]:
                self.nonspecial += 1
            w = why_noncanonical(t)
            if w is not None:
                src = self.first_bad_prim or ('store-' + kind)
                self._flag('C01/%s/%s' % (src, w),
                           'non-canonical raw value (%s) stored into %s object%s' %
                           (w, kind, (' after being returned by ' + self.first_bad_prim) if self.first_bad_prim else ''), t)

    def _on_return(self, name, code, val):
        self.prim_returns += 1
        n = 0
        for t in U.raws_in(val):
            n += 1
            if t[1]:
                self.nonspecial += 1
            if not Q.is_canonical(t):
                if name in TAP_EXCLUDED:
                    self.prim['excluded:' + name] += 1
                    continue
                if self.first_bad_prim is None:
                    self.first_bad_prim = name
                    self._flag('C01/%s/%s' % (name, why_noncanonical(t)),
                               'primitive %s returned a non-canonical raw value (%s)' % (name, why_noncanonical(t)), t)
                else:
                    self.prim['noncanonical-propagated'] += 1
        if n:
            self.prim[name] += n
            self.prim_raws += n

    # -- reporting ---------------------------------------------------------------------
    def report(self, rec):
        for k, v in self.stores.items():
            rec.event('stores:' + k, v)
        rec.event('stores:total', sum(self.stores.values()))
        rec.event('primitive returns seen', self.prim_returns)
        rec.event('raw tuples leaving primitives (asserted)', self.prim_raws)
        for key, ent in self.bad.items():
            for it in ent['items']:
                rec.violation(key, it['what'], it['case'], observed=it['observed'], expected='canonical raw tuple')
            extra = ent['count'] - len(ent['items'])
            if extra > 0 and key in rec.viol:
                rec.viol[key]['count'] += extra

    def summary(self):
        return {'stores': dict(self.stores), 'prim': dict(self.prim), 'prim_returns': self.prim_returns,
                'prim_raws': self.prim_raws, 'bad': {k: v for k, v in self.bad.items()}}


# ---------------------------------------------------------------------------------------
# equal-value oracle ("as a consequence" clause)
# ---------------------------------------------------------------------------------------
class TwinOracle(object):
    """Results of the real library that exactq finds numerically equal must be ==, hash equal, pickle identically."""

    def __init__(self, rec, mp, cap=150000):
        self.rec, self.mp = rec, mp
        self.seen = {}
        self.cap = cap
        self.pairs = 0

    def _key(self, x):
        if hasattr(x, '_mpf_'):
            return ('f', numeric_key(x._mpf_))
        return ('c', numeric_key(x._mpc_[0]), numeric_key(x._mpc_[1]))

    def offer(self, x, case):
        mp = self.mp
        if not (type(x) is mp.mpf or type(x) is mp.mpc):
            return
        try:
            k = self._key(x)
        except Exception:
            return          # malformed raw value: the store hook has already reported it
        first = self.seen.get(k)
        if first is None:
            if len(self.seen) < self.cap:
                self.seen[k] = (x, case)
            return
        y, ycase = first
        if y is x:
            return
        self.pairs += 1
        has_nan = Q.fnan in k[1:]
        probs = []
        try:
            if not has_nan:
                if not (x == y) or (x != y):
                    probs.append('== is False')
                if hash(x) != hash(y):
                    probs.append('hash differs')
            if pickle.dumps(x, 2) != pickle.dumps(y, 2):
                probs.append('pickle bytes differ')
        except Exception as e:
            probs.append('comparison raised %r' % (e,))
        if probs:
            raws = (x._mpf_, y._mpf_) if k[0] == 'f' else (x._mpc_, y._mpc_)
            self.rec.violation('C01/equal-values-distinguished/' + probs[0].replace(' ', '-'),
                               'numerically equal results are distinguished: ' + ', '.join(probs),
                               {'case': case, 'other_case': ycase}, observed=[repr(raws[0]), repr(raws[1])],
                               expected='identical representation, ==, equal hash, equal pickle')


# ---------------------------------------------------------------------------------------
# workload
# ---------------------------------------------------------------------------------------
class Env(object):
    pass


def _raw_desc(t):
    return (t[0], t[1], t[2])


def _mk(ctx, raw):
    return ctx.make_mpf((raw[0], raw[1], raw[2], raw[3]))


def _typed(env, ctx, r, raw, allow=('mpf', 'int', 'float', 'Fraction', 'mpq', 'mpc', 'complex')):
    """the raw value as one of several operand types (exactly equal where the type allows; complex adds a part)"""
    kind = r.choice(allow)
    sign, man, exp, bc = raw
    if kind == 'int' and man and 0 <= exp < 3000:
        v = man << exp
        return (-v if sign else v), 'int'
    if kind == 'float' and man and bc <= 53 and -1074 <= exp and exp + bc <= 1024:
        v = math.ldexp(man, exp)
        return (-v if sign else v), 'float'
    if kind in ('Fraction', 'mpq') and man and -400 < exp < 400:
        q = Fraction(man) * Fraction(2) ** exp
        q = -q if sign else q
        if kind == 'mpq':
            from mpmath.rational import mpq
            return mpq(q.numerator, q.denominator), 'mpq'
        return q, 'Fraction'
    if kind == 'mpc':
        im = G.raw_real(r, 53, wild=False)
        return ctx.make_mpc((tuple(raw), im)), 'mpc'
    if kind == 'complex' and man and bc <= 53 and -1000 <= exp and exp + bc <= 1000:
        v = math.ldexp(man, exp)
        return complex(-v if sign else v, r.choice([0.0, 1.0, -2.5, 1e-30])), 'complex'
    return _mk(ctx, raw), 'mpf'


BINOPS = ['add', 'sub', 'mul', 'div', 'pow', 'mod', 'radd', 'rsub', 'rmul', 'rdiv']


def _binop(op, x, y):
    if op in ('add', 'radd'): return x + y
    if op in ('sub', 'rsub'): return x - y
    if op in ('mul', 'rmul'): return x * y
    if op in ('div', 'rdiv'): return x / y
    if op == 'pow': return x ** y
    if op == 'mod': return x % y
    raise ValueError(op)


def sec_ops(env, r, i):
    ctx = env.ctxs[i % 3]
    p = G.pick_prec(r, big=env.tier == 'thorough')
    ctx.prec = p
    op = BINOPS[(i // 3) % len(BINOPS)]
    wild = op in ('add', 'sub', 'mul', 'div', 'radd', 'rsub', 'rmul', 'rdiv') and r.random() < 0.5
    a = G.raw_real(r, p, wild=wild)
    b = G.raw_real(r, p, wild=wild)
    if op == 'pow':
        k = r.random()
        if k < 0.5:
            y, ty = r.choice([0, 1, 2, 3, -1, -2, 5, 10, 17, 64, 100, 1000, -33]), 'int'
        elif k < 0.7:
            y, ty = _mk(ctx, Q.canon(r.randint(0, 1), 2 * r.randint(0, 20) + 1, -1)), 'half'
        else:
            y, ty = _mk(ctx, K.raw_rand(r, r.choice([2, p, 2 * p]), -4, 6)), 'mpf'
        a = K.raw_rand(r, G.mant_bits(r, p), -40, 40) if r.random() < 0.8 else a
        x, tx = _typed(env, ctx, r, a, ('mpf', 'mpf', 'int', 'mpc'))
    else:
        if op.startswith('r'):
            x, tx = _typed(env, ctx, r, a, ('int', 'float', 'Fraction', 'mpq', 'complex'))
            y, ty = _typed(env, ctx, r, b, ('mpf', 'mpf', 'mpc'))
        else:
            x, tx = _typed(env, ctx, r, a, ('mpf', 'mpf', 'mpf', 'mpc'))
            y, ty = _typed(env, ctx, r, b)
        if wild and (tx in ('Fraction', 'mpq') or ty in ('Fraction', 'mpq')):
            pass
    case = {'section': 'ops', 'op': op, 'a': _raw_desc(a), 'b': (_raw_desc(b) if op != 'pow' else repr(y)),
            'types': [tx, ty], 'prec': p, 'ctx': i % 3}
    if op == 'mod' and (tx == 'mpc' or ty in ('mpc', 'complex')):
        return None
    env.mon.begin(case)
    res = _binop(op, x, y)
    out = [res]
    if r.random() < 0.3 and hasattr(res, '_mpf_'):
        out += [-res, +res, abs(res)]
    elif r.random() < 0.2 and hasattr(res, '_mpc_'):
        out += [-res, +res, abs(res), res.real, res.imag, res.conjugate()]
    return case, 'ops/%s/%s-%s' % (op, tx, ty), out


STRINGS = ['0', '-0', '0.0', '1', '-1', '0.1', '1e-400', '-2.5e+500', '1.5e', '123456789012345678901234567890', '.5', '5.',
           '1/3', '-7/8', 'inf', '-inf', 'nan', '+inf', '0.99999999999999999999999999999999', '9.9999999999999999e22',
           '1e-5000', '4.9406564584124654e-324', '0.5000000000000000000000000000000000000001', '1e1000', '0e10', '00012.500',
           '1.0000000000000000000000000000000000000000000000000000000000001', '7.2057594037927935e16', '6.02214076E23']


def sec_conv(env, r, i):
    ctx = env.ctxs[i % 3]
    mp = env.mp
    p = G.pick_prec(r, big=False)
    ctx.prec = r.choice([p, 53, 200])
    mode = G.MODES[i % 5]
    kind = ['int', 'float', 'str', 'pair', 'raw4', 'Fraction', 'mpq', 'mpf', 'other-ctx', 'mpc2', 'complex', 'convert',
            'ldexp', 'frexp', 'const', 'mpi', 'strnum'][(i // 5) % 17]
    kw = r.choice([{}, {'prec': p}, {'prec': p, 'rounding': mode}, {'dps': max(1, p // 4), 'rounding': mode}])
    case = {'section': 'conv', 'kind': kind, 'kw': repr(kw), 'ctxprec': ctx.prec, 'ctx': i % 3}
    out = []
    raw = G.raw_real(r, p, wild=r.random() < 0.3)
    if kind == 'int':
        v = r.choice([1, -1]) * (G.mantissa(r, r.choice([1, 5, 53, 54, 64, 200, 2000])) << r.choice([0, 0, 1, 9, 300]))
        v = r.choice([v, v, 0, v + 1])
        case['value'] = v
        env.mon.begin(case)
        out = [ctx.mpf(v, **kw), ctx.convert(v), ctx.mpc(v, **kw) if not kw else ctx.mpc(v), ctx.mpf(v) + 0]
    elif kind == 'float':
        import struct
        bits = r.choice([r.getrandbits(64), r.getrandbits(52), 0x7ff0000000000000, 0xfff0000000000000, 0x7ff8000000000000,
                         1, 0x8000000000000000, 0x000fffffffffffff, 0x7fefffffffffffff])
        v = struct.unpack('<d', struct.pack('<Q', bits))[0]
        case['value'] = repr(v)
        env.mon.begin(case)
        out = [ctx.mpf(v, **kw), ctx.convert(v), ctx.mpc(v, v), ctx.mpmathify(v)]
    elif kind in ('str', 'strnum'):
        if kind == 'str':
            s = r.choice(STRINGS)
        else:
            digs = ''.join(r.choice('0123456789') for _ in range(r.choice([1, 5, 17, 40, 120])))
            if r.random() < 0.3:
                digs = '9' * r.choice([5, 16, 17, 30, 60])
            s = r.choice(['', '-']) + digs[:1] + '.' + digs[1:] + r.choice(['', 'e%d' % r.randint(-420, 420), 'e-3'])
        case['value'] = s
        env.mon.begin(case)
        out = [ctx.mpf(s, **kw), ctx.convert(s), ctx.mpmathify(s)]
        out.append(ctx.mpc(s, s))
    elif kind == 'pair':
        man = r.choice([1, -1]) * (G.mantissa(r, G.mant_bits(r, p)) << r.choice([0, 1, 2, 8, 9, 64, 257]))
        man = r.choice([man, man, 0])
        e = G.exponent(r, p)
        case['value'] = (man, e)
        env.mon.begin(case)
        out = [ctx.mpf((man, e), **kw), ctx.mpf((man, e))]
    elif kind == 'raw4':
        # documented alternative constructor: 4-tuple with exact bit count (mantissa may be even)
        man = G.mantissa(r, G.mant_bits(r, p)) << r.choice([0, 1, 3, 8, 16, 100])
        t = (r.randint(0, 1), man, G.exponent(r, p), man.bit_length())
        case['value'] = t
        env.mon.begin(case)
        out = [ctx.mpf(t, **kw), ctx.mpf(r.choice([Q.fzero, Q.finf, Q.fninf, Q.fnan]), **kw)]
    elif kind in ('Fraction', 'mpq'):
        n = r.choice([1, -1]) * r.randint(0, 1 << r.choice([3, 20, 80, 300]))
        d = r.randint(1, 1 << r.choice([1, 3, 20, 80, 300]))
        if r.random() < 0.3:
            d = 1 << r.randint(0, 80)
        q = Fraction(n, d)
        if kind == 'mpq':
            from mpmath.rational import mpq
            q = mpq(q.numerator, q.denominator)
        case['value'] = repr(q)
        env.mon.begin(case)
        out = [ctx.mpf(q, **kw), ctx.convert(q), ctx.mpf(1) * q, q + ctx.mpf(1), ctx.mpc(0, 1) * q]
    elif kind == 'mpf':
        x = _mk(ctx, raw)
        case['value'] = _raw_desc(raw)
        env.mon.begin(case)
        out = [ctx.mpf(x, **kw), ctx.convert(x), ctx.mpc(x), ctx.mpc(x, x), +x, -x, abs(x),
               ctx.fabs(x), ctx.fneg(x, **kw), ctx.sign(x), ctx.re(x), ctx.im(x), ctx.conj(x), ctx.chop(x)]
    elif kind == 'other-ctx':
        other = env.ctxs[(i + 1) % 3]
        x = _mk(other, raw)
        case['value'] = _raw_desc(raw)
        env.mon.begin(case)
        out = [ctx.mpf(x, **kw), ctx.convert(x), ctx.mpf(1) + x, ctx.mpc(x, 2), env.iv.mpf(x)]
    elif kind == 'mpc2':
        im = G.raw_real(r, p, wild=False)
        z = ctx.make_mpc((raw, im))
        case['value'] = (_raw_desc(raw), _raw_desc(im))
        env.mon.begin(case)
        out = [ctx.mpc(z), ctx.convert(z), +z, -z, abs(z), z.conjugate(), z.real, z.imag, ctx.mpc(z.real, z.imag),
               ctx.fneg(z, **kw), ctx.conj(z), ctx.re(z), ctx.im(z), ctx.chop(z), ctx.fabs(z)]
    elif kind == 'complex':
        v = complex(r.choice([0.0, -0.0, 1.5, 1e300, 5e-324, float('inf'), float('nan'), r.random()]),
                    r.choice([0.0, -0.0, 2.5, -1e-300, float('-inf'), r.random()]))
        case['value'] = repr(v)
        env.mon.begin(case)
        out = [ctx.mpc(v), ctx.convert(v), ctx.mpf(1) + v, ctx.mpmathify(v)]
    elif kind == 'convert':
        v = r.choice([[1, 2.5, '0.1'], (3, 4), 7, '1.25', 2.5j, True, Fraction(1, 3)])
        case['value'] = repr(v)
        env.mon.begin(case)
        try:
            out = [ctx.convert(v)]
        except TypeError:
            out = []
        out.append(ctx.matrix([[1, 2], [3, 4.5]])[0, 1])
    elif kind == 'ldexp':
        x = _mk(ctx, raw)
        n = r.choice([0, 1, -1, 53, -1074, 10**6, -10**18, r.randint(-5000, 5000)])
        case['value'] = (_raw_desc(raw), n)
        env.mon.begin(case)
        out = [ctx.ldexp(x, n), ctx.ldexp(r.choice([1, 3, 0.5, -7]), n)]
    elif kind == 'frexp':
        x = _mk(ctx, raw)
        case['value'] = _raw_desc(raw)
        env.mon.begin(case)
        if raw[1]:
            out = [ctx.frexp(x)[0], ctx.frexp(r.choice([1, 3, 0.75, -7]))[0]]
        else:
            out = [ctx.frexp(0)[0]]
    elif kind == 'const':
        name = r.choice(K.names('constant'))
        case['value'] = name
        env.mon.begin(case)
        c = getattr(ctx, name)
        out = [+c, c(**kw) if kw else c(), ctx.mpf(c, **kw), c + 1, 2 * c, ctx.mpc(c, c), c / 3]
    elif kind == 'mpi':
        x = _mk(mp, G.raw_real(r, p, wild=False, special=0))
        case['value'] = repr(x)
        env.mon.begin(case)
        ivx = env.iv.mpf(x)
        out = [ctx.mpf(ivx, **kw), ctx.convert(ivx.a)]
    return case, 'conv/' + kind, out


def _accepts_prec(f):
    g = getattr(f, '__func__', f)
    code = getattr(g, '__code__', None)
    return code is not None and 'mpf_f' in code.co_freevars


FUNC_PRECS = [10, 24, 53, 64, 100, 113, 200, 333]


def sec_funcs(env, r, i):
    ctx = env.ctxs[0] if r.random() < 0.8 else env.ctxs[1 + (i & 1)]
    names = env.fnames
    name = names[env.fcount % len(names)]
    env.fcount += 1
    p = FUNC_PRECS[(env.fcount // len(names) + i) % len(FUNC_PRECS)] if r.random() < 0.8 else G.pick_prec(r, big=False)
    if p < 4:
        p = 4
    cat = K.ENTRIES[name][0]
    slow = cat.rstrip('+') in ('zeta', 'hyper', 'bessel', 'elliptic') or name in env.slow
    if slow and p > 120:
        p = r.choice([10, 24, 53, 100])
    bits = r.choice([p, p, 2 * p, 8, 53])
    specs = K.gen_args(name, r, bits, real_only=r.random() < 0.3)
    mode = G.MODES[i % 5]
    kw = {}
    f = getattr(ctx, name)
    if cat == 'constant':
        kw = r.choice([{}, {'prec': p, 'rounding': mode}, {'dps': 5}])
    elif _accepts_prec(f) or cat == 'arith':
        kw = r.choice([{}, {'prec': p, 'rounding': mode}, {'prec': p, 'rounding': mode}, {'dps': max(1, p // 4)}])
        if cat == 'arith' and name in ('fadd', 'fsub', 'fmul', 'fneg') and r.random() < 0.15:
            kw = r.choice([{'exact': True}, {'prec': ctx.inf}])
        if name in ('fsum', 'fdot', 'fprod'):
            kw = {}
    ctx.prec = p
    case = {'section': 'funcs', 'name': name, 'args': specs, 'kw': repr(kw), 'prec': p, 'ctx': env.ctxs.index(ctx)}
    args, kw2 = K.split_args(ctx, specs)
    kw2.update(kw)
    env.mon.begin(case)
    t0 = time.time()
    try:
        with U.time_limit(env.cap):
            res = f(*args, **kw2)
    except U.CaseTimeout:
        env.rec.event('calls cut by the CPU cap')
        env.slow.add(name)
        res = None
    finally:
        ctx.prec = p
    env.fseen[name] += 1
    out = []

    def flat(v, d=0):
        if isinstance(v, (tuple, list)) and d < 3:
            for x in v:
                flat(x, d + 1)
        elif hasattr(v, '_mpf_') or hasattr(v, '_mpc_'):
            out.append(v)
    flat(res)
    return case, 'funcs/%s/%s' % (cat, 'kw' if kw else 'ctx'), out


IV_FUNCS = ['exp', 'log', 'ln', 'sqrt', 'sin', 'cos', 'tan', 'cos_sin', 'atan', 'cosh', 'sinh', 'tanh', 'gamma', 'loggamma',
            'rgamma', 'factorial', 'fabs', 'absmin', 'absmax', 'sign', 'arg', 'log10', 'sinpi', 'cospi', 'exp', 'sqrt',
            're', 'im', 'conj', 'fneg', 'ceil', 'floor', 'nint', 'frac', 'sec', 'csc', 'cot', 'asin', 'acos', 'asinh', 'expm1',
            'log1p', 'power', 'atan2', 'hypot', 'fadd', 'fsub', 'fmul', 'fdiv', 'fsum', 'fdot', 'fprod', 'ldexp', 'polyval',
            'mpf', 'mpc', 'convert', 'mag', 'isinf', 'pi', 'e', 'ln2', 'euler', 'phi', 'catalan', 'matrix']


def _ivmk(env, r, p, positive=False, narrow=None):
    iv, mp = env.iv, env.mp
    a = G.raw_real(r, p, wild=False, special=0, zero=0.03)
    narrow = r.random() < 0.6 if narrow is None else narrow
    if narrow and a[1]:
        # b = a + small positive width
        w = Q.canon(0, G.mantissa(r, r.choice([1, 3, 20])), a[2] - r.choice([0, 1, 5, 40]))
        b = Q.exact_raw(Q.add(Q.from_raw(a), Q.from_raw(w)))
    else:
        b = G.raw_real(r, p, wild=False, special=0, zero=0.03)
    if positive:
        a, b = (0, a[1], a[2], a[3]) if a[1] else a, (0, b[1], b[2], b[3]) if b[1] else b
    if Q.cmp(Q.from_raw(a), Q.from_raw(b)) > 0:
        a, b = b, a
    if not positive and r.random() < 0.04:
        a = Q.fninf
    if r.random() < 0.04:
        b = Q.finf
    form = r.random()
    if form < 0.7:
        return iv.mpf([_mk(mp, a), _mk(mp, b)]), (_raw_desc(a), _raw_desc(b))
    if form < 0.85:
        return iv.mpf(_mk(mp, a)), (_raw_desc(a),)
    s = r.choice(['0.1', '[1, 2]', '1 +- 0.5', '-3.25', '[0.1, 0.3]', '1e-50', '[-1e300, 1e300]', '2.5 +- 1e-20', '[-inf, 3]',
                  '[0, inf]', '0'])
    return iv.mpf(s), s


def sec_iv(env, r, i):
    iv, mp = env.iv, env.mp
    p = r.choice([1, 2, 3, 5, 10, 24, 53, 53, 64, 100, 200, 333]) if r.random() < 0.8 else r.randint(1, 400)
    iv.prec = p
    which = i % 4
    out = []
    if which == 0:
        op = r.choice(['add', 'sub', 'mul', 'div', 'pow', 'radd', 'rsub', 'rmul', 'rdiv', 'neg', 'abs', 'pos', 'mid', 'delta'])
        x, dx = _ivmk(env, r, p)
        if op == 'pow':
            y, dy = r.choice([0, 1, 2, 3, -1, -2, 7, 0.5, -0.5, 10]), 'num'
            if r.random() < 0.3:
                x, dx = _ivmk(env, r, p, positive=True)
                y, dy = _ivmk(env, r, 10, narrow=True)
                y = iv.mpf([max(min(y.a, 30), -30), max(min(y.b, 30), -30)]) if y.a == y.a and y.b == y.b else iv.mpf(2)
        else:
            t = r.random()
            if t < 0.5:
                y, dy = _ivmk(env, r, p)
            elif t < 0.6:
                y, dy = r.choice([0, 1, -3, 10**30, 7]), 'int'
            elif t < 0.7:
                y, dy = r.choice([0.5, -2.75, 1e-300, 1e300, float('inf')]), 'float'
            elif t < 0.8:
                y, dy = _mk(mp, G.raw_real(r, p, wild=False)), 'mp.mpf'
            elif t < 0.9:
                y, dy = r.choice(['0.1', '[1,2]', '-3']), 'str'
            else:
                y0, dy = _ivmk(env, r, p)
                y, dy = iv.mpc(y0, _ivmk(env, r, p)[0]), 'ivmpc'
        case = {'section': 'iv', 'op': op, 'x': dx, 'y': dy, 'prec': p}
        env.mon.begin(case)
        if op in ('radd', 'rsub', 'rmul', 'rdiv') and not hasattr(y, '_mpi_'):
            res = _binop(op, y, x) if not isinstance(y, str) else _binop(op, x, y)
        elif op == 'neg': res = -x
        elif op == 'abs': res = abs(x)
        elif op == 'pos': res = +x
        elif op == 'mid': res = x.mid
        elif op == 'delta': res = x.delta
        else:
            res = _binop(op, x, y)
        out = [res, res.a, res.b] if hasattr(res, '_mpi_') else [res]
        cls = 'iv/op/' + op
    elif which == 1:
        if env.ivfuncs is None:
            env.ivfuncs = [n for n in IV_FUNCS if hasattr(iv, n)]
        name = env.ivfuncs[(i // 4) % len(env.ivfuncs)]
        x, dx = _ivmk(env, r, p, positive=name in ('log', 'ln', 'sqrt', 'gamma', 'loggamma', 'log10', 'factorial', 'rgamma'))
        case = {'section': 'iv', 'func': name, 'x': dx, 'prec': p}
        env.mon.begin(case)
        f = getattr(iv, name)
        with U.time_limit(env.cap):
            if name in ('power', 'atan2', 'hypot', 'fadd', 'fsub', 'fmul', 'fdiv'):
                res = f(x, _ivmk(env, r, p, positive=name == 'power')[0] if name != 'power' else r.choice([2, 3, 0.5, -1]))
            elif name in ('fsum', 'fprod'):
                res = f([x, _ivmk(env, r, p)[0], 1, 0.5])
            elif name == 'fdot':
                res = f([x, 2], [_ivmk(env, r, p)[0], x])
            elif name == 'ldexp':
                res = f(x, r.randint(-100, 100))
            elif name == 'polyval':
                res = f([x, 1, _ivmk(env, r, p)[0]], x)
            elif name in ('pi', 'e', 'ln2', 'euler', 'phi', 'catalan'):
                res = +f + x
            elif name == 'matrix':
                A = iv.matrix([[x, 1], [2, _ivmk(env, r, p)[0]]])
                res = (A * A + A)[0, 0]
            elif name == 'mpc':
                res = f(x, _ivmk(env, r, p)[0])
            else:
                res = f(x)
        out = [res]
        cls = 'iv/func/' + name
    elif which == 2:
        # complex intervals
        a, da = _ivmk(env, r, p)
        b, db = _ivmk(env, r, p)
        c, dc = _ivmk(env, r, p)
        d, dd = _ivmk(env, r, p)
        z, w = iv.mpc(a, b), iv.mpc(c, d)
        # (ivmpc.conjugate() and iv.sqrt(ivmpc) raise in this tree for every argument: not part of the workload)
        op = r.choice(['add', 'sub', 'mul', 'div', 'pow', 'neg', 'abs', 'pos', 'real', 'exp', 'cos', 'sin', 'log', 'scalar'])
        case = {'section': 'iv', 'cop': op, 'z': (da, db), 'w': (dc, dd), 'prec': p}
        env.mon.begin(case)
        with U.time_limit(env.cap):
            if op == 'pow': res = z ** r.choice([0, 1, 2, 3, 5, -1])
            elif op == 'neg': res = -z
            elif op == 'abs': res = abs(z)
            elif op == 'pos': res = +z
            elif op == 'real': res = z.real + z.imag
            elif op in ('exp', 'cos', 'sin', 'log'):
                res = getattr(iv, op)(z)
            elif op == 'scalar':
                res = z * 3 + 0.5 - c
            else:
                res = _binop(op, z, w)
        out = [res]
        cls = 'iv/mpc/' + op
    else:
        # endpoints with carries under directed rounding
        k = r.choice([p + 1, p + 2, 2 * p + 1, p + 64])
        raw = Q.canon(r.randint(0, 1), (1 << k) - 1, r.randint(-50, 50))
        x = _mk(mp, raw)
        case = {'section': 'iv', 'carry': _raw_desc(raw), 'prec': p}
        env.mon.begin(case)
        y = iv.mpf(x)
        res = [y, +y, y + 0, y * 1, y - y, y * y, iv.mpf([x, abs(x) * 2]), iv.mpc(x, x), iv.sqrt(abs(y)), y / 3, iv.mpf(str(x))]
        out = res
        cls = 'iv/carry'
    return case, cls, out


def sec_sum(env, r, i):
    ctx = env.ctxs[i % 3]
    p = G.pick_prec(r, big=False)
    ctx.prec = p
    n = r.randint(0, 12)
    gapmode = r.choice(['near', 'near', 'far', 'cancel', 'huge'])
    terms, desc = [], []
    top = r.randint(-60, 60)
    for j in range(n):
        b = G.mant_bits(r, p)
        m = G.mantissa(r, min(b, 1200))
        if gapmode == 'near':
            e = top - r.randint(0, p + 5)
        elif gapmode == 'far':
            e = top - r.choice([0, p, 2 * p, 100, 101, 1000, 3000])
        elif gapmode == 'huge':
            e = top - r.choice([0, 10**5, 10**6])
        else:
            e = top
        raw = Q.canon(r.randint(0, 1), m, e - m.bit_length())
        desc.append(_raw_desc(raw))
        t, _ = _typed(env, ctx, r, raw, ('mpf', 'mpf', 'mpf', 'int', 'float', 'mpc', 'mpq'))
        terms.append(t)
    if gapmode == 'cancel' and terms:
        terms = terms + [-t for t in terms]
        r.shuffle(terms)
    which = r.choice(['fsum', 'fsum-abs', 'fsum-sq', 'fdot', 'fdot-conj', 'fprod', 'sum'])
    case = {'section': 'sum', 'which': which, 'terms': desc, 'gap': gapmode, 'prec': p, 'ctx': i % 3}
    env.mon.begin(case)
    with U.time_limit(env.cap * 2):
        if which == 'fsum': res = ctx.fsum(terms)
        elif which == 'fsum-abs': res = ctx.fsum(terms, absolute=True)
        elif which == 'fsum-sq': res = ctx.fsum(terms, squared=True)
        elif which == 'fdot': res = ctx.fdot(terms, list(reversed(terms)))
        elif which == 'fdot-conj': res = ctx.fdot(zip(terms, terms), conjugate=True)
        elif which == 'fprod': res = ctx.fprod(terms[:6])
        else: res = sum(terms, ctx.mpf(0))
    return case, 'sum/%s/%s' % (which, gapmode), [res]


def sec_pickle(env, r, i):
    mp = env.mp
    p = G.pick_prec(r, big=False)
    mp.prec = p
    raw = G.raw_real(r, p, wild=r.random() < 0.5)
    im = G.raw_real(r, p, wild=False)
    x = _mk(mp, raw)
    z = mp.make_mpc((raw, im))
    proto = r.randint(0, pickle.HIGHEST_PROTOCOL)
    case = {'section': 'pickle', 'x': _raw_desc(raw), 'im': _raw_desc(im), 'proto': proto}
    env.mon.begin(case)
    out = [pickle.loads(pickle.dumps(x, proto)), pickle.loads(pickle.dumps(z, proto)), copy.copy(x), copy.deepcopy(z)]
    M = mp.matrix([[x, z], [1, x]])
    try:
        M2 = pickle.loads(pickle.dumps(M, proto))
        env.rec.event('matrices unpickled')
    except Exception:
        # older trees cannot pickle mp.matrix: its entries travel as a list
        L2 = pickle.loads(pickle.dumps([M[0, 0], M[0, 1], (M[1, 0], {'k': M[1, 1]})], proto))
        M2 = mp.matrix([[L2[0], L2[1]], [L2[2][0], L2[2][1]['k']]]).copy()
    out += [M2[0, 0], M2[0, 1], M2[1, 0], M2[1, 1]]
    c = r.choice(K.names('constant'))
    out.append(mp.mpf(pickle.loads(pickle.dumps(mp.mpf(getattr(mp, c)), proto))))
    # a numerically equal value reached through arithmetic must pickle identically (twin oracle gets both)
    out.append((x * 2) / 2 if raw[1] else x)
    return case, 'pickle/proto%d' % proto, out


def sec_matrix(env, r, i):
    ctx = env.ctxs[i % 3]
    p = r.choice([5, 10, 24, 53, 53, 100, 200])
    ctx.prec = p
    n = r.choice([1, 2, 3, 4])
    cplx = r.random() < 0.3

    def ent():
        raw = K.raw_rand(r, r.choice([3, p, 2 * p]), -6, 6)
        if cplx and r.random() < 0.6:
            return ctx.make_mpc((raw, K.raw_rand(r, p, -6, 6)))
        return _typed(env, ctx, r, raw, ('mpf', 'mpf', 'int', 'float'))[0]
    A = ctx.matrix([[ent() for _ in range(n)] for _ in range(n)])
    B = ctx.matrix([[ent() for _ in range(n)] for _ in range(n)])
    op = r.choice(['mul', 'add', 'sub', 'smul', 'sdiv', 'pow', 'T', 'inverse', 'lu_solve', 'det', 'norm', 'apply', 'expm', 'copy',
                   'neg', 'qr', 'H'])
    case = {'section': 'matrix', 'op': op, 'n': n, 'complex': cplx, 'prec': p, 'A': repr(A)[:300]}
    env.mon.begin(case)
    with U.time_limit(env.cap * 2):
        if op == 'mul': R = A * B
        elif op == 'add': R = A + B
        elif op == 'sub': R = A - B
        elif op == 'smul': R = A * ent()
        elif op == 'sdiv': R = A / 3
        elif op == 'pow': R = A ** r.choice([0, 1, 2, 3, 5])
        elif op == 'T': R = A.T
        elif op == 'H': R = A.H
        elif op == 'inverse': R = ctx.inverse(A)
        elif op == 'lu_solve': R = ctx.lu_solve(A, B[:, 0])
        elif op == 'det': R = ctx.matrix([[ctx.det(A)]])
        elif op == 'norm': R = ctx.matrix([[ctx.norm(A, 1), ctx.mnorm(A, 'f')]])
        elif op == 'apply': R = A.apply(ctx.exp)
        elif op == 'expm': R = ctx.expm(A)
        elif op == 'copy': R = A.copy()
        elif op == 'neg': R = -A
        else:
            Qm, Rm = ctx.qr(A) if n > 1 else (A, A)
            R = Qm * Rm
    out = [R[j, k] for j in range(R.rows) for k in range(R.cols)]
    return case, 'matrix/' + op, out


def sec_carry(env, r, i):
    """mantissas 2^k - 1 (and 2^k - 2^j - 1 ...) longer than the precision, rounded up -> carry into a new bit"""
    ctx = env.ctxs[i % 3]
    p = G.pick_prec(r, big=False)
    ctx.prec = r.choice([p, p, 53])
    k = r.choice([p + 1, p + 1, p + 2, p + 3, 2 * p, 2 * p + 1, p + 64, 1000, 301])
    man = (1 << k) - 1
    if r.random() < 0.25:
        man ^= 1 << r.randint(0, max(0, k - p - 1))      # a zero somewhere in the discarded part
        man |= 1
    raw = Q.canon(r.randint(0, 1), man, G.exponent(r, p))
    x = _mk(ctx, raw)
    mode = G.MODES[i % 5]
    form = ['pos', 'fadd0', 'fmul1', 'fdiv1', 'ctor', 'fneg', 'addtiny', 'sqrtsq', 'mpc', 'fsum', 'mulint', 'subtiny', 'str', 'fabs',
            'pow1'][(i // 5) % 15]
    case = {'section': 'carry', 'form': form, 'x': _raw_desc(raw), 'prec': p, 'mode': mode, 'ctx': i % 3}
    env.mon.begin(case)
    kw = {'prec': p, 'rounding': mode}
    if form == 'pos':
        ctx.prec = p
        out = [+x, -x, abs(x), x + 0, x * 1, x / 1, x - 0, 0 + x, 1 * x]
    elif form == 'fadd0': out = [ctx.fadd(x, 0, **kw), ctx.fsub(x, 0, **kw), ctx.fadd(0, x, **kw)]
    elif form == 'fmul1': out = [ctx.fmul(x, 1, **kw), ctx.fmul(x, -1, **kw), ctx.fmul(x, 2, **kw)]
    elif form == 'fdiv1': out = [ctx.fdiv(x, 1, **kw), ctx.fdiv(x, 4, **kw), ctx.fdiv(x, -1, **kw)]
    elif form == 'ctor': out = [ctx.mpf(x, **kw), ctx.mpf((man, raw[2]), **kw), ctx.mpc(x, x)]
    elif form == 'fneg': out = [ctx.fneg(x, **kw)]
    elif form == 'fabs':
        ctx.prec = p
        out = [ctx.fabs(x), ctx.sign(x), ctx.floor(ctx.ldexp(x, -raw[2])) if abs(raw[2]) < 5000 else x]
    elif form in ('addtiny', 'subtiny'):
        tiny = _mk(ctx, Q.canon(raw[0] if form == 'addtiny' else 1 - raw[0], 1, raw[2] - r.choice([1, 5, 200, 10**6])))
        out = [ctx.fadd(x, tiny, **kw), ctx.fadd(tiny, x, **kw)]
        ctx.prec = p
        out += [x + tiny, tiny + x]
    elif form == 'sqrtsq':
        # sqrt((2^k-1)^2 * 2^2e) = 2^k - 1 exactly -> rounds with a carry at precision p
        sq = _mk(ctx, Q.canon(0, man * man, 2 * r.randint(-40, 40)))
        out = [ctx.sqrt(sq, **kw)]
        ctx.prec = p
        out += [ctx.sqrt(sq), sq ** 0.5, ctx.cbrt(_mk(ctx, Q.canon(0, man ** 3, 0))) if k < 400 else sq]
    elif form == 'mpc':
        ctx.prec = p
        z = ctx.make_mpc((raw, raw))
        out = [+z, z + 0, z * 1, z - 0, ctx.fadd(z, 0, **kw), ctx.fmul(z, 1, **kw), z / 1, -z, z.conjugate() + 0, abs(z)]
    elif form == 'fsum':
        ctx.prec = p
        out = [ctx.fsum([x]), ctx.fsum([x, 0]), ctx.fdot([x], [1]), ctx.fsum([x, x]), ctx.fprod([x])]
    elif form == 'mulint':
        ctx.prec = p
        out = [x * 1, x * 3, x * -1, x * (1 << 70), 5 * x, x * man]
    elif form == 'str':
        nines = r.choice([5, 15, 16, 17, 20, 40, 100])
        s = r.choice(['0.', '9.', '99.', '']) + '9' * nines + r.choice(['', 'e10', 'e-30', '5'])
        case['str'] = s
        out = [ctx.mpf(s, **kw), ctx.mpf('-' + s, **kw), ctx.convert(s)]
    else:
        ctx.prec = p
        out = [x ** 1, x ** -1, ctx.power(x, 1), x ** 2]
    return case, 'carry/%s/%s' % (form, mode), out


def sec_far(env, r, i):
    ctx = env.ctxs[i % 3]
    p = G.pick_prec(r, big=False)
    g = G.GAPS[(i // 3) % len(G.GAPS)]
    long_big = r.choice([None, None, p + 1, 2 * p, 305])
    a, b, g = G.pair_with_gap(r, p, g, long_big=long_big)
    if r.random() < 0.2:
        # the smaller operand exactly cancels / perturbs a power of two
        a = Q.canon(a[0], 1, a[2] + a[3] - 1)
    mode = G.MODES[i % 5]
    x, y = _mk(ctx, a), _mk(ctx, b)
    ctx.prec = p
    form = r.choice(['op', 'f', 'mpc', 'fsum', 'opsub'])
    case = {'section': 'far', 'a': _raw_desc(a), 'b': _raw_desc(b), 'gap': g, 'prec': p, 'mode': mode, 'form': form, 'ctx': i % 3}
    env.mon.begin(case)
    if form == 'op': out = [x + y, y + x, x - y, y - x]
    elif form == 'opsub': out = [x - y, (x - y) + y, -x - y, x + (-y)]
    elif form == 'f':
        kw = {'prec': p, 'rounding': mode}
        out = [ctx.fadd(x, y, **kw), ctx.fsub(x, y, **kw), ctx.fsub(y, x, **kw)]
    elif form == 'mpc':
        z, w = ctx.mpc(x, y), ctx.mpc(y, x)
        out = [z + w, z - w, z + y, y + z, z - x, ctx.fadd(z, w, prec=p, rounding=mode), ctx.fadd(z, x, prec=p, rounding=mode)]
    else:
        if g in ('astro',):
            out = [ctx.fsum([x, y])]
        else:
            out = [ctx.fsum([x, y]), ctx.fsum([x, y, -x]), ctx.fdot([x, y], [1, 1])]
    return case, 'far/%s/%s/%s' % (form, g, mode), out


def sec_mulint(env, r, i):
    ctx = env.ctxs[i % 3]
    p = G.pick_prec(r, big=False)
    ctx.prec = p
    raw = G.raw_real(r, p, wild=r.random() < 0.3, special=0.05, zero=0.05)
    x = _mk(ctx, raw)
    nb = r.choice([1, 2, 3, 8, 31, 32, 53, 64, 65, 100, 333, 1000, 2000, r.randint(1, 2000)])
    k = r.random()
    if k < 0.4:
        n = G.mantissa(r, nb)
    elif k < 0.55:
        n = 1 << (nb - 1)
    elif k < 0.7:
        n = (1 << nb) - 1
    elif k < 0.8:
        n = G.mantissa(r, nb) << r.randint(1, 70)
    elif k < 0.9:
        n = r.choice([0, 1, 2, 3, 10, 255, 256, 257])
    else:
        n = r.getrandbits(nb)
    if r.random() < 0.4:
        n = -n
    case = {'section': 'mulint', 'x': _raw_desc(raw), 'n': n, 'prec': p, 'ctx': i % 3}
    env.mon.begin(case)
    out = [x * n, n * x, x + n, x - n, n - x]
    if n:
        out += [x / n]
    z = ctx.make_mpc((raw, K.raw_rand(r, p, -5, 5)))
    out += [z * n, n * z, ctx.fmul(x, n, prec=p, rounding=G.MODES[i % 5]), ctx.fmul(x, n, exact=True) if abs(raw[2]) < 10**5 else x]
    if abs(n) < 50 and raw[1] and abs(raw[2]) < 10**5:
        out += [x ** n if (n >= 0 or raw[1]) else x, z ** abs(n)]
    lib = env.libmp
    out2 = lib.mpf_mul_int(raw, n, p, G.MODES[i % 5])          # the primitive directly (observed by the return tap)
    out.append(ctx.make_mpf(out2) if Q.is_canonical(out2) else x)
    return case, 'mulint/%s' % ('pow2' if n and n & (n - 1) == 0 else ('zero' if not n else 'gen')), out


def sec_twin(env, r, i):
    """the same exact value reached through many routes of the real library (mp only: pickling is defined for it)"""
    mp = env.mp
    bc = r.choice([1, 2, 3, 5, 17, 53, 54, 64, 100, 200])
    man = G.mantissa(r, bc)
    e = r.choice([0, 0, 1, -1, -bc, 10, -60, 200, -300, r.randint(-400, 400)])
    s = r.randint(0, 1)
    v = Q.canon(s, man, e)
    sm = -man if s else man
    mp.prec = bc + r.choice([0, 1, 10, 64])
    case = {'section': 'twin', 'v': _raw_desc(v), 'prec': mp.prec}
    env.mon.begin(case)
    x = _mk(mp, v)
    k = r.randint(1, 70)
    d = _mk(mp, Q.canon(r.randint(0, 1), G.mantissa(r, r.choice([1, 7, 40])), e + r.randint(-20, 20)))
    routes = []

    def add(name, f):
        try:
            routes.append((name, f()))
        except Exception as ex:
            env.rec.event('twin route raised: %s %s' % (name, type(ex).__name__))
    add('man_exp', lambda: mp.mpf((sm << k, e - k)))
    add('ldexp', lambda: mp.ldexp(mp.mpf(sm), e))
    add('fmul-exact', lambda: mp.fmul(mp.mpf(sm << 3), mp.mpf(2) ** (e - 3), exact=True))
    add('fadd-exact', lambda: mp.fadd(mp.fsub(x, d, exact=True), d, exact=True))
    add('fsub-exact', lambda: mp.fsub(mp.fmul(x, 2, exact=True), x, exact=True))
    add('negneg', lambda: -(-x))
    add('pos', lambda: +x)
    add('mul1', lambda: x * 1)
    add('div1', lambda: x / 1)
    add('add0', lambda: x + 0)
    add('pow1', lambda: x ** 1)
    add('double-half', lambda: (x * 2) / 2)
    add('mpc-real', lambda: (mp.mpc(x, d) * 1).real)
    add('mpc-imag', lambda: (mp.mpc(d, x) + 0).imag)
    add('pickle', lambda: pickle.loads(pickle.dumps(x)))
    add('fsum', lambda: mp.fsum([x, d, -d]))
    add('fdot', lambda: mp.fdot([x], [1]))
    add('raw4', lambda: mp.mpf((s, man << 2, e - 2, bc + 2)))
    add('ctor', lambda: mp.mpf(x))
    if e >= 0 and e < 400:
        add('int', lambda: mp.mpf(sm << e))
        add('str-int', lambda: mp.mpf(str(sm << e), prec=bc + e + 10))
    if -400 < e < 400:
        add('Fraction', lambda: mp.mpf(Fraction(sm) * Fraction(2) ** e))
        add('str-frac', lambda: mp.mpf('%d/%d' % ((sm << max(e, 0)), 1 << max(-e, 0)), prec=bc + 10))
    if bc <= 53 and -1000 < e < 900:
        add('float', lambda: mp.mpf(math.ldexp(sm, e)))
        add('convert-float', lambda: mp.convert(math.ldexp(sm, e)))
    if s == 0:
        add('abs', lambda: abs(-x))
        add('sqrt-sq', lambda: mp.sqrt(mp.fmul(x, x, exact=True), prec=bc + 2))
    add('iv-endpoint', lambda: mp.mpf(env.iv.mpf(x)))
    want = numeric_key(v)
    out = []
    for name, y in routes:
        if not hasattr(y, '_mpf_'):
            continue
        try:
            nk = numeric_key(y._mpf_)
        except Exception:
            nk = None
        if nk != want:
            if nk is not None:
                env.rec.event('twin route not exact (not asserted): ' + name)
            continue
        env.rec.event('twin values compared')
        probs = []
        if y._mpf_ != x._mpf_:
            probs.append('representation differs')
        if not (y == x):
            probs.append('== is False')
        if hash(y) != hash(x):
            probs.append('hash differs')
        if pickle.dumps(y, 2) != pickle.dumps(x, 2):
            probs.append('pickle bytes differ')
        if probs:
            env.rec.violation('C01/equal-values-distinguished/route:' + name,
                              'value reached through %s is numerically equal to the canonical one but %s' % (name, ', '.join(probs)),
                              case, observed=repr(y._mpf_), expected=repr(x._mpf_))
        out.append(y)
    return case, 'twin/routes', out


SEC = {'ops': sec_ops, 'conv': sec_conv, 'funcs': sec_funcs, 'iv': sec_iv, 'sum': sec_sum, 'pickle': sec_pickle,
       'matrix': sec_matrix, 'carry': sec_carry, 'far': sec_far, 'mulint': sec_mulint, 'twin': sec_twin}


def make_env(rec, tier, tap=True):
    import mpmath
    import mpmath.libmp as libmp
    env = Env()
    env.rec, env.tier = rec, tier
    env.mp, env.iv = mpmath.mp, mpmath.iv
    env.libmp = libmp
    c1, c2 = mpmath.mp.clone(), mpmath.mp.clone()
    env.ctxs = [mpmath.mp, c1, c2]
    env.cap = CALL_CAP.get(tier, 1.0)
    env.t0 = time.process_time()
    env.budget = SHARD_CPU_BUDGET.get(tier, 200)
    env.fnames = [n for n in K.all_names() if K.ENTRIES[n][0] != 'inspect']
    env.fcount = 0
    env.ivfuncs = None
    env.fseen = collections.Counter()
    env.slow = set()
    env.mon = CanonMonitor().attach(mps=env.ctxs, ivs=[env.iv], tap=tap)
    env.twin = TwinOracle(rec, env.mp)
    return env


def run_cases(env, r, n, shard_index, only=None):
    rec = env.rec
    for i in range(n):
        sec = SECTIONS[(i + shard_index) % len(SECTIONS)]
        j = i // len(SECTIONS) * 16 + shard_index          # per-section counter, different residues per shard
        for c in env.ctxs:
            c.prec = 53
        env.iv.prec = 53
        case = {'section': sec, 'index': i, 'shard': shard_index}
        env.mon.begin(case)
        out, cls = [], sec + '/raised'
        if time.process_time() - env.t0 > env.budget:
            rec.undecided('shard CPU budget exhausted before all cases were run', {'cases_run': i, 'planned': n})
            break
        try:
            with U.time_limit(env.cap * 2):       # no single case may hang the shard (inner caps are shorter)
                got = SEC[sec](env, r, j)
            if got is None:
                continue
            case, cls, out = got
        except U.CaseTimeout:
            rec.event('calls cut by the CPU cap')
            case = env.mon.case
            cls = sec + '/cut'
        except Exception as e:
            case = env.mon.case
            rec.event('exception raised by the workload call (%s): %s' % (sec, type(e).__name__))
            if isinstance(e, MemoryError):
                rec.note('MemoryError cases', case)
            cls = sec + '/raised'
        case = dict(case)
        case['index'] = i
        case['shard'] = shard_index
        env.mon.case = case
        rec.case((sec, repr(sorted((k, repr(v)) for k, v in case.items() if k not in ('index', 'shard')))),
                 env.mon.nonspecial > 0, cls=cls)
        if i % 997 == 0:
            rec.sample(case)
        if sec != 'twin':
            for v in out:
                env.twin.offer(v, case)
        env.mon.begin({'section': 'between-cases'})


def run_shard(shard, rec):
    if shard.get('kind') == 'suite':
        return run_suite_shard(shard, rec)
    r = G.rng(PROP, shard['seed'], shard['shard'])
    env = make_env(rec, shard['tier'])
    from vf.instrument import AnchorCount
    anchors = ['mpmath.libmp.libmpf:_normalize', 'mpmath.libmp.libmpf:_normalize1', 'mpmath.libmp.libmpf:from_man_exp',
               'mpmath.libmp.libmpf:python_mpf_mul', 'mpmath.libmp.libmpf:python_mpf_mul_int', 'mpmath.libmp.libmpf:mpf_add',
               'mpmath.libmp.libmpf:mpf_eq', 'mpmath.libmp.libmpf:mpf_add@offset = prec \\+ 4',
               'mpmath.libmp.libmpf:_normalize@bc = 1$', 'mpmath.libmp.libmpf:_normalize1@bc = 1$', 'mpmath.libmp.libmpf:mpf_hash', 'mpmath.libmp.libmpf:to_pickable']
    try:
        with AnchorCount(rec, anchors):
            run_cases(env, r, shard['n'], shard['shard'])
    finally:
        env.mon.detach()
        env.mon.report(rec)
        rec.event('equal-value pairs compared (==, hash, pickle)', env.twin.pairs)
        for name, n in env.mon.prim.items():
            rec.cls('primitive/' + name, n)
        for name in env.fnames:
            if env.fseen[name]:
                rec.cls('function/' + name, env.fseen[name])
        if shard['shard'] == 0:
            bad = K.consistency(env.mp)
            rec.note('catalog.consistency(mp)', bad or 'empty (every public callable is catalogued or explicitly excluded)')


def run_suite_shard(shard, rec):
    """thorough tier: part of the repository's own test-suite under the same monitor (workload, not oracle)"""
    res = U.run_suite('C01', timeout=900, nproc=4)
    rec.note('repo test-suite run', {'status': res['status'], 'returncode': res['returncode'], 'wall': res.get('wall'),
                                     'tail': res['tail'][-200:]})
    stores = collections.Counter()
    returns = raws = tests = 0
    for d in res['results']:
        stores.update(d.get('stores', {}))
        returns += d.get('prim_returns', 0)
        raws += d.get('prim_raws', 0)
        tests += d.get('tests', 0)
        for key, ent in d.get('bad', {}).items():
            for it in ent['items']:
                rec.violation(key, it['what'] + ' [repo test-suite workload]', it['case'], observed=it['observed'],
                              expected='canonical raw tuple')
    for k, v in stores.items():
        rec.event('suite stores:' + k, v)
    rec.event('suite primitive returns seen', returns)
    rec.event('suite raw tuples leaving primitives (asserted)', raws)
    rec.event('suite tests executed under the monitor', tests)
    for t in range(tests):
        rec.case(('suite-test', t), True, cls='suite/test')
    if not tests:
        rec.undecided('repo test-suite workload produced no monitored test (%s)' % res['status'], res['tail'][-300:])


def required(agg, tier):
    miss = []
    ev = agg['events']
    for kind in ('mpf', 'mpc', 'mpi', 'mpci'):
        if not ev.get('stores:' + kind):
            miss.append('store hook saw no %s store' % kind)
    if not ev.get('raw tuples leaving primitives (asserted)'):
        miss.append('return tap saw no raw tuple')
    if not ev.get('equal-value pairs compared (==, hash, pickle)') or not ev.get('twin values compared'):
        miss.append('equal-value oracle compared nothing')
    for sec in SEC:
        if not any(k.startswith(sec + '/') and not k.endswith('/raised') for k in agg['classes']):
            miss.append('section %s never completed a case' % sec)
    nf = len([k for k in agg['classes'] if k.startswith('function/')])
    want = len([n for n in K.all_names() if K.ENTRIES[n][0] != 'inspect'])
    if nf < 0.9 * want:
        miss.append('only %d of %d catalog functions were called' % (nf, want))
    for a in ('mpmath.libmp.libmpf:_normalize', 'mpmath.libmp.libmpf:python_mpf_mul_int', 'mpmath.libmp.libmpf:mpf_add',
              'mpmath.libmp.libmpf:from_man_exp'):
        if a in agg['anchors'] and not agg['anchors'][a]:
            miss.append('anchor %s never reached' % a)
    return miss


def replay(case, rec):
    """re-runs the recorded shard up to the recorded case index with the monitor on (cases are generated sequentially
    from the seeded stream, so the prefix is regenerated); reports what the monitor flags for that case"""
    c = case.get('case') or {}
    if isinstance(c, dict) and 'case' in c and isinstance(c['case'], dict):
        c = c['case']
    idx = c.get('index')
    shard_index = c.get('shard')
    tier, seed = case.get('tier', 'quick'), case.get('seed', 0)
    if idx is None:
        rec.undecided('replay file has no case index')
        return
    env = None
    for sh in ([shard_index] if shard_index is not None else range(N_SHARDS)):
        r = G.rng(PROP, seed, sh)
        sub = type(rec)(PROP, {'shard': sh})
        env = make_env(sub, tier)
        try:
            run_cases(env, r, idx + 1, sh)
        finally:
            env.mon.detach()
            env.mon.report(sub)
        for key, ent in sub.viol.items():
            for it in ent['items']:
                ci = it['case'].get('index') if isinstance(it['case'], dict) else None
                if key == case.get('key'):
                    rec.violation(key, it['what'], it['case'], it['observed'], it['expected'])
        rec.evals += 1
        if rec.viol:
            break
