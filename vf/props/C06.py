"""C06 -- floor/ceil/nint/frac/int()/fmod/% follow their exact definitions.

Observed: mp.floor/ceil/nint/frac on mpf, int, float and mpc arguments (context precision and prec=/rounding=
keywords), int(mpf), x % y with y mpf/int/float, int/float % mpf (__rmod__), mp.fmod, libmp.mpf_mod in every
rounding mode.
Oracle: exactq definitions (floor, ceiling, nearest-even, x - floor x, truncation, Python-convention remainder)
-> exact if it fits in p bits, otherwise round_to(p, mode) -> raw tuple equality."""
from vf import exactq as Q
from vf import gens as G
from vf import exact_extra as X

PROP = 'C06'
LEVEL = 'exploration'
RULE = ('seeded stratified generation: function x argument-shape class x rounding mode x entry point x precision; '
        'non-trivial = the argument is not already an integer that fits (floor/ceil/nint/frac/int), or the remainder differs '
        'from the dividend or had to be rounded (mod); distinct = distinct (function, operands, p, mode, entry point)')
ASSUMPTIONS = ['exactq (Python int arithmetic: floor_ex, ceil_ex, nint_ex, frac_ex, trunc_ex, mod_ex, round_to) is correct',
               'operands are injected exactly through ctx.make_mpf/make_mpc (raw tuples) or as exactly equal Python numbers',
               'exponent gaps between dividend and divisor above 2*10^6 are only generated where the result does not need the '
               'implementation to materialise the shift (same-sign small dividend, power-of-two divisor)']
SHARD_TIMEOUT = {'quick': 600, 'thorough': 3600}
LEVEL_TEXT = ('exploration: ~3*10^5 (quick) / ~3.8*10^6 (thorough) generated calls on the real code; every result compared bit-for-bit with '
              'the exact definition (exact when it fits in the precision, else its correct rounding)')
LEVEL_NOTE = 'trusted base: vf/exactq.py (integer arithmetic only); inputs not generated are not covered'
TECHNIQUE = 'runtime reference-model monitor: exact-definition oracle on every observed integer-part / remainder result'

CASES = {'quick': 20000, 'thorough': 240000}
_BIG = 0.0              # share of precisions drawn from the 2500..3500 list (thorough tier only)
FUNCS = ['floor', 'ceil', 'nint', 'frac', 'cfloor', 'cceil', 'cnint', 'cfrac', 'int', 'mod', 'mod-small', 'mod-pow2', 'mod-long',
         'mod-mixed', 'fmod', 'rmod']
XCLASSES = ['lt1', 'half', 'nearint', 'long', 'hugeexp', 'tiny', 'integer', 'zero', 'random', 'quarter']
EXACT = {'floor': Q.floor_ex, 'ceil': Q.ceil_ex, 'nint': Q.nint_ex, 'frac': Q.frac_ex}


def shards(tier, seed):
    return [{'n': CASES[tier]} for _ in range(16)]


def _mp():
    import mpmath
    return mpmath.mp


# ---------------------------------------------------------------------------------------
# arguments
# ---------------------------------------------------------------------------------------

def gen_x(r, cls, p):
    s = r.randint(0, 1)
    if cls == 'lt1':
        k = r.choice([1, 2, 3, 10, p, 2 * p, 200])
        return Q.canon(s, r.randint(1, (1 << k) - 1), -k)
    if cls == 'quarter':
        return Q.canon(s, r.choice([1, 1, 3]), r.choice([-1, -1, -2, -2, -3]))
    if cls == 'half':
        k = r.choice([0, 1, 2, 3, 4, 5, r.getrandbits(10), r.getrandbits(r.choice([20, p, 2 * p, 60]))])
        return Q.canon(s, 2 * k + 1, -1)
    if cls == 'nearint':
        k = r.getrandbits(r.choice([1, 3, 10, p, p + 3, 2 * p])) + r.choice([0, 1])
        j = r.choice([1, 2, 5, p, p + 1, 3 * p, 500])
        return Q.canon(s, max(1, (k << j) + r.choice([-1, 1])), -j)
    if cls == 'long':
        ib = r.choice([p + 1, p + 2, 2 * p, 3 * p + 5])
        fb = r.choice([0, 1, 2, p, 40])
        return Q.canon(s, G.mantissa(r, ib + fb), -fb)
    if cls == 'hugeexp':
        return Q.canon(s, G.mantissa(r, G.mant_bits(r, p)), r.choice([1, p, 1000, 10**6, 10**18, 2**70]))
    if cls == 'tiny':
        return Q.canon(s, G.mantissa(r, G.mant_bits(r, p)), -r.choice([p + 5, 1000, 5000, 10**6, 10**18, 2**70]))
    if cls == 'integer':
        return Q.canon(s, G.mantissa(r, r.randint(1, 3 * p + 2)), r.randint(0, 20))
    if cls == 'zero':
        return Q.fzero
    return G.raw_real(r, p, wild=False, special=0, zero=0.01)


def real_obj(mp, r, x):
    if r.random() < 0.2:
        v = G.as_python_number(r, x)
        if v is not None:
            return v, type(v).__name__
    return mp.make_mpf(x), 'mpf'


def xclass_key(x):
    """argument regime of the integer-rounding routine (documented branches: |x| < 1, exact half, otherwise)"""
    sign, man, exp, bc = x
    if not man:
        return 'zero'
    if exp >= 0:
        return 'already-integer'
    if exp + bc < 1:
        return 'abs-below-1' + ('/exact-half' if man == 1 and exp == -1 else '')
    if exp == -1:
        return 'tie'
    return 'general'


# ---------------------------------------------------------------------------------------
# floor / ceil / nint / frac
# ---------------------------------------------------------------------------------------

def call_fn(mp, fn, arg, p, mode, via):
    f = getattr(mp, fn)
    if via == 'kw':
        return f(arg, prec=p, rounding=mode)
    old = mp.prec
    mp.prec = p
    try:
        return f(arg)
    finally:
        mp.prec = old


def check_fn(mp, rec, r, cell, fn, x, p, mode, via, xcls):
    A = Q.from_raw(x)
    e = EXACT[fn](A)
    want = Q.round_to(e, p, mode)
    arg, ty = real_obj(mp, r, x)
    got = call_fn(mp, fn, arg, p, mode, via)._mpf_
    nontrivial = (x[2] < 0) or not Q.fits(e, p)
    rec.case((cell, X.rid(x), p, mode, via, ty), nontrivial, cls='%s/%s/%s/%s' % (cell, xcls, mode, via))
    case = {'fn': fn, 'x': x, 'prec': p, 'mode': mode, 'via': via, 'type': ty}
    rec.sample(case)
    if got != want:
        rec.violation('C06/%s/%s' % (fn, xclass_key(x)), '%s(x) differs from its exact definition (rounded to %d bits, mode %s)' % (fn, p, mode),
                      case, got, want)


def check_cfn(mp, rec, r, cell, fn, z, p, mode, via, xcls):
    e = (EXACT[fn](Q.from_raw(z[0])), EXACT[fn](Q.from_raw(z[1])))
    want = (Q.round_to(e[0], p, mode), Q.round_to(e[1], p, mode))
    arg = mp.make_mpc(z)
    if r.random() < 0.15:
        fa, fb = X.as_float(z[0]), X.as_float(z[1])
        if fa is not None and fb is not None:
            arg = complex(fa, fb)
    res = call_fn(mp, fn, arg, p, mode, via)
    got = res._mpc_ if hasattr(res, '_mpc_') else (res._mpf_, Q.fzero)
    rec.case((cell, X.rid(z[0]), X.rid(z[1]), p, mode, via), z[0][2] < 0 or z[1][2] < 0 or not (Q.fits(e[0], p) and Q.fits(e[1], p)),
             cls='%s/%s/%s/%s' % (cell, xcls, mode, via))
    case = {'fn': 'c' + fn, 'z': z, 'prec': p, 'mode': mode, 'via': via}
    if got != want:
        bad = 0 if got[0] != want[0] else 1
        rec.violation('C06/%s/complex/%s' % (fn, xclass_key(z[bad])), '%s(z) component differs from its exact definition' % fn, case, got, want)


def check_int(mp, rec, r, cell, x, xcls):
    A = Q.from_raw(x)
    t = Q.trunc_ex(A)
    want = t.n << t.e if t.e >= 0 else t.n
    xo = mp.make_mpf(x)
    got = int(xo) if r.random() < 0.7 else xo.__int__()
    rec.case((cell, X.rid(x)), x[2] < 0, cls='%s/%s' % (cell, xcls))
    if got != want or type(got) is not int:
        rec.violation('C06/int/%s' % xclass_key(x), 'int(x) is not truncation toward zero', {'fn': 'int', 'x': x},
                      got if abs(got) < 1 << 200 else 'int of %d bits' % got.bit_length(),
                      want if abs(want) < 1 << 200 else 'int of %d bits' % want.bit_length())


# ---------------------------------------------------------------------------------------
# modulo
# ---------------------------------------------------------------------------------------

def mod_path(x, y, p, got):
    """mechanism key: documented stages of the remainder (divisor larger than dividend / power-of-two divisor / general)"""
    (ss, sm, se, sb), (ts, tm, te, tb) = x, y
    if not sm:
        return 'zero-dividend'
    if ss == ts and te > se + sb:
        if sb > p and got == x:
            return 'divisor-larger-shortcut/dividend-returned-unrounded'
        return 'divisor-larger-shortcut'
    if tm == 1 and se > te + tb:
        return 'pow2-divisor-shortcut'
    return 'general' + ('/mixed-signs' if ss != ts else '')


def call_mod(mp, x, y, p, mode, via, r):
    import mpmath
    if via == 'libmp':
        return mpmath.libmp.mpf_mod(x, y, p, mode), ['raw', 'raw']
    pr = mp._prec_rounding
    old_prec, old_rnd = mp.prec, pr[1]
    xo, tx = (mp.make_mpf(x), 'mpf')
    yo, ty = (mp.make_mpf(y), 'mpf')
    if via in ('op', 'fmod'):
        if r.random() < 0.4:
            v = G.as_python_number(r, y)
            if v is not None:
                yo, ty = v, type(v).__name__
        if via == 'fmod' and r.random() < 0.3:
            v = G.as_python_number(r, x)
            if v is not None:
                xo, tx = v, type(v).__name__
    elif via == 'rmod':
        v = G.as_python_number(r, x)
        if v is None:
            via = 'op'
        else:
            xo, tx = v, type(v).__name__
    try:
        mp.prec = p
        pr[1] = mode
        if via == 'fmod':
            z = mp.fmod(xo, yo)
        else:
            z = xo % yo
    finally:
        pr[1] = old_rnd
        mp.prec = old_prec
    return z._mpf_, [tx, ty]


def check_mod(mp, rec, r, cell, x, y, p, mode, via):
    X_, Y_ = Q.from_raw(x), Q.from_raw(y)
    e = Q.mod_ex(X_, Y_)
    want = Q.round_to(e, p, mode)
    got, types = call_mod(mp, x, y, p, mode, via, r)
    same = (e.n != 0 and Q.cmp(e, X_) == 0) if x[1] else True
    nontrivial = (not same) or not Q.fits(e, p)
    path = mod_path(x, y, p, got)
    rec.case((cell, X.rid(x), X.rid(y), p, mode, via, tuple(types)), nontrivial, cls='%s/%s/%s/%s' % (cell, path.split('/')[0], mode, via))
    case = {'fn': 'mod', 'x': x, 'y': y, 'prec': p, 'mode': mode, 'via': via, 'types': types}
    rec.sample(case)
    if got != want:
        rec.violation('C06/mod/' + path, 'x %% y differs from the exact remainder rounded to %d bits (mode %s)' % (p, mode), case, got, want)
        return
    # definition re-checked on the exact remainder (oracle self-consistency: sign of y, |r| < |y|, (x - r)/y integer)
    if e.n != 0:
        assert (e.n > 0) == (Y_.n > 0) and Q.cmp(Q.absx(e), Q.absx(Y_)) < 0


def gen_mod(r, cell, p):
    """(x, y) raws for the given modulo class"""
    if cell in ('mod', 'fmod', 'rmod'):
        x = G.raw_real(r, p, wild=False, special=0, zero=0.03)
        y = G.raw_real(r, p, wild=False, special=0, zero=0)
        if abs(x[2] - y[2]) > 3000 and r.random() < 0.8:
            y = (y[0], y[1], x[2] + r.randint(-300, 60), y[3])
        if cell == 'rmod':
            # dividend must be an exact int/float
            if r.random() < 0.5:
                x = Q.canon(r.randint(0, 1), G.mantissa(r, r.randint(1, 53)), r.randint(-60, 60))
            else:
                x = Q.canon(r.randint(0, 1), G.mantissa(r, r.randint(1, 200)), r.randint(0, 40))
            y = Q.canon(r.randint(0, 1), G.mantissa(r, G.mant_bits(r, p) % 300 + 1), r.randint(-80, 80))
        return x, y
    if cell == 'mod-small':
        # |x| < |y|, any gap (the same-sign case must hand back x; mixed signs give x + y)
        s = r.randint(0, 1)
        xb = r.choice([1, p - 1, p, p + 1, p + 2, 2 * p, 3 * p, 151])
        xb = max(1, xb)
        x = Q.canon(s, G.mantissa(r, xb), G.exponent(r, p, wild=False))
        gap = r.choice([1, 2, 3, p, 100, 1000, 10**5, 10**6, 10**18])
        yb = r.choice([1, 1, 2, p, 2 * p])
        same = r.random() < 0.7
        if not same:
            gap = min(gap, r.choice([1, 5, p, 1000, 10**5, 2 * 10**6]))
        # top(y) = top(x) + gap  -> exponent of y: e_y = e_x + xb + gap - yb  (+ sometimes exactly at the boundary)
        ey = x[2] + x[3] + gap - yb + r.choice([0, 0, 0, -1 if gap > 1 else 0])
        y = Q.canon(s if same else 1 - s, G.mantissa(r, yb), ey)
        return x, y
    if cell == 'mod-pow2':
        y = Q.canon(r.randint(0, 1), 1, r.randint(-20, 20))
        k = r.random()
        xb = G.mant_bits(r, p)
        if k < 0.5:
            # multiple of y far above it: exponent of x beyond exponent of y (any distance)
            ex = y[2] + r.choice([1, 2, 3, 50, 10**6, 10**18])
        else:
            ex = y[2] - r.choice([0, 1, 2, xb - 1, xb, xb + 1, 200])
        x = Q.canon(r.randint(0, 1), G.mantissa(r, xb), ex)
        return x, y
    if cell == 'mod-long':
        # x and y with many more bits than the precision, comparable size: the remainder must be rounded
        xb = r.choice([2 * p, 3 * p, 4 * p + 7, 1000])
        yb = r.choice([p + 1, 2 * p, 3 * p, 500])
        x = Q.canon(r.randint(0, 1), G.mantissa(r, xb), r.randint(-50, 50))
        y = Q.canon(r.randint(0, 1), G.mantissa(r, yb), x[2] + xb - yb - r.choice([0, 1, 2, 10, 64, 300]))
        return x, y
    if cell == 'mod-mixed':
        s = r.randint(0, 1)
        x = Q.canon(s, G.mantissa(r, G.mant_bits(r, p)), r.randint(-100, 100))
        y = Q.canon(1 - s, G.mantissa(r, max(1, G.mant_bits(r, p) % 400)), r.randint(-100, 100))
        if r.random() < 0.3:
            # exact multiple (remainder zero) or off by one unit
            k = r.randint(1, 1 << 20)
            ym = int(y[1])
            x = Q.canon(s, ym * k + r.choice([0, 0, 1]), y[2])
        return x, y
    raise ValueError(cell)


# ---------------------------------------------------------------------------------------
def run_case(mp, rec, r, i):
    fn = FUNCS[i % len(FUNCS)]
    xcls = XCLASSES[(i // len(FUNCS)) % len(XCLASSES)]
    mode = G.MODES[(i // (len(FUNCS) * len(XCLASSES))) % 5]
    p = G.pick_prec(r, big=(_BIG > 0 and r.random() < _BIG))
    if fn in ('floor', 'ceil', 'nint', 'frac'):
        via = 'kw' if (mode != 'n' or r.random() < 0.5) else 'ctx'
        check_fn(mp, rec, r, fn, fn, gen_x(r, xcls, p), p, mode, via, xcls)
    elif fn in ('cfloor', 'cceil', 'cnint', 'cfrac'):
        via = 'kw' if (mode != 'n' or r.random() < 0.5) else 'ctx'
        other = r.choice(XCLASSES)
        z = (gen_x(r, xcls, p), gen_x(r, other, p))
        if r.random() < 0.5:
            z = (z[1], z[0])
        check_cfn(mp, rec, r, fn, fn[1:], z, p, mode, via, xcls)
    elif fn == 'int':
        x = gen_x(r, xcls, p)
        if x[2] > 10**6:
            x = (x[0], x[1], r.choice([1, 100, 10**5]), x[3])
        check_int(mp, rec, r, fn, x, xcls)
    else:
        x, y = gen_mod(r, fn, p)
        if fn == 'fmod':
            via = 'fmod'
        elif fn == 'rmod':
            via = 'rmod'
        else:
            via = r.choice(['op', 'op', 'libmp'])
        if via == 'rmod' and mode != 'n' and r.random() < 0.5:
            mode = 'n'
        check_mod(mp, rec, r, fn, x, y, p, mode, via)


def observe_astronomic_mixed_sign(mp, rec):
    """(-2**-(10**18)) % 1: the exact answer is 1 - 2**-(10**18) -> 1.0 at any precision; observed, not asserted
    (the statement does not speak about resource errors)"""
    try:
        z = mp.make_mpf((1, 1, -10**18, 1)) % mp.make_mpf((0, 1, 0, 1))
        out = repr(z._mpf_)
    except (MemoryError, OverflowError, ValueError) as e:
        out = type(e).__name__
    rec.note('observed (not asserted): (-2**-(10**18)) % 1', out, cap=1)


def run_shard(shard, rec):
    global _BIG
    if shard.get('tier') == 'thorough':
        _BIG = 0.12
    mp = _mp()
    r = G.rng(PROP, shard['seed'], shard['shard'])
    from vf.instrument import AnchorCount
    with AnchorCount(rec, ['mpmath.libmp.libmpf:mpf_round_int', 'mpmath.libmp.libmpf:mpf_floor', 'mpmath.libmp.libmpf:mpf_ceil',
                           'mpmath.libmp.libmpf:mpf_nint', 'mpmath.libmp.libmpf:mpf_frac', 'mpmath.libmp.libmpf:mpf_mod',
                           'mpmath.libmp.libmpf:to_int', 'mpmath.libmp.libmpc:mpc_floor', 'mpmath.libmp.libmpc:mpc_frac',
                           'mpmath.libmp.libmpc:mpc_nint', 'mpmath.libmp.libmpc:mpc_ceil']):
        base = shard['shard'] * 1013
        for k in range(shard['n']):
            run_case(mp, rec, r, base + k * 3)
        if shard['shard'] == 0:
            observe_astronomic_mixed_sign(mp, rec)
    rec.event('results compared with the exact definition', rec.evals)


def required(agg, tier):
    miss = []
    cl = agg['classes']
    for fn in FUNCS:
        if not any(k.startswith(fn + '/') for k in cl):
            miss.append('no %s case observed' % fn)
    for need in ('divisor-larger-shortcut', 'pow2-divisor-shortcut', 'general'):
        if not any(k.split('/')[1:2] == [need] for k in cl if k.startswith('mod')):
            miss.append('modulo path %s never observed' % need)
    for fn in ('floor', 'ceil', 'nint', 'frac'):
        for xc in ('lt1', 'half', 'long'):
            if not any(k.startswith('%s/%s/' % (fn, xc)) for k in cl):
                miss.append('%s never observed on argument class %s' % (fn, xc))
    return miss


def replay(case, rec):
    mp = _mp()
    from vf.core import unjson_int
    import random
    c = case['case']

    def raw(t):
        return (int(t[0]), unjson_int(t[1]), unjson_int(t[2]), int(t[3]))

    class R0(random.Random):
        def random(self): return 1.0
    r = R0(0)
    fn = c['fn']
    if fn in EXACT:
        check_fn(mp, rec, r, 'replay', fn, raw(c['x']), int(c['prec']), c['mode'], c['via'], 'replay')
    elif fn[1:] in EXACT and fn[0] == 'c':
        check_cfn(mp, rec, r, 'replay', fn[1:], (raw(c['z'][0]), raw(c['z'][1])), int(c['prec']), c['mode'], c['via'], 'replay')
    elif fn == 'int':
        check_int(mp, rec, r, 'replay', raw(c['x']), 'replay')
    elif fn == 'mod':
        via = c['via'] if c['via'] in ('op', 'libmp', 'fmod') else 'op'
        check_mod(mp, rec, r, 'replay', raw(c['x']), raw(c['y']), int(c['prec']), c['mode'], via)
    else:
        rec.undecided('unknown replay case')
