"""C02 -- basic real arithmetic is correctly rounded in every rounding mode.

Observed: results of + - * / sqrt neg abs, fadd/fsub/fmul/fdiv/fneg (prec/dps/rounding/exact/prec=inf),
mixed int/float/mpf operands, mpf()/convert construction, fsum/fdot inside the stated envelope.
Oracle: exactq (exact rational result -> correct rounding -> raw tuple equality)."""
import math
from fractions import Fraction
from vf import exactq as Q
from vf import gens as G

PROP = 'C02'
LEVEL = 'exploration'
RULE = ('seeded stratified generation: op x rounding mode x exponent-gap class x mantissa-length class x precision; '
        'a case is non-trivial when the exact result does not fit in p bits (it was rounded) or a special-value rule applies; '
        'distinct = distinct (op, operands, p, mode)')
ASSUMPTIONS = ['exactq (Python int/Fraction arithmetic, twin round_to implementations) is correct',
               'operands are injected exactly through ctx.make_mpf (raw tuple), results read from ._mpf_']
SHARD_TIMEOUT = {'quick': 300, 'thorough': 2400}
LEVEL_TEXT = ('exploration: ~5*10^5 (quick) / ~10^7 (thorough) generated operations on the real code, every result compared '
              'bit-for-bit with the correct rounding of the exact rational result; generators target ties, sticky bits, '
              'far-apart and overlapping exponents, operand mantissas longer than the precision, all 5 rounding modes')
LEVEL_NOTE = 'trusted base: vf/exactq.py (Python int arithmetic; round_to cross-checked against an independent naive form in setup); inputs not generated are not covered'
TECHNIQUE = 'runtime reference-model monitor: exact rational oracle on every observed arithmetic result'

N_QUICK, N_THOROUGH = 16, 16
CASES = {'quick': 30000, 'thorough': 700000}
OPS = ['add', 'sub', 'mul', 'div', 'sqrt', 'neg', 'abs', 'ctor', 'fsum', 'fdot', 'special', 'exactkw', 'tie']


def shards(tier, seed):
    n = N_QUICK if tier == 'quick' else N_THOROUGH
    return [{'n': CASES[tier]} for _ in range(n)]


# ---------------------------------------------------------------------------------------
def _mp():
    import mpmath
    return mpmath.mp


def _mk(mp, raw):
    return mp.make_mpf(raw)


def _operand(mp, r, raw):
    """the raw value as mpf, or (sometimes) as an exactly equal int / float"""
    if r.random() < 0.25:
        v = G.as_python_number(r, raw)
        if v is not None:
            return v, type(v).__name__
    return _mk(mp, raw), 'mpf'


def special_binary(op, a, b):
    """Documented special-value rules (IEEE-like), written from the documentation.  Returns exact value /
    special string / 'ZDE' / None when the statement does not pin the result."""
    A, B = Q.from_raw(a), Q.from_raw(b)
    if op in ('add', 'sub'):
        if op == 'sub':
            B = Q.neg(B)
        return Q.add(A, B)
    if op == 'mul':
        return Q.mul(A, B)
    if op == 'div':
        if not Q.is_special(B) and B.n == 0:
            if Q.is_special(A):
                return None          # inf/0, nan/0: not pinned by the statement
            return 'ZDE'
        if A == Q.NAN or B == Q.NAN:
            return Q.NAN
        if Q.is_special(A) and Q.is_special(B):
            return Q.NAN
        if Q.is_special(B):
            return Q.Ex(0)
        if Q.is_special(A):
            sa = 1 if A == Q.PINF else -1
            return Q.PINF if sa * B.sign() > 0 else Q.NINF
        return Q.div(A, B)
    raise ValueError(op)


def classify_add(a, b, p):
    """mechanism key for an add/sub misrounding: which path of the addition was (by its documented switch
    conditions) responsible"""
    (sa, ma, ea, ba), (sb, mb, eb, bb) = a, b
    if not ma or not mb:
        return 'zero-or-special'
    if ea < eb:
        (ma, ea, ba), (mb, eb, bb) = (mb, eb, bb), (ma, ea, ba)
    offset = ea - eb
    delta = (ba + ea) - (bb + eb)
    if offset > 100 and delta > p + 4:
        # perturbation path; does the small operand overlap the bits of the large one?
        if eb + bb > ea and ba > p:
            return 'perturbation-with-overlapping-long-operand'
        return 'perturbation'
    return 'exact-path'


def check_binary(mp, rec, r, op, a, b, p, mode, via, cls):
    ident = (op, a[:3], b[:3], p, mode, via)
    exp = special_binary(op, a, b)
    if exp is None:
        return
    special = Q.is_special(Q.from_raw(a)) or Q.is_special(Q.from_raw(b)) or exp == 'ZDE'
    x, tx = _operand(mp, r, a)
    y, ty = _operand(mp, r, b)
    if tx != 'mpf' and ty != 'mpf' and via == 'op':
        x, tx = _mk(mp, a), 'mpf'
    case = {'op': op, 'a': a, 'b': b, 'prec': p, 'mode': mode, 'via': via, 'types': [tx, ty]}
    try:
        if via == 'op':
            old = mp.prec
            mp.prec = p
            try:
                if op == 'add': z = x + y
                elif op == 'sub': z = x - y
                elif op == 'mul': z = x * y
                else: z = x / y
            finally:
                mp.prec = old
        else:
            f = {'add': mp.fadd, 'sub': mp.fsub, 'mul': mp.fmul, 'div': mp.fdiv}[op]
            kw = {'rounding': mode}
            if via == 'fdps':
                pass
            kw['prec'] = p
            z = f(x, y, **kw)
        got = z._mpf_
    except ZeroDivisionError:
        got = 'ZDE'
    if exp == 'ZDE':
        want = 'ZDE'
        nontrivial = True
    else:
        want = Q.round_to(exp, p, mode)
        nontrivial = special or not Q.fits(exp, p)
    rec.case(ident, nontrivial, cls='%s/%s/%s/%s' % (op, mode, via, cls))
    rec.sample(case)
    if got != want:
        if special:
            key = 'C02/special/' + op
        elif op in ('add', 'sub'):
            key = 'C02/add/' + classify_add(a, b, p)
        else:
            key = 'C02/' + op
        rec.violation(key, '%s not correctly rounded (mode %s, prec %d)' % (op, mode, p), case, observed=got, expected=want)


def check_unary(mp, rec, r, op, a, p, mode):
    A = Q.from_raw(a)
    x = _mk(mp, a)
    via = 'f'
    case = {'op': op, 'a': a, 'prec': p, 'mode': mode}
    if op == 'sqrt':
        if (not Q.is_special(A) and A.sign() < 0) or A == Q.NINF:
            return
        if Q.is_special(A):
            exp = A
        elif A.n == 0:
            exp = Q.Ex(0)
        else:
            exp = Q.sqrt_ex(A, p)
        if r.random() < 0.3 and mode == 'n':
            old = mp.prec; mp.prec = p
            try:
                z = x.sqrt() if r.random() < 0.5 else mp.sqrt(x)
            finally:
                mp.prec = old
            via = 'op'
        else:
            z = mp.sqrt(x, prec=p, rounding=mode)
    else:
        exp = Q.neg(A) if op == 'neg' else Q.absx(A)
        if r.random() < 0.4 and mode == 'n':
            old = mp.prec; mp.prec = p
            try:
                z = -x if op == 'neg' else abs(x)
            finally:
                mp.prec = old
            via = 'op'
        elif op == 'neg':
            z = mp.fneg(x, prec=p, rounding=mode)
        else:
            old = mp.prec; mp.prec = p
            try:
                z = mp.fabs(x)
            finally:
                mp.prec = old
            mode = 'n'
    got = z._mpf_
    want = Q.round_to(exp, p, mode)
    nontrivial = Q.is_special(exp) or exp.s != 0 or not Q.fits(exp, p)
    rec.case((op, a[:3], p, mode, via), nontrivial, cls='%s/%s/%s' % (op, mode, via))
    if got != want:
        rec.violation('C02/' + op, '%s not correctly rounded (mode %s, prec %d)' % (op, mode, p), case, got, want)


def check_ctor(mp, rec, r, p, mode):
    kind = r.choice(['int', 'float', 'Fraction', 'mpf', 'mpq'])
    if kind == 'int':
        v = r.choice([1, -1]) * (G.mantissa(r, G.mant_bits(r, p)) << r.choice([0, 0, 1, 7, 200]))
        ex = Q.Ex(v)
    elif kind == 'float':
        import struct
        bits = r.getrandbits(64)
        v = struct.unpack('<d', struct.pack('<Q', bits))[0]
        ex = Q.from_float(v)
    elif kind in ('Fraction', 'mpq'):
        n = r.choice([1, -1]) * r.randint(1, 1 << r.choice([3, 20, 80, 300]))
        d = r.randint(1, 1 << r.choice([3, 20, 80, 300]))
        if r.random() < 0.3:
            # quotient next to a rounding boundary: n/d ~ (m + 1/2) 2^-k
            m = (G.mantissa(r, max(2, p)) << 1) | 1
            n = m * d + r.choice([-1, 0, 1])
            d = d << (p + 1)
        v = Fraction(n, d)
        ex = Q.from_fraction(v)
    else:
        raw = G.raw_real(r, p)
        v = _mk(mp, raw)
        ex = Q.from_raw(raw)
    case = {'op': 'ctor', 'type': kind, 'value': repr(v), 'prec': p, 'mode': mode}
    form = r.choice(['mpf', 'convert', 'binop'])
    old = mp.prec
    try:
        if kind in ('Fraction', 'mpq'):
            # mpf(Fraction) is exercised through the documented conversion routes: convert() and mixed arithmetic
            mp.prec = p
            if kind == 'mpq':
                from mpmath.rational import mpq
                vv = mpq(v.numerator, v.denominator)
            else:
                vv = v
            if form == 'mpf':
                mp.prec = old
                case['form'] = 'mpf(x, prec=, rounding=)'
                try:
                    z = mp.mpf(vv, prec=p, rounding=mode)
                except TypeError as e:
                    rec.case(('ctor', kind, repr(v), p, mode), True, cls='ctor/%s/%s' % (kind, mode))
                    rec.violation('C02/ctor/%s-TypeError' % kind, 'mpf(%s) raises TypeError instead of converting' % kind,
                                  case, repr(e), Q.round_to(ex, p, mode))
                    return
            elif form == 'binop':
                z = mp.mpf(0) + vv
                case['form'] = '0+x'
                mode = 'n'
            else:
                z = mp.convert(vv)
                case['form'] = 'convert'
                mode = 'n'
        elif form == 'mpf' or kind == 'mpf':
            z = mp.mpf(v, prec=p, rounding=mode)
            case['form'] = 'mpf(prec=,rounding=)'
        elif form == 'convert':
            # convert of int/float is documented exact
            z = mp.convert(v)
            want = Q.exact_raw(ex) if not Q.is_special(ex) else Q.raw_of_special(ex)
            rec.case(('convert', kind, repr(v)), True, cls='ctor/convert/' + kind)
            if z._mpf_ != want:
                rec.violation('C02/ctor/convert-' + kind, 'convert(%s) not exact' % kind, case, z._mpf_, want)
            return
        else:
            mp.prec = p
            z = +mp.mpf(v)
            mode = 'n'
            case['form'] = '+mpf(x)'
    finally:
        mp.prec = old
    got = z._mpf_
    want = Q.round_to(ex, p, mode)
    rec.case(('ctor', kind, repr(v), p, mode), Q.is_special(ex) or not Q.fits(ex, p), cls='ctor/%s/%s' % (kind, mode))
    if got != want:
        rec.violation('C02/ctor/' + kind, 'construction from %s not correctly rounded' % kind, case, got, want)


def check_sum(mp, rec, r, p, mode, dot):
    """fsum / fdot inside the envelope: terms with <= p-bit mantissas whose magnitudes span fewer than p bits"""
    if p < 4:
        p = 4
    n = r.randint(1, 12)
    top = r.randint(-50, 50)
    terms = []
    for i in range(n):
        if dot:
            b1 = r.randint(1, max(1, p // 2)); b2 = r.randint(1, max(1, p - b1))
            m1, m2 = G.mantissa(r, b1), G.mantissa(r, b2)
            t = top - r.randint(0, p - 1)
            e2 = r.randint(-20, 20)
            # product top = e1+e2+bitlen(m1*m2)
            bl = (m1 * m2).bit_length()
            e1 = t - bl - e2
            x = Q.canon(r.randint(0, 1), m1, e1); y = Q.canon(r.randint(0, 1), m2, e2)
            terms.append((x, y))
        else:
            b = r.randint(1, p)
            m = G.mantissa(r, b)
            t = top - r.randint(0, p - 1)
            terms.append(Q.canon(r.randint(0, 1), m, t - b))
    if not dot and r.random() < 0.3 and n >= 2:
        # force heavy cancellation: append the negation of an earlier term (perturbed in its last bit)
        s, m, e, bc = terms[0]
        terms.append((1 - s, m, e, bc))
    ex = Q.Ex(0)
    if dot:
        for x, y in terms:
            ex = Q.add(ex, Q.mul(Q.from_raw(x), Q.from_raw(y)))
        xs = [_operand(mp, r, x)[0] for x, y in terms]
        ys = [_operand(mp, r, y)[0] for x, y in terms]
    else:
        for t in terms:
            ex = Q.add(ex, Q.from_raw(t))
        xs = [_operand(mp, r, t)[0] for t in terms]
    old = mp.prec
    mp.prec = p
    try:
        z = mp.fdot(xs, ys) if dot else mp.fsum(xs)
    finally:
        mp.prec = old
    got = z._mpf_
    want = Q.round_to(ex, p, 'n')
    op = 'fdot' if dot else 'fsum'
    rec.case((op, tuple(map(str, terms)), p), not Q.fits(ex, p), cls=op)
    if got != want:
        rec.violation('C02/' + op, '%s not correctly rounded inside the envelope' % op,
                      {'op': op, 'terms': terms, 'prec': p}, got, want)


def check_exactkw(mp, rec, r, p):
    op = r.choice(['add', 'sub', 'mul'])
    a, b, g = G.pair_with_gap(r, p, r.choice(['0', '1', 'small', 'p', 'p+5', '101', '2p', '1000']))
    A, B = Q.from_raw(a), Q.from_raw(b)
    if Q.is_special(A) or Q.is_special(B):
        return
    ex = {'add': Q.add, 'sub': Q.sub, 'mul': Q.mul}[op](A, B)
    f = {'add': mp.fadd, 'sub': mp.fsub, 'mul': mp.fmul}[op]
    kw = r.choice([{'exact': True}, {'prec': mp.inf}, {'dps': mp.inf}])
    z = f(_mk(mp, a), _mk(mp, b), **kw)
    want = Q.exact_raw(ex)
    rec.case(('exact', op, a[:3], b[:3]), True, cls='exactkw/' + op)
    if z._mpf_ != want:
        rec.violation('C02/exact-keyword/' + op, 'f%s(exact/prec=inf) not exact' % op,
                      {'op': op, 'a': a, 'b': b, 'kw': repr(kw)}, z._mpf_, want)


def boundary_pair(r, p, op):
    """operands whose exact result sits on / next to a rounding boundary at precision p"""
    if op in ('add', 'sub'):
        t = G.tie_value(r, p)                 # target = a op b
        a = G.raw_real(r, p, wild=False, special=0, zero=0)
        A, T = Q.from_raw(a), Q.from_raw(t)
        B = Q.sub(T, A) if op == 'add' else Q.sub(A, T)
        if B.n == 0:
            return a, a
        return a, Q.exact_raw(B)
    if op == 'mul':
        # factors of 2^k-1 style products and (m+1/2) splits
        k = r.choice([p + 1, p + 2, 2 * p, 2 * p + 1])
        n = (1 << k) - 1
        f = r.choice([3, 5, 7, 15, 17, 31, 255, 257, 65535])
        while n % f:
            f = r.choice([1, 3, 5, 7])
            if f == 1:
                break
        a = Q.canon(r.randint(0, 1), f, r.randint(-30, 30))
        b = Q.canon(r.randint(0, 1), n // f, r.randint(-30, 30))
        if r.random() < 0.5:
            m = (G.mantissa(r, p) << 1) | 1
            a = Q.canon(r.randint(0, 1), m, r.randint(-30, 30))
            b = Q.canon(r.randint(0, 1), r.choice([1, 3, 5, 9, 1025]), r.randint(-30, 30))
        return a, b
    # div: a = b*(m+1/2) +- 1   -> quotient next to a tie
    bb = G.mantissa(r, r.choice([2, 5, p // 2 + 1, p]))
    m = (G.mantissa(r, p) << 1) | 1
    am = bb * m + r.choice([-1, 0, 1, 0])
    if am <= 0:
        am = bb * m
    return Q.canon(r.randint(0, 1), am, r.randint(-30, 30)), Q.canon(r.randint(0, 1), bb, r.randint(-30, 30))


def run_case(mp, rec, r, i):
    op = OPS[i % len(OPS)]
    mode = G.MODES[(i // len(OPS)) % 5]
    p = G.pick_prec(r, big=False)
    if op in ('add', 'sub', 'mul', 'div'):
        g = G.GAPS[(i // (len(OPS) * 5)) % len(G.GAPS)]
        long_big = None
        if op in ('add', 'sub') and r.random() < 0.35:
            long_big = r.choice([p + 1, p + 5, 2 * p, 3 * p + 7, 305])      # long large operand (overlap cases)
        a, b, g = G.pair_with_gap(r, p, g, long_big=long_big)
        if r.random() < 0.04:
            a = r.choice(G.SPECIALS)
        if r.random() < 0.04:
            b = r.choice(G.SPECIALS)
        via = 'op' if (mode == 'n' and r.random() < 0.5) else 'f'
        check_binary(mp, rec, r, op, a, b, p, mode, via, 'gap:' + g)
    elif op == 'tie':
        bop = r.choice(['add', 'sub', 'mul', 'div'])
        a, b = boundary_pair(r, p, bop)
        via = 'op' if (mode == 'n' and r.random() < 0.5) else 'f'
        check_binary(mp, rec, r, bop, a, b, p, mode, via, 'boundary')
    elif op in ('sqrt', 'neg', 'abs'):
        if op == 'sqrt' and r.random() < 0.5:
            # m^2, m^2 +- 1, (m+1/2)^2 +- d
            m = G.mantissa(r, r.choice([p, p + 1, max(1, p // 2), p + 3]))
            k = r.random()
            if k < 0.3:
                v = m * m
            elif k < 0.6:
                v = m * m + r.choice([-1, 1])
            else:
                h = (m << 1) | 1
                v = h * h + r.choice([-1, 0, 1]) * r.choice([1, 2, 1 << r.randint(0, p)])
            if v <= 0:
                v = m * m
            a = Q.canon(0, v, 2 * r.randint(-20, 20) + r.randint(0, 1))
        else:
            a = G.raw_real(r, p)
        check_unary(mp, rec, r, op, a, p, mode)
    elif op == 'ctor':
        check_ctor(mp, rec, r, p, mode)
    elif op in ('fsum', 'fdot'):
        check_sum(mp, rec, r, p, mode, op == 'fdot')
    elif op == 'special':
        bop = r.choice(['add', 'sub', 'mul', 'div'])
        a = r.choice(G.SPECIALS) if r.random() < 0.7 else G.raw_real(r, p)
        b = r.choice(G.SPECIALS) if r.random() < 0.7 else G.raw_real(r, p)
        check_binary(mp, rec, r, bop, a, b, p, mode, r.choice(['op', 'f']) if mode == 'n' else 'f', 'special')
    elif op == 'exactkw':
        check_exactkw(mp, rec, r, p)


def run_shard(shard, rec):
    mp = _mp()
    r = G.rng(PROP, shard['seed'], shard['shard'])
    from vf.instrument import AnchorCount
    with AnchorCount(rec, ['mpmath.libmp.libmpf:mpf_add', 'mpmath.libmp.libmpf:mpf_mul', 'mpmath.libmp.libmpf:mpf_div',
                           'mpmath.libmp.libmpf:mpf_sqrt', 'mpmath.libmp.libmpf:mpf_sum', 'mpmath.libmp.libmpf:mpf_pos',
                           'mpmath.libmp.libmpf:from_rational']):
        for i in range(shard['n']):
            run_case(mp, rec, r, i + shard['shard'] * 7)
    rec.event('results compared with exact rounding', rec.evals)


def required(agg, tier):
    miss = []
    for op in ('add', 'sub', 'mul', 'div', 'sqrt', 'ctor', 'fsum', 'fdot'):
        if not any(k.startswith(op + '/') or k == op for k in agg['classes']):
            miss.append('no %s case observed' % op)
    return miss


def replay(case, rec):
    mp = _mp()
    c = case['case']
    import random
    r = random.Random(0)

    def raw(t):
        from vf.core import unjson_int
        return (int(t[0]), unjson_int(t[1]), unjson_int(t[2]), int(t[3]))
    op = c['op']
    if op in ('add', 'sub', 'mul', 'div'):
        class R0(object):
            def random(self): return 1.0
        a, b = raw(c['a']), raw(c['b'])
        check_binary(mp, rec, R0(), op, a, b, c['prec'], c['mode'], c['via'], 'replay')
    elif op in ('sqrt', 'neg', 'abs'):
        class R1(object):
            def random(self): return 1.0
        check_unary(mp, rec, R1(), op, raw(c['a']), c['prec'], c['mode'])
    else:
        rec.undecided('replay of %s cases re-runs the seeded shard instead' % op)
