"""C42 -- numerical inverse Laplace transforms are accurate on standard problems.

Observed: values returned by invertlaplace (talbot / stehfest / dehoog; through the method keyword and the shortcut
functions; degree given or not) for Laplace-space functions with closed-form inverses.
Oracle: the closed-form time function evaluated by the reference release at 4*prec+100 bits with exactly transferred dyadic
parameters; tolerance 10^(3-dps/2) relative (dps replaced by the precision a user-chosen degree corresponds to under the
documented degree rule of each method when that is smaller)."""
import math
from fractions import Fraction as Fr
from vf import gens as G
from vf.builderM import fr, mk, hexq, unhexq, dyadic, flo

PROP = 'C42'
LEVEL = 'exploration'
NEEDS_REF = True
RULE = ('seeded stratified generation: method (talbot, stehfest, dehoog) x transform family (1/(p+a)^k, partial fractions, w/(p^2+w^2), '
        'p/(p^2+w^2), 1/sqrt(p^2+w^2), exp(-a sqrt p)/p, log(p)/p, 1/p, 1/p^2) x t in [1/64, 10] x dps 15..50 x degree (default / given); '
        'a case is non-trivial when it lies inside the envelope and the returned value was compared with the closed form; '
        'distinct = distinct (method, family, parameters, t, dps, degree)')
ASSUMPTIONS = ['the reference release (mpmath 1.3.0) at 4*prec+100 bits evaluates exp/sin/cos/log/erfc/besselj(0,.)/euler with relative error '
               'far below 10^-(dps+20)',
               'envelope (a priori, from the statement and the method docstrings): |singularity| * t <= 8; |f(t)| >= 1/16 of its natural scale for '
               'the oscillating / sign-changing inverses (sin, cos, J0, -gamma-log t); erfc argument a/(2 sqrt t) <= 2; '
               'stehfest is not asserted on oscillatory inverses (docstring: "does not work well with oscillatory functions"); '
               'talbot is not asserted on 1/sqrt(p^2+w^2) (branch cuts on the imaginary axis cross its contour; docstring: the method fails '
               'when the deformed contour lies to the left of a singularity)',
               'degree given: the tolerance uses dps_eff = min(dps, degree/k) with k = 2.37 (talbot: degree = 1.38*1.72 dps), 2.93 (stehfest), '
               '1.36 (dehoog), the methods\' own documented degree rules',
               'the working precision is restored by the harness after every call (precision restoration itself is property C11)']
LEVEL_TEXT = ('exploration: ~2.5*10^3 (quick) / ~1.4*10^4 (thorough) inversions on the real code, each compared with the closed-form inverse')
LEVEL_NOTE = 'transform pairs, times and precisions not generated are not covered; the oracle is the reference release at high precision'
TECHNIQUE = 'runtime result monitor: closed-form reference for every returned inverse transform value'
SHARD_TIMEOUT = {'quick': 1800, 'thorough': 7200}

NSHARDS = 16
COUNTS = {'quick': 160, 'thorough': 850}
METHODS = ['talbot', 'stehfest', 'dehoog']
FAMS = ['pole1', 'pole2', 'pole3', 'pole4', 'pf', 'sin', 'cos', 'j0', 'erfc', 'logp', 'one', 'ramp']
FAMCLASS = {'pole1': 'real-poles', 'pole2': 'real-poles', 'pole3': 'real-poles', 'pole4': 'real-poles', 'pf': 'real-poles',
            'sin': 'complex-poles', 'cos': 'complex-poles', 'j0': 'branch-points-imag-axis', 'erfc': 'branch-cut-neg-real',
            'logp': 'log-singularity', 'one': 'pole-at-origin', 'ramp': 'pole-at-origin'}
OSC = ('sin', 'cos', 'j0')
DEGK = {'talbot': 2.37, 'stehfest': 2.93, 'dehoog': 1.36}
DPS = [15, 20, 25, 30, 40, 50]
TS = [Fr(1, 64), Fr(1, 32), Fr(3, 64), Fr(1, 8), Fr(1, 4), Fr(1, 2), Fr(3, 4), Fr(1), Fr(3, 2), Fr(2), Fr(3), Fr(5), Fr(8), Fr(10)]


def shards(tier, seed):
    return [{'n': COUNTS[tier]} for _ in range(NSHARDS)]


def _mp():
    import mpmath
    return mpmath.mp


def _ref():
    from vf import refmodel
    return refmodel.ref().mp


def default_degree(method, dps):
    if method == 'talbot':
        return max(12, int(1.38 * int(1.72 * dps)))
    if method == 'stehfest':
        return max(16, int(2.93 * dps))
    return max(10, int(dps * 1.36))


def gen_case(r, i):
    fam = FAMS[i % len(FAMS)]
    method = METHODS[(i // len(FAMS)) % 3]
    dps = DPS[(i // (len(FAMS) * 3)) % len(DPS)] if r.random() < 0.8 else r.randint(15, 50)
    t = r.choice(TS) if r.random() < 0.7 else dyadic(r, Fr(1, 64), 10, 64)
    lim = min(Fr(8) / t, Fr(48))
    if fam == 'pf':
        lim = lim / 2
    if fam == 'erfc':
        lim = max(Fr(1, 16), Fr(int(4 * math.sqrt(float(t)) * 16), 16))
    a = dyadic(r, Fr(1, 16), max(Fr(1, 16), lim), 16)
    if r.random() < 0.1:
        a = a * 2          # now and then outside the envelope (observation only)
    deg = None
    if r.random() < 0.3:
        deg = max(6, int(r.choice([0.5, 0.75, 1.0, 1.5]) * default_degree(method, dps)))
    via = r.choice(['kw', 'kw', 'shortcut', 'class'])
    return {'fam': fam, 'method': method, 'dps': dps, 't': hexq(t), 'a': hexq(a), 'degree': deg, 'via': via}


def laplace_F(mp, fam, A):
    if fam.startswith('pole'):
        k = int(fam[4])
        return lambda p: 1 / (p + A) ** k
    if fam == 'pf':
        return lambda p: 1 / (p + A) + 2 / (p + A / 2) + mp.mpf(1) / 2 / (p + 2 * A)
    if fam == 'sin':
        return lambda p: A / (p * p + A * A)
    if fam == 'cos':
        return lambda p: p / (p * p + A * A)
    if fam == 'j0':
        return lambda p: 1 / mp.sqrt(p * p + A * A)
    if fam == 'erfc':
        return lambda p: mp.exp(-A * mp.sqrt(p)) / p
    if fam == 'logp':
        return lambda p: mp.log(p) / p
    if fam == 'one':
        return lambda p: 1 / p
    if fam == 'ramp':
        return lambda p: 1 / (p * p)
    raise ValueError(fam)


def time_f(M, fam, A, T):
    """(value, natural scale) of the inverse transform at T"""
    one = M.mpf(1)
    if fam.startswith('pole'):
        k = int(fam[4])
        v = T ** (k - 1) * M.exp(-A * T) / M.factorial(k - 1)
        return v, abs(v)
    if fam == 'pf':
        v = M.exp(-A * T) + 2 * M.exp(-A * T / 2) + M.exp(-2 * A * T) / 2
        return v, abs(v)
    if fam == 'sin':
        return M.sin(A * T), one
    if fam == 'cos':
        return M.cos(A * T), one
    if fam == 'j0':
        return M.besselj(0, A * T), one
    if fam == 'erfc':
        v = M.erfc(A / (2 * M.sqrt(T)))
        return v, abs(v)
    if fam == 'logp':
        return -M.euler - M.log(T), one
    if fam == 'one':
        return one, one
    return T + 0, T + 0


def run_case(mp, rec, spec):
    fam, method, dps, deg = spec['fam'], spec['method'], spec['dps'], spec['degree']
    t, a = unhexq(spec['t']), unhexq(spec['a'])
    ident = ('invlap', method, fam, spec['a'], spec['t'], dps, deg, spec['via'])
    # envelope ------------------------------------------------------------------------------
    sing = {'pf': 2 * a, 'erfc': Fr(0), 'logp': Fr(0), 'one': Fr(0), 'ramp': Fr(0)}.get(fam, a)
    inside = sing * t <= 8 and Fr(1, 64) <= t <= 10 and 15 <= dps <= 50
    if fam == 'erfc':
        inside = inside and a * a <= 16 * t          # a/(2 sqrt t) <= 2
    reason = None
    if method == 'stehfest' and fam in OSC:
        inside, reason = False, 'stehfest on an oscillatory inverse (documented weakness)'
    if method == 'talbot' and fam == 'j0':
        inside, reason = False, 'talbot with branch cuts on the imaginary axis (documented failure mode)'
    old = mp.prec
    try:
        mp.dps = dps
        A, T = mk(mp, a), mk(mp, t)
        F = laplace_F(mp, fam, A)
        kw = {}
        if deg is not None:
            kw['degree'] = deg
        try:
            if spec['via'] == 'shortcut':
                v = {'talbot': mp.invlaptalbot, 'stehfest': mp.invlapstehfest, 'dehoog': mp.invlapdehoog}[method](F, T, **kw)
            elif spec['via'] == 'class':
                from mpmath.calculus import inverselaplace as IL
                v = mp.invertlaplace(F, T, method={'talbot': IL.FixedTalbot, 'stehfest': IL.Stehfest, 'dehoog': IL.deHoog}[method], **kw)
            else:
                v = mp.invertlaplace(F, T, method=method, **kw)
            exc = None
        except Exception as e:
            exc = e
    finally:
        mp.prec = old
    rmp = _ref()
    oldr = rmp.prec
    try:
        rmp.prec = 4 * int(dps * 3.33 + 10) + 100
        V, scale = time_f(rmp, fam, mk(rmp, a), mk(rmp, t))
        Vq, Sq = fr(V), fr(scale)
    finally:
        rmp.prec = oldr
    if inside and fam in OSC + ('logp',) and abs(Vq) < Sq / 16:
        inside, reason = False, 'inverse transform near one of its zeros (relative error not meaningful)'
    cls = '%s/%s/%s' % (method, FAMCLASS[fam], 'degree' if deg else 'default')
    if not inside:
        rec.event('outside the envelope (observation only)')
        if exc is None:
            try:
                rel = flo(abs(fr(v) - Vq) / abs(Vq)) if Vq else None
            except Exception:
                rel = None
            if rel is not None and rel > 10 ** (3 - dps / 2.0):
                rec.note('outside envelope: %s' % (reason or '|singularity|*t > 8 or tiny f(t)'),
                         {'method': method, 'fam': fam, 'dps': dps, 't': flo(t), 'a': flo(a), 'rel_err': rel})
        return
    if exc is not None:
        rec.case(ident, True, cls=cls + '/raised')
        rec.violation('C42/%s/%s/raised' % (method, FAMCLASS[fam]), 'invertlaplace raised on a standard problem inside the envelope', spec,
                      observed='%s: %s' % (type(exc).__name__, str(exc)[:100]))
        return
    rec.case(ident, True, cls=cls)
    rec.event('inverse transforms compared with the closed form')
    try:
        vq = fr(v)
    except Exception:
        rec.violation('C42/%s/%s/non-finite' % (method, FAMCLASS[fam]), 'invertlaplace returned a non-finite / non-real value', spec, observed=repr(v)[:100])
        return
    deff = dps if deg is None else min(dps, deg / DEGK[method])
    tolq = Fr(math.pow(10.0, 3 - deff / 2.0))
    err = abs(vq - Vq)
    bound = tolq * abs(Vq)
    ratio = err / bound
    if err:
        rec.maximum('log10(relative error / tolerance) %s' % method, round(math.log10(flo(ratio)), 2),
                    {'fam': fam, 'dps': dps, 't': flo(t), 'a': flo(a), 'degree': deg})
    g = Fr(1, 1 << 20)
    if ratio > 1 + g:
        rec.violation('C42/%s/%s' % (method, FAMCLASS[fam]), 'invertlaplace misses the closed-form inverse by more than 10^(3-dps/2) relative',
                      spec, observed={'value': flo(vq), 'rel_err': flo(err / abs(Vq))}, expected={'f(t)': flo(Vq), 'tol': flo(tolq)},
                      severity=round(math.log10(flo(ratio)), 1))
    elif ratio > 1 - g:
        rec.undecided('error within the guard band of the tolerance', spec)
    rec.sample({'method': method, 'fam': fam, 'dps': dps, 't': flo(t), 'a': flo(a), 'degree': deg, 'rel_err': flo(err / abs(Vq))})


def run_shard(shard, rec):
    mp = _mp()
    r = G.rng(PROP, shard['seed'], shard['shard'])
    from vf.instrument import AnchorCount
    k = shard['shard']
    with AnchorCount(rec, ['mpmath.calculus.inverselaplace:LaplaceTransformInversionMethods.invertlaplace',
                           'mpmath.calculus.inverselaplace:FixedTalbot.calc_time_domain_solution',
                           'mpmath.calculus.inverselaplace:Stehfest.calc_time_domain_solution',
                           'mpmath.calculus.inverselaplace:deHoog.calc_time_domain_solution']):
        for i in range(shard['n']):
            spec = gen_case(r, i * NSHARDS + k)
            mp.prec = 53
            try:
                run_case(mp, rec, spec)
            finally:
                mp.prec = 53


def required(agg, tier):
    miss = []
    if not agg['events'].get('inverse transforms compared with the closed form'):
        miss.append('monitor saw nothing: no inverse transform compared')
    for m in METHODS:
        for fc in ('real-poles', 'branch-cut-neg-real', 'log-singularity', 'pole-at-origin'):
            if not any(k.startswith('%s/%s/' % (m, fc)) and not k.endswith('/raised') for k in agg['classes']):
                miss.append('no compared case for %s on %s' % (m, fc))
    for m in ('talbot', 'dehoog'):
        if not any(k.startswith('%s/complex-poles/' % m) for k in agg['classes']):
            miss.append('no compared case for %s on complex poles' % m)
    if not any(k.startswith('dehoog/branch-points-imag-axis/') for k in agg['classes']):
        miss.append('no compared case for dehoog on 1/sqrt(p^2+w^2)')
    return miss


def replay(case, rec):
    mp = _mp()
    mp.prec = 53
    run_case(mp, rec, case['case'])
