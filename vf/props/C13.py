"""C13 -- exact cases and special values of the elementary functions are exact.

Observed: values returned for exact input/output pairs (exp(0), log(1), perfect squares / cubes / n-th powers with mantissas
up to and beyond the precision, sinpi/cospi at integers and half-integers of any size, powm1 at and next to x**y = 1), in every
rounding mode where the function takes a rounding keyword; finiteness (and accuracy) of tan/cot/sec/csc at the nearest q-bit
neighbours of k pi/2 with q >> p; documented limits at +-inf / nan.
Oracle: exact (tuple equality against exactq values); vf.ball for the values next to k pi/2 and for atan(+-inf) = +-pi/2."""
import math
from vf import gens as G
from vf import exactq as Q
from vf import ball as B
from vf.exactq import canon, fzero, fnan, finf, fninf

PROP = 'C13'
LEVEL = 'exploration'
RULE = ('seeded generation per family: zero/one arguments x function x type (mpf/mpc/int) x rounding mode x precision; perfect squares, '
        'cubes and n-th powers m^n 2^(nk) with mantissa length 1..2p; integers and half-integers up to 2^(10^5) for sinpi/cospi/expjpi; '
        'exact-one and near-one pairs for powm1; q-bit neighbours of k pi/2 (q up to 10p); limit table.  Every case is non-trivial (an '
        'exact special-case branch or remainder test must fire); distinct = distinct (family, function, arguments, p, mode)')
ASSUMPTIONS = ['exactq (Python ints) decides equality exactly', 'ball enclosures for the values next to k pi/2 and pi/2 are correct',
               'the table of documented limits was transcribed from function_docs.py (exp, cosh, sinh, tanh, cos, sin, tan, sec, csc, cot, '
               'sqrt, log, atan, sinc) plus nan -> nan',
               'x**y = 1 for Gaussian dyadic x, y exactly when y = 0, x = 1, or x in {-1, i, -i} with the matching integer y '
               '(Gelfond-Schneider / roots of unity among Gaussian dyadics)']
LEVEL_TEXT = ('exploration: ~2*10^5 (quick) / ~3*10^6 (thorough) exact pairs on the real code, tuple equality; rounding keyword exercised '
              'in all 5 modes for sqrt, cbrt, exp, ln, sin, cos, tan, atan, sinh, cosh, tanh, asin, acos, asinh, acosh, atanh, sinpi, '
              'cospi, expj, expjpi')
LEVEL_NOTE = 'inputs not generated are not covered; cbrt/root of perfect powers whose root is longer than p bits are observed, not asserted'
TECHNIQUE = 'runtime exact-oracle monitor on special-case branches (remainder tests, exact half-integer reduction, limit tables)'
SHARD_TIMEOUT = {'quick': 900, 'thorough': 3600}
N_SHARDS = 16
CASES = {'quick': 12000, 'thorough': 200000}
MODES = G.MODES
fone = (0, 1, 0, 1)
MODE_CLASS = {'n': 'nearest', 'f': 'down', 'd': 'down', 'c': 'up', 'u': 'up'}
fnone = (1, 1, 0, 1)

# functions taking prec= / rounding= keywords (ctx._wrap_libmp_function)
KW = ('sqrt', 'cbrt', 'ln', 'atan', 'exp', 'expj', 'expjpi', 'sin', 'cos', 'tan', 'sinh', 'cosh', 'tanh', 'asin', 'acos', 'asinh',
      'acosh', 'atanh', 'sinpi', 'cospi')

# f(arg) = value exactly; arg/value as small ints
ZERO_TABLE = [
    ('exp', 0, 1), ('expm1', 0, 0), ('ln', 1, 0), ('log', 1, 0), ('log10', 1, 0), ('log1p', 0, 0), ('sqrt', 0, 0), ('sqrt', 1, 1),
    ('cbrt', 0, 0), ('cbrt', 1, 1), ('sin', 0, 0), ('cos', 0, 1), ('tan', 0, 0), ('sinh', 0, 0), ('cosh', 0, 1), ('tanh', 0, 0),
    ('asin', 0, 0), ('acos', 1, 0), ('atan', 0, 0), ('asinh', 0, 0), ('acosh', 1, 0), ('atanh', 0, 0), ('sinpi', 0, 0), ('cospi', 0, 1),
    ('sinc', 0, 1), ('sec', 0, 1), ('sech', 0, 1),
]
ZERO_TABLE_COMPLEX_VALUE = [('expj', 0, (1, 0)), ('expjpi', 0, (1, 0)), ('expjpi', 1, (-1, 0)), ('expjpi', -1, (-1, 0))]

# documented limits (function_docs.py): (function, argument raw, expected: raw | 'nan' | ('pi/2', sign))
LIMITS = [
    ('exp', finf, finf), ('exp', fninf, fzero), ('cosh', finf, finf), ('cosh', fninf, finf), ('sinh', finf, finf), ('sinh', fninf, fninf),
    ('tanh', finf, fone), ('tanh', fninf, fnone), ('cos', finf, 'nan'), ('sin', finf, 'nan'), ('tan', finf, 'nan'),
    ('sec', finf, 'nan'), ('csc', finf, 'nan'), ('cot', finf, 'nan'), ('sqrt', finf, finf), ('ln', fzero, fninf), ('ln', finf, finf),
    ('log', fzero, fninf), ('log', finf, finf), ('atan', finf, ('pi/2', 1)), ('atan', fninf, ('pi/2', -1)), ('sinc', finf, fzero),
]
NAN_FUNCS = ('exp', 'ln', 'sqrt', 'sin', 'cos', 'tan', 'sinh', 'cosh', 'tanh', 'atan', 'cbrt', 'asinh', 'expm1')


def shards(tier, seed):
    return [{'n': CASES[tier]} for _ in range(N_SHARDS)]


def _mp():
    import mpmath
    return mpmath.mp


def _hx(o):
    """repr with ints in hex (CPython refuses decimal conversion of very long ints)"""
    if isinstance(o, bool) or o is None or isinstance(o, str):
        return repr(o)
    if isinstance(o, int):
        return hex(o)
    if isinstance(o, (list, tuple)):
        return '[' + ','.join(_hx(v) for v in o) + ']'
    return repr(o)


def raw_int(n):
    return canon(1 if n < 0 else 0, abs(n), 0) if n else fzero


def _parts(v):
    if hasattr(v, '_mpf_'):
        return tuple(v._mpf_), None
    if hasattr(v, '_mpc_'):
        return tuple(v._mpc_[0]), tuple(v._mpc_[1])
    return None


def _call(mp, fname, args, p, mode, use_kw):
    """call at precision p; with the rounding keyword when asked (then the context precision is left at its default)"""
    f = getattr(mp, fname)
    if use_kw:
        return f(*args, prec=p, rounding=mode)
    old = mp.prec
    mp.prec = p
    try:
        return f(*args)
    finally:
        mp.prec = old


def _expect(mp, rec, family, fname, args_desc, args, p, mode, use_kw, want_re, want_im, key=None, nontrivial=True, cls=None):
    """want_im None: an mpf result is required (or, if complex_ok, an mpc with that real part and zero imaginary part)"""
    case = {'family': family, 'f': fname, 'args': args_desc, 'prec': p, 'mode': mode, 'kw': use_kw}
    rec.case((family, fname, _hx(args_desc), p, mode, use_kw), nontrivial, cls=cls or '%s/%s' % (family, fname))
    rec.event('exact pairs compared')
    try:
        v = _call(mp, fname, args, p, mode, use_kw)
    except Exception as ex:      # noqa
        rec.violation(key or 'C13/%s/%s/raises:%s' % (family, fname, type(ex).__name__), '%s raises on an exact case' % fname, case,
                      observed=repr(ex), expected=[want_re, want_im])
        return None
    got = _parts(v)
    if got is None:
        # python number (e.g. int power): compare by value
        got = (Q.exact_raw(Q.from_int(v)) if isinstance(v, int) else None, None)
    ok = got[0] == want_re and (got[1] == want_im or (want_im in (None, fzero) and got[1] in (None, fzero)))
    if not ok:
        rec.violation(key or 'C13/%s/%s' % (family, fname), '%s: exact value not returned exactly' % fname, case, observed=got,
                      expected=[want_re, want_im])
    return got


# ---------------------------------------------------------------------------------------
def fam_zero(mp, rec, r, p, mode):
    t = r.random()
    if t < 0.85:
        fname, a, v = r.choice(ZERO_TABLE)
        typ = r.choice(['int', 'mpf', 'mpc'])
        if typ == 'int':
            arg = a
        elif typ == 'mpf':
            arg = mp.make_mpf(raw_int(a))
        else:
            arg = mp.make_mpc((raw_int(a), fzero))
        use_kw = fname in KW and r.random() < 0.7
        m = mode if use_kw else 'n'
        want_im = fzero if typ == 'mpc' else None
        key = None
        if fname == 'cbrt':
            key = 'C13/cbrt/%s/one/%s' % (MODE_CLASS[m], 'p<400' if p < 400 else ('p<2000' if p < 2000 else 'p>=2000'))
        _expect(mp, rec, 'zero', fname, [typ, a], [arg], p, m, use_kw, raw_int(v), want_im, key=key)
    else:
        fname, a, (vr, vi) = r.choice(ZERO_TABLE_COMPLEX_VALUE)
        if a and r.random() < 0.5:
            a = a * (2 * r.getrandbits(r.choice([3, 70, 300])) + 1)       # any odd integer: expjpi = -1
        typ = r.choice(['int', 'mpf', 'mpc'])
        arg = a if typ == 'int' else (mp.make_mpf(raw_int(a)) if typ == 'mpf' else mp.make_mpc((raw_int(a), fzero)))
        use_kw = r.random() < 0.7
        m = mode if use_kw else 'n'
        _expect(mp, rec, 'zero', fname, [typ, a], [arg], p, m, use_kw, raw_int(vr), raw_int(vi))


def fam_two_arg_exact(mp, rec, r, p):
    """power(x,0)=1, power(1,y)=1, root(0,n)=0, root(1,n)=1, hypot(0,0)=0, hypot(x,0)=|x| (|x| fits), atan2(0,x>0)=0, log(1,b)=0"""
    k = r.randrange(8)
    x = G.raw_real(r, p, wild=False, special=0, zero=0, bits=r.randint(1, p))
    X = mp.make_mpf(x)
    if k == 0:
        _expect(mp, rec, 'two-arg', 'power', ['x', x, 0], [X, r.choice([0, mp.mpf(0)])], p, 'n', False, fone, None)
    elif k == 1:
        _expect(mp, rec, 'two-arg', 'power', [1, 'y', x], [r.choice([1, mp.mpf(1)]), X], p, 'n', False, fone, None)
    elif k == 2:
        n = r.choice([1, 2, 3, 5, 10, 50, 1000])
        _expect(mp, rec, 'two-arg', 'root', [0, n], [r.choice([0, mp.mpf(0)]), n], p, 'n', False, fzero, None)
    elif k == 3:
        n = r.choice([1, 2, 3, 5, 10, 50, 1000, 10 ** 6])
        _expect(mp, rec, 'two-arg', 'root', [1, n], [r.choice([1, mp.mpf(1)]), n], p, 'n', False, fone, None)
    elif k == 4:
        _expect(mp, rec, 'two-arg', 'hypot', [0, 0], [0, 0], p, 'n', False, fzero, None)
    elif k == 5:
        ax = (0, x[1], x[2], x[3])
        a = [X, 0] if r.random() < 0.5 else [0, X]
        _expect(mp, rec, 'two-arg', 'hypot', ['x', x, 0], a, p, 'n', False, ax, None)
    elif k == 6:
        ax = mp.make_mpf((0, x[1], x[2], x[3]))
        _expect(mp, rec, 'two-arg', 'atan2', [0, '+x', x], [0, ax], p, 'n', False, fzero, None)
    else:
        b = r.choice([2, 10, 16, mp.mpf(3), mp.mpf(0.5)])
        _expect(mp, rec, 'two-arg', 'log', [1, repr(b)], [1, b], p, 'n', False, fzero, None)


def _mant(r, p):
    bits = r.choice([1, 2, 3, p // 3, p // 2, p // 2 + 1, p - 1, p, p, p + 1, p + 2, 2 * p, r.randint(1, 2 * p + 3)])
    return G.mantissa(r, max(1, bits))


def fam_sqrt(mp, rec, r, p, mode):
    m = _mant(r, p)
    k = r.choice([0, 0, 1, -1, r.randint(-40, 40), r.choice([1000, -1000, 10 ** 6, -10 ** 6, 2 ** 70])])
    arg = canon(0, m * m, 2 * k)
    root = Q.Ex(m, 1, k)
    want = Q.round_to(root, p, mode)
    fits = m.bit_length() <= p
    use_kw = r.random() < 0.8
    md = mode if use_kw else 'n'
    if not use_kw:
        want = Q.round_to(root, p, 'n')
    t = r.random()
    cls = 'sqrt/%s/%s' % ('fits' if fits else 'longer-than-p', md)
    if t < 0.6:
        _expect(mp, rec, 'sqrt', 'sqrt', [arg], [mp.make_mpf(arg)], p, md, use_kw, want, None, cls=cls)
    elif t < 0.8:
        neg = (1, arg[1], arg[2], arg[3])
        _expect(mp, rec, 'sqrt', 'sqrt', ['neg', arg], [mp.make_mpf(neg)], p, md, use_kw, fzero, want, cls=cls + '/negative')
    else:
        _expect(mp, rec, 'sqrt', 'sqrt', ['mpc', arg], [mp.make_mpc((arg, fzero))], p, md, use_kw, want, fzero, cls=cls + '/mpc')


def fam_cbrt_root(mp, rec, r, p, mode):
    t = r.random()
    if t < 0.5:
        n, fname = 3, 'cbrt'
    else:
        n, fname = r.choice([2, 3, 4, 5, 6, 7, 9, 10, 11, 13, 16, 17, 25, 50, 100]), 'root'
    bits = r.choice([1, 2, 3, p // 3, p // 2, p - 1, p, p, r.randint(1, p)])
    if n * bits > 40000:
        bits = max(1, 40000 // n)
    m = G.mantissa(r, max(1, bits), pattern='ones' if r.random() < 0.15 else None)
    k = r.choice([0, 0, 1, -1, r.randint(-40, 40), r.choice([1000, -1000, 10 ** 5, -10 ** 5])])
    arg = canon(0, m ** n, n * k)
    want = canon(0, m, k)
    pb = 'p<400' if p < 400 else ('p<2000' if p < 2000 else 'p>=2000')
    if fname == 'cbrt':
        use_kw = r.random() < 0.8
        md = mode if use_kw else 'n'
        mc = 'one' if m == 1 else ('ones' if m & (m + 1) == 0 else 'other')
        key = 'C13/cbrt/%s/%s/%s' % (MODE_CLASS[md], mc, pb)
        _expect(mp, rec, 'cbrt', 'cbrt', [arg], [mp.make_mpf(arg)], p, md, use_kw, want, None, key=key, cls='cbrt/' + md)
    else:
        key = 'C13/root/%s/%s' % ('n<=20' if n <= 20 else 'n>20', pb)
        _expect(mp, rec, 'root', 'root', [arg, n], [mp.make_mpf(arg), n], p, 'n', False, want, None, key=key, cls='root/n=%d' % n)
    # roots longer than p bits: observed only
    if r.random() < 0.05:
        m2 = G.mantissa(r, p + r.randint(1, p))
        a2 = canon(0, m2 ** 3, 0)
        try:
            v = _call(mp, 'cbrt', [mp.make_mpf(a2)], p, 'n', False)
            ok = tuple(v._mpf_) == Q.round_to(Q.Ex(m2), p, 'n')
            rec.event('cbrt of a perfect cube with a root longer than p bits: %s' % ('correctly rounded' if ok else 'not correctly rounded'))
        except Exception:
            rec.event('cbrt of a long perfect cube raised')


def fam_pi(mp, rec, r, p, mode):
    """sinpi / cospi / expjpi at integers and half-integers of any size"""
    q = r.random()
    if q < 0.5:
        n = r.randint(-1000, 1000)
    elif q < 0.8:
        n = r.choice([-1, 1]) * r.getrandbits(r.choice([40, 64, 200, 1000]))
    else:
        n = r.choice([-1, 1]) * (G.mantissa(r, r.randint(1, p)) << r.choice([10, 100, 1000, 100000]))
    half = r.random() < 0.5
    # x = n (+ 1/2)
    if half:
        x = canon(1 if (2 * n + 1) < 0 else 0, abs(2 * n + 1), -1)
        s = 1 if (n % 2 == 0) else -1          # sin(pi(n+1/2)) = (-1)^n
        vals = {'sinpi': raw_int(s), 'cospi': fzero, 'expjpi': (fzero, raw_int(s))}
    else:
        x = raw_int(n)
        c = 1 if (n % 2 == 0) else -1
        vals = {'sinpi': fzero, 'cospi': raw_int(c), 'expjpi': (raw_int(c), fzero)}
    fname = r.choice(['sinpi', 'cospi', 'expjpi'])
    typ = r.choice(['mpf', 'mpc'])
    arg = mp.make_mpf(x) if typ == 'mpf' else mp.make_mpc((x, fzero))
    use_kw = r.random() < 0.8
    md = mode if use_kw else 'n'
    cls = 'pi/%s/%s/%s' % (fname, 'half' if half else 'int', md)
    if fname == 'expjpi':
        _expect(mp, rec, 'pi', fname, [typ, x], [arg], p, md, use_kw, vals[fname][0], vals[fname][1], cls=cls)
    else:
        _expect(mp, rec, 'pi', fname, [typ, x], [arg], p, md, use_kw, vals[fname], fzero if typ == 'mpc' else None, cls=cls)


def fam_powm1(mp, rec, r, p):
    q = r.random()
    case_cls = None
    if q < 0.5:
        # exact ones
        k = r.randrange(6)
        if k == 0:
            x = r.choice([mp.make_mpf(G.raw_real(r, p, wild=False, special=0, zero=0)), 3, -7,
                          mp.make_mpc((G.raw_real(r, p, wild=False, special=0, zero=0), G.raw_real(r, p, wild=False, special=0, zero=0)))])
            y = r.choice([0, mp.mpf(0), mp.mpc(0, 0)])
            desc = ['x**0']
        elif k == 1:
            x = r.choice([1, mp.mpf(1), mp.mpc(1, 0)])
            y = r.choice([mp.make_mpf(G.raw_real(r, p, wild=False, special=0, zero=0.1)), r.randint(-50, 50),
                          mp.make_mpc((G.raw_real(r, p, wild=False, special=0, zero=0), G.raw_real(r, p, wild=False, special=0, zero=0)))])
            desc = ['1**y']
        elif k == 2:
            x = r.choice([-1, mp.mpf(-1), mp.mpc(-1, 0)])
            n = 2 * r.randint(-500, 500)
            y = r.choice([n, mp.mpf(n)])
            desc = ['(-1)**even', n]
        elif k == 3:
            x = r.choice([mp.mpc(0, 1), mp.mpc(0, -1)])
            n = 4 * r.randint(-200, 200)
            y = r.choice([n, mp.mpf(n)])
            desc = ['(+-i)**(4k)', n]
        elif k == 4:
            x = r.choice([-1, mp.mpf(-1)])
            n = 2 * (r.getrandbits(r.choice([30, 64])) + 1)
            y = n
            desc = ['(-1)**big-even', n]
        else:
            x = mp.mpc(0, r.choice([1, -1]))
            n = 4 * r.randint(1, 10 ** 6)
            y = n
            desc = ['(+-i)**(4k) large', n]
        case = {'family': 'powm1', 'args': desc, 'x': repr(x), 'y': repr(y), 'prec': p}
        rec.case(('powm1-one', repr(x), repr(y), p), True, cls='powm1/exact-one/' + desc[0])
        rec.event('exact pairs compared')
        old = mp.prec
        mp.prec = p
        try:
            try:
                v = mp.powm1(x, y)
            except Exception as ex:     # noqa
                rec.violation('C13/powm1/raises:%s' % type(ex).__name__, 'powm1 raises where x**y = 1', case, repr(ex), 0)
                return
        finally:
            mp.prec = old
        got = _parts(v)
        if got is None or got[0] != fzero or got[1] not in (None, fzero):
            rec.violation('C13/powm1/exact-one/' + desc[0], 'powm1(x, y) != 0 although x**y = 1 exactly', case, observed=got, expected=0)
        return
    # x**y != 1: the result must not be zero
    k = r.randrange(6)
    j = r.choice([1, 5, 20, p - 1, p, 2 * p, 3 * p])
    if k == 0:
        x = mp.make_mpf(canon(0, (1 << j) + r.choice([-1, 1]), -j))
        y = r.choice([mp.make_mpf(G.raw_real(r, p, wild=False, special=0, zero=0)), r.randint(1, 50), -r.randint(1, 50)])
        desc = '(1+-2^-j)**y'
    elif k == 1:
        x = r.choice([2, mp.mpf(3), mp.mpf(0.5)])
        y = mp.make_mpf(canon(r.randint(0, 1), G.mantissa(r, r.randint(1, p)), -r.choice([p, 2 * p, 1000, 100000])))
        desc = 'x**tiny'
    elif k == 2:
        x = r.choice([-1, mp.mpf(-1)])
        y = 2 * r.randint(-500, 500) + 1
        desc = '(-1)**odd'
    elif k == 3:
        x = mp.mpc(0, r.choice([1, -1]))
        y = 4 * r.randint(-100, 100) + r.choice([1, 2, 3])
        desc = '(+-i)**(4k+r)'
    elif k == 4:
        x = mp.make_mpc((canon(0, (1 << j) + r.choice([-1, 1]), -j), fzero)) if r.random() < 0.5 else \
            mp.make_mpc((fone, canon(r.randint(0, 1), 1, -j)))
        y = r.choice([1, 2, 3, mp.mpf(0.5)])
        desc = 'complex near 1'
    else:
        x = mp.make_mpf(canon(1, (1 << j) + r.choice([-1, 1]), -j))
        y = 2 * r.randint(1, 50)
        desc = '(-1+-2^-j)**even'
    case = {'family': 'powm1', 'args': desc, 'x': repr(x), 'y': repr(y), 'prec': p}
    rec.case(('powm1-notone', repr(x), repr(y), p), True, cls='powm1/not-one/' + desc)
    rec.event('exact pairs compared')
    old = mp.prec
    mp.prec = p
    try:
        try:
            v = mp.powm1(x, y)
        except Exception as ex:      # noqa
            rec.violation('C13/powm1/raises:%s' % type(ex).__name__, 'powm1 raises at a finite argument', case, repr(ex), 'nonzero')
            return
    finally:
        mp.prec = old
    got = _parts(v)
    if got is not None and got[0] == fzero and got[1] in (None, fzero):
        rec.violation('C13/powm1/not-one/' + desc, 'powm1(x, y) == 0 although x**y != 1', case, observed=got, expected='nonzero')


def near_pi2(r, bits):
    k = r.choice([1, 1, 2, 3, 4, 5, 7, r.randint(1, 1000), r.getrandbits(r.choice([20, 64, 128, 200])) | 1])
    W = bits + k.bit_length() + 8
    plo, phi = B._pi_fixed(W)
    m, e = k * plo, -W - 1
    bl = m.bit_length()
    if bl > bits:
        s = bl - bits
        m = (m + (1 << (s - 1))) >> s
        e += s
    if r.random() < 0.5:
        m = -m
    return m, e


def fam_poles(mp, rec, r, p, mode):
    """tan, cot, sec, csc at the nearest q-bit neighbours of k pi/2, q >> p: finite, and accurate to 2^(4-p)"""
    q = r.choice([2 * p, 4 * p, 10 * p, p + 1000, 3 * p + 50])
    m, e = near_pi2(r, q)
    x = canon(1 if m < 0 else 0, abs(m), e)
    fname = r.choice(['tan', 'cot', 'sec', 'csc'])
    use_kw = fname == 'tan' and r.random() < 0.5
    md = mode if use_kw else 'n'
    case = {'family': 'poles', 'f': fname, 'x': x, 'prec': p, 'q': q, 'mode': md}
    rec.case(('poles', fname, x[:3], p, md), True, cls='poles/%s/q=%s' % (fname, 'p+1000' if q == p + 1000 else '%dp' % (q // p)))
    rec.event('values next to k pi/2 decided against a ball enclosure')
    try:
        v = _call(mp, fname, [mp.make_mpf(x)], p, md, use_kw)
    except Exception as ex:     # noqa
        rec.violation('C13/poles/%s/raises:%s' % (fname, type(ex).__name__), '%s raises at a finite argument next to k pi/2' % fname,
                      case, repr(ex), 'finite')
        return
    got = _parts(v)
    if got is None or got[1] is not None or (got[0][1] == 0 and got[0] != fzero):
        rec.violation('C13/poles/%s/nonfinite' % fname, '%s not finite (or not real) next to k pi/2' % fname, case, got, 'finite real')
        return
    # directed modes round within one ulp: 2^(4-p) covers them too
    enc = B.enclose(fname, [('R', x)], p, decide=lambda E: B.decide_rel_error(got[0], E, 4 - p))
    if enc.value is None or enc.verdict == 'undecided':
        rec.undecided('no decisive enclosure next to k pi/2', case)
    elif enc.verdict == 'violated':
        rec.violation('C13/poles/%s/inaccurate' % fname, '%s next to k pi/2: relative error >= 2^(4-p)' % fname, case, got,
                      repr(enc.value))


def fam_limits(mp, rec, r, p, mode):
    if r.random() < 0.75:
        fname, a, want = r.choice(LIMITS)
    else:
        fname, a, want = r.choice(NAN_FUNCS), fnan, 'nan'
    use_kw = fname in KW and r.random() < 0.6
    md = mode if use_kw else 'n'
    arg = mp.make_mpf(a)
    case = {'family': 'limits', 'f': fname, 'arg': a, 'prec': p, 'mode': md}
    rec.case(('limits', fname, a, p, md, use_kw), True, cls='limits/%s' % fname)
    rec.event('exact pairs compared')
    try:
        v = _call(mp, fname, [arg], p, md, use_kw)
    except Exception as ex:    # noqa
        rec.violation('C13/limits/%s/raises:%s' % (fname, type(ex).__name__), '%s raises at inf/nan' % fname, case, repr(ex), repr(want))
        return
    got = _parts(v)
    if want == 'nan':
        ok = got is not None and got[0] == fnan or (got is not None and got[1] == fnan)
    elif isinstance(want, tuple) and want[0] == 'pi/2':
        ok = False
        if got is not None and got[1] is None and got[0][1]:
            with B.prec(p + 40):
                h = B.pi().ldexp(-1)
                if want[1] < 0:
                    h = -h
            ok = B.decide_rel_error(got[0], h, 1 - p) == 'held'       # within 2 ulp (any rounding mode)
    else:
        ok = got is not None and got[0] == want and got[1] in (None, fzero)
    if not ok:
        rec.violation('C13/limits/%s' % fname, '%s at %s does not follow the documented limit' % (fname, a), case, got, repr(want))


FAMILIES = [('zero', 3), ('two-arg', 1), ('sqrt', 4), ('cbrt-root', 4), ('pi', 4), ('powm1', 2), ('poles', 2), ('limits', 1)]


def pick_prec(r, tier):
    x = r.random()
    if x < 0.03:
        return r.choice(G.PRECS_BIG)
    if x < 0.15:
        return r.choice(G.PRECS_THRESH)
    if x < 0.6:
        return r.choice([4, 5, 10, 15, 24, 53, 53, 64, 100, 113, 200, 333])
    return r.randint(4, 400)


def run_case(mp, rec, r, fam, tier):
    p = pick_prec(r, tier)
    mode = r.choice(MODES)
    if fam == 'zero':
        fam_zero(mp, rec, r, p, mode)
    elif fam == 'two-arg':
        fam_two_arg_exact(mp, rec, r, p)
    elif fam == 'sqrt':
        fam_sqrt(mp, rec, r, p, mode)
    elif fam == 'cbrt-root':
        fam_cbrt_root(mp, rec, r, p, mode)
    elif fam == 'pi':
        fam_pi(mp, rec, r, p, mode)
    elif fam == 'powm1':
        fam_powm1(mp, rec, r, max(p, 10))
    elif fam == 'poles':
        fam_poles(mp, rec, r, max(p, 10) if p < 1500 else 333, mode)
    else:
        fam_limits(mp, rec, r, p, mode)


ANCHORS = ['mpmath.libmp.libmpf:mpf_sqrt', 'mpmath.libmp.libelefun:mpf_nthroot', 'mpmath.libmp.libelefun:mpf_cos_sin',
           'mpmath.libmp.libelefun:mpf_exp', 'mpmath.libmp.libelefun:mpf_log', 'mpmath.libmp.libelefun:mpf_atan',
           'mpmath.functions.functions:powm1', 'mpmath.libmp.libelefun:mpf_cbrt']


def run_shard(shard, rec):
    mp = _mp()
    r = G.rng(PROP, shard['seed'], shard['shard'])
    sched = [f for f, w in FAMILIES for _ in range(w)]
    from vf.instrument import AnchorCount
    with AnchorCount(rec, ANCHORS):
        for i in range(shard['n']):
            run_case(mp, rec, r, sched[(i + shard['shard']) % len(sched)], shard['tier'])


def required(agg, tier):
    miss = []
    fams = set(k.split('/')[0] for k in agg['classes'])
    for f in ('zero', 'two-arg', 'sqrt', 'cbrt', 'root', 'pi', 'powm1', 'poles', 'limits'):
        if f not in fams:
            miss.append('family %s never observed' % f)
    if not agg['events'].get('exact pairs compared'):
        miss.append('no exact pair compared')
    for m in MODES:
        if not any(k.startswith('sqrt/') and k.split('/')[2:3] == [m] for k in agg['classes']):
            miss.append('sqrt never observed in rounding mode %s' % m)
    for a in ('mpmath.libmp.libmpf:mpf_sqrt', 'mpmath.libmp.libelefun:mpf_nthroot', 'mpmath.libmp.libelefun:mpf_cos_sin'):
        if a in agg['anchors'] and not agg['anchors'][a]:
            miss.append('anchor %s never reached' % a)
    return miss


def replay(case, rec):
    rec.undecided('replay of C13 cases re-runs the seeded shard (cases are generated objects); see case description', case.get('case'))
