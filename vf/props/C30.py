"""C30 -- linear algebra results are accurate and factorizations are consistent.

Observed: lu_solve / qr_solve / cholesky_solve / inverse / det results, lu / LU_decomp / qr / cholesky factors,
matrix + - * ** T H norm mnorm, and the exception raised for exactly singular input.
Oracle: vf.linalgq (exact rational / Gaussian-rational linear algebra on the exact dyadic entries); every
comparison is an exact rational inequality (norm bounds are upper/lower rounded with integer square roots).

Readings fixed a priori (see docs/C30.md):
* cond(A) = ||A||_inf * ||A^-1||_inf (operator inf-norm, exact inverse, upper-rounded); for an overdetermined
  system the condition number of the (documented) equivalent square system A^H A is used.
* relative error of a vector / matrix result X against the exact X*:  ||X - X*||_inf <= tol * ||X*||_inf
  (norm-wise; operator inf-norm, i.e. max |x_i| for a vector).
* "moderate condition number": cond <= 2^(p/3);  least squares: additionally ||r|| <= 8 ||A x*||.
* factor identities: ||PA - LU||_inf <= 2^(10-p) ||L||_inf ||U||_inf;  ||A - QR||_F <= 2^(10-p) ||A||_F;
  ||Q^H Q - I||_F <= 2^(10-p);  ||A - L L^H||_F <= 2^(10-p) ||A||_F;  structure (zeros, unit diagonal,
  permutation, real positive diagonal) exact.
* arithmetic: an entry whose exact value is representable with p bits must be returned exactly; otherwise
  |got - exact| <= 2^(1-p) * (sum of the magnitudes of the exact terms); powers 2^(4-p) * (|A|^k)_ij.
"""
import math
from fractions import Fraction
from vf import exactq as Q
from vf import gens as G
from vf import linalgq as L

PROP = 'C30'
LEVEL = 'exploration'
RULE = ('seeded stratified generation: operation x entry kind (int, dyadic, decimal string, graded conditioning, SPD/HPD, '
        'sparse/zero-leading, singular) x real/complex x size x precision; a case is non-trivial when the exact result is '
        'not representable at the working precision (rounding happened) or a structural rule applies (singular input, '
        'exact-representable result that must be returned exactly); distinct = distinct (operation, exact entries, p)')
ASSUMPTIONS = ['vf/linalgq.py (Fraction / Gaussian-rational elimination, integer-sqrt norm bounds) is correct; it is '
               'self-tested (det multiplicativity, A*inv(A)=I, normal equations, Laplace expansion)',
               'operands are injected exactly (raw tuples) or through the documented constructors and read back exactly',
               'readings of cond(A), of the relative error of a vector/matrix and of "moderate condition" are the ones '
               'fixed in the module docstring before looking at results']
LEVEL_TEXT = ('exploration: ~2*10^4 (quick) / ~3*10^5 (thorough) generated solves, factorizations and matrix operations on '
              'the real code, each decided by an exact rational computation')
LEVEL_NOTE = ('trusted base: vf/linalgq.py; inputs not generated are not covered; the tolerance constants 2^(10-p) come from '
              'the statement, the norms from the stated reading')
TECHNIQUE = 'runtime reference-model monitor: exact rational linear algebra oracle on every observed result'
SHARD_TIMEOUT = {'quick': 800, 'thorough': 10800}   # thorough: a shard needs ~150 CPU-s; the cap only bounds hangs (a loaded machine at 5% CPU per worker exceeded the former 2400 s)

NSHARDS = 16
CASES = {'quick': 2500, 'thorough': 25000}
MAXSIZE = {'quick': 5, 'thorough': 8}
PRECS = [30, 33, 40, 53, 64, 100, 113, 200, 300]

SOLVE_OPS = ['lu_solve', 'qr_solve', 'inverse', 'det', 'cholesky_solve', 'lu_solve_over', 'qr_solve_over']
FACTOR_OPS = ['lu', 'LU_decomp', 'qr', 'cholesky']
ARITH_OPS = ['add', 'sub', 'mul', 'pow', 'transpose', 'norm', 'mnorm', 'scalar']
KINDS = ['int', 'dyadic', 'decimal', 'graded', 'sparse', 'hilbert']
OPS = SOLVE_OPS + FACTOR_OPS + ARITH_OPS + ['singular']


def cells():
    out = []
    for op in OPS:
        for cplx in (False, True):
            if op in ('cholesky', 'cholesky_solve'):
                kinds = ['spd-int', 'spd-dyadic', 'spd-graded']
            elif op == 'singular':
                kinds = ['rankdef', 'zerocol', 'duprow']
            elif op in ARITH_OPS:
                kinds = ['int', 'dyadic', 'decimal', 'long']
            else:
                kinds = KINDS
            for k in kinds:
                out.append((op, k, cplx))
    return out


CELLS = cells()


def shards(tier, seed):
    return [{'n': CASES[tier]} for _ in range(NSHARDS)]


def _mp():
    import mpmath
    return mpmath.mp


# ---------------------------------------------------------------------------------------
# generators (exact entries; 'dec' specs are converted by the library at the working precision)
# ---------------------------------------------------------------------------------------

def _dy(r, p, bits=None, emax=6):
    b = bits or r.choice([1, 2, 3, 8, p // 2, p - 1, p, p])
    b = max(1, min(b, p))
    m = G.mantissa(r, b)
    e = r.randint(-emax, emax) - b + r.randint(0, 3)
    v = Fraction(m) * L.pow2(e)
    return -v if r.random() < 0.5 else v


def _int(r, big=False):
    if big:
        return Fraction(r.randint(-(1 << 20), 1 << 20))
    return Fraction(r.randint(-9, 9))


def _decstr(r):
    digs = r.randint(1, 6)
    n = r.randint(0, 10 ** digs - 1)
    s = '%d.%0*d' % (r.randint(0, 20), digs, n)
    if r.random() < 0.2:
        s += 'e%d' % r.randint(-3, 3)
    if r.random() < 0.5:
        s = '-' + s
    return s


def gen_entries(r, p, kind, cplx, m, n):
    """list of rows of entry specs: Fraction / GQ, or ('dec', re_str, im_str_or_None)"""
    def scalar():
        if kind == 'int':
            return _int(r, big=(r.random() < 0.15))
        if kind == 'sparse':
            return Fraction(0) if r.random() < 0.45 else _int(r)
        if kind == 'long':
            return _dy(r, p, bits=r.choice([p + 1, p + 10, 2 * p, p, 3]))
        return _dy(r, p)

    def entry():
        if kind == 'decimal':
            if cplx:
                return ('dec', _decstr(r), _decstr(r) if r.random() < 0.8 else '0')
            return ('dec', _decstr(r), None)
        if cplx:
            x = r.random()
            if x < 0.12:
                return L.GQ(0, scalar())           # zero real part
            if x < 0.2:
                return L.GQ(scalar(), 0)
            return L.GQ(scalar(), scalar())
        return scalar()
    if kind == 'hilbert':
        s = r.randint(0, 3)
        rows = []
        for i in range(m):
            row = []
            for j in range(n):
                q = L.raw_to_fraction(Q.round_to(Q.Ex(1, i + j + 1 + s), p, 'n'))
                if cplx and (i + j) % 2:
                    q = L.GQ(q, L.raw_to_fraction(Q.round_to(Q.Ex(1, i + 2 * j + 2 + s), p, 'n')))
                row.append(q)
            rows.append(row)
        return rows
    if kind == 'graded':
        base = gen_entries(r, p, 'int', cplx, m, n)
        g = r.choice([0, p // 16, p // 10, p // 7])
        form = r.random()
        if form < 0.25 and m == n and m >= 2:
            # nearly dependent rows: row1 = row0 + 2^-k e_1
            k = r.randint(2, max(2, p // 3 - 1))
            base[1] = [base[0][j] + (L.pow2(-k) if j == 1 else 0) for j in range(n)]
            return base
        ra = [r.randint(-g, g) for _ in range(m)]
        ca = [r.randint(-g, g) for _ in range(n)]
        return [[base[i][j] * L.pow2(ra[i] + ca[j]) for j in range(n)] for i in range(m)]
    rows = [[entry() for _ in range(n)] for _ in range(m)]
    if kind == 'sparse' and r.random() < 0.7:
        rows[0][0] = L.GQ(0, _int(r)) if (cplx and r.random() < 0.5) else Fraction(0)   # zero (real part of the) leading entry
    return rows


def gen_spd(r, p, kind, cplx, n):
    mrows = n + r.randint(0, 2)
    bits = 3 if kind == 'spd-int' else r.choice([2, 4, min(9, p // 4)])

    def sc():
        if kind == 'spd-int':
            return Fraction(r.randint(-4, 4))
        return _dy(r, p, bits=bits, emax=2)
    B = [[(L.GQ(sc(), sc()) if cplx else sc()) for _ in range(n)] for _ in range(mrows)]
    A = L.add(L.mul(L.H(B), B), L.eye(n))
    A = [[L.simplify(v) if i == j else v for j, v in enumerate(row)] for i, row in enumerate(A)]
    if kind == 'spd-graded':
        g = r.choice([1, p // 16, p // 10])
        d = [r.randint(-g, g) for _ in range(n)]
        A = [[A[i][j] * L.pow2(d[i] + d[j]) for j in range(n)] for i in range(n)]
    return A


def gen_singular(r, kind, cplx, n):
    def sc():
        return L.GQ(r.randint(-9, 9), r.randint(-9, 9)) if cplx else Fraction(r.randint(-9, 9))
    A = [[sc() for _ in range(n)] for _ in range(n)]
    k = r.randrange(n)
    if kind == 'rankdef':
        cs = [Fraction(r.randint(-2, 2)) for _ in range(n)]
        A[k] = [sum((cs[t] * A[t][j] for t in range(n) if t != k), Fraction(0)) for j in range(n)]
    elif kind == 'zerocol':
        for i in range(n):
            A[i][k] = Fraction(0)
        if r.random() < 0.5:
            A[k] = [Fraction(0)] * n
    else:
        if n > 1:
            k2 = (k + 1 + r.randrange(n - 1)) % n
            A[k2] = list(A[k])
            if r.random() < 0.5:
                A = L.T(A)
        else:
            A = [[Fraction(0)]]
    return A


def build(mp, p, spec, cplx=False):
    """-> (mp matrix, exact entries).  Runs with mp.prec == p already set by the caller."""
    m, n = len(spec), len(spec[0])
    M = mp.matrix(m, n)
    for i in range(m):
        for j in range(n):
            v = spec[i][j]
            if isinstance(v, tuple):
                if v[2] is None:
                    M[i, j] = mp.mpf(v[1])
                else:
                    M[i, j] = mp.mpc(v[1], v[2])
            elif v:
                M[i, j] = L.to_mp_scalar(mp, v)
    return M, L.from_mpmatrix(M)


def as_list_input(r, Aq):
    """nested python list of ints (exactly equal to Aq) when possible, else None"""
    out = []
    for row in Aq:
        o = []
        for v in row:
            if isinstance(v, L.GQ):
                if v.re.denominator != 1 or v.im.denominator != 1 or abs(v.re) > 2**50 or abs(v.im) > 2**50:
                    return None
                o.append(complex(int(v.re), int(v.im)))
            else:
                if v.denominator != 1:
                    return None
                o.append(int(v))
        out.append(o)
    return out


def ser(A):
    return [[[str(L.re(v)), str(L.im(v))] if isinstance(v, L.GQ) else str(v) for v in row] for row in A]


def deser(S):
    return [[L.GQ(Fraction(v[0]), Fraction(v[1])) if isinstance(v, list) else Fraction(v) for v in row] for row in S]


def key_of(A):
    return tuple(tuple((v.re, v.im) if isinstance(v, L.GQ) else v for v in row) for row in A)


# ---------------------------------------------------------------------------------------
# exact comparison helpers
# ---------------------------------------------------------------------------------------

def tol_frac(e):
    return L.pow2(e)


def relerr_verdict(X, Xs, tol):
    """||X - X*||_inf <= tol * ||X*||_inf  with rigorous bounds.  returns (ok, log2(err/||X*||) or None)"""
    D = L.sub(X, Xs)
    dlo, dhi = L.norminf_bounds(D)
    slo, shi = L.norminf_bounds(Xs)
    ok = dlo <= tol * shi
    ratio = None
    if shi > 0 and dhi > 0:
        ratio = L.approx_log2(dhi / shi)
    elif dhi == 0:
        ratio = float('-inf')
    else:
        ratio = float('inf')
    return ok, ratio


def absu(v):
    """upper bound of |v| without square roots"""
    if isinstance(v, L.GQ):
        return abs(v.re) + abs(v.im)
    return abs(v)


def entry_verdict(got, exact, p, S, slack=1, exact_when_fits=True):
    """'exactly when representable, otherwise within 2^(slack-p)*S'"""
    if L.simplify(got - exact) == 0:
        return True, 'equal'
    if exact_when_fits and L.fits(exact, p):
        return False, 'representable-not-exact'
    d = got - exact
    if L.abs2(d) <= (L.pow2(slack - p) * S) ** 2:
        return True, 'rounded'
    return False, 'outside-rounding-tolerance'


class Prec(object):
    def __init__(self, mp, p):
        self.mp, self.p = mp, p

    def __enter__(self):
        self.old = self.mp.prec
        self.mp.prec = self.p

    def __exit__(self, *a):
        self.mp.prec = self.old


class SignWatch(object):
    """monitor on ctx.sign: counts calls that returned exactly zero (the householder() reflector sign)"""

    def __init__(self, mp):
        self.mp = mp
        self.zero = 0
        self.calls = 0

    def __enter__(self):
        orig = self.mp.sign
        self.orig = orig
        w = self

        def sign(x, *a, **k):
            v = orig(x, *a, **k)
            w.calls += 1
            if v == 0:
                w.zero += 1
            return v
        self.had = 'sign' in self.mp.__dict__
        self.mp.sign = sign
        return self

    def __exit__(self, *a):
        if self.had:
            self.mp.sign = self.orig
        else:
            try:
                del self.mp.__dict__['sign']
            except KeyError:
                self.mp.sign = self.orig


# ---------------------------------------------------------------------------------------
# solves
# ---------------------------------------------------------------------------------------

def check_solve(mp, rec, r, op, kind, cplx, p, Aq, bq, via_list=False, A_obj=None):
    """Aq exact matrix, bq exact rhs (list) or None"""
    m, n = L.shape(Aq)
    over = m > n
    case = {'op': op, 'kind': kind, 'complex': cplx, 'prec': p, 'A': ser(Aq), 'b': ser([bq]) if bq is not None else None,
            'via_list': via_list}
    cls = '%s/%s/%s' % (op, kind, 'C' if cplx else 'R')
    # ---- exact side and envelope, before the code under test runs
    try:
        if over:
            AH = L.H(Aq)
            N = L.mul(AH, Aq)
            Ninv = L.inverse(N)
            cond = L.cond_upper(N, 'inf', Ninv)
            xs = L.matvec(Ninv, L.matvec(AH, bq))
        else:
            Ainv = L.inverse(Aq)
            cond = L.cond_upper(Aq, 'inf', Ainv)
            xs = L.matvec(Ainv, bq) if bq is not None else None
    except L.Singular:
        rec.note('singular-by-chance', {'op': op, 'kind': kind, 'n': n})
        return
    env = cond ** 3 <= L.pow2(p)            # cond <= 2^(p/3)
    if env and over:
        ax = L.matvec(Aq, xs)
        res = [u - v for u, v in zip(ax, bq)]
        if L.vec_norm2_sq(res) > 64 * L.vec_norm2_sq(ax):
            env = False
    if op == 'cholesky_solve' and not L.is_hermitian(Aq):
        env = False
    tol = cond * L.pow2(10 - p)
    # ---- run
    watch = SignWatch(mp)
    exc = None
    with Prec(mp, p):
        if via_list:
            A_in = as_list_input(r, Aq)
            b_in = [v[0] for v in as_list_input(r, [[v] for v in bq])] if bq is not None else None
        else:
            A_in = A_obj if A_obj is not None else L.to_mpmatrix(mp, Aq, force_complex=False)
            b_in = L.to_mpmatrix(mp, [[v] for v in bq]) if bq is not None else None
        try:
            if op in ('lu_solve', 'lu_solve_over'):
                out = mp.lu_solve(A_in, b_in)
            elif op in ('qr_solve', 'qr_solve_over'):
                with watch:
                    out, resnorm = mp.qr_solve(A_in, b_in)
            elif op == 'cholesky_solve':
                out = mp.cholesky_solve(A_in, b_in)
            elif op == 'inverse':
                out = mp.inverse(A_in)
            else:
                out = mp.det(A_in)
        except Exception as e:
            exc = e
    ident = (op, p, key_of(Aq), tuple(key_of([bq])) if bq is not None else None)
    if not env:
        rec.cls('outside-envelope/' + op)
        rec.note('outside-envelope', {'op': op, 'kind': kind, 'n': n, 'prec': p, 'log2cond': round(L.approx_log2(cond), 1),
                                      'raised': type(exc).__name__ if exc else None}, cap=10)
        return
    rec.case(ident, True, cls=cls)
    rec.sample({'op': op, 'kind': kind, 'prec': p, 'shape': [m, n], 'log2cond': round(L.approx_log2(cond), 1)})
    if exc is not None:
        ename = type(exc).__name__
        if op.startswith('qr_solve') and watch.zero:
            key = 'C30/qr_solve/householder-sign-zero'
            what = ('qr_solve raises %s on a well-conditioned system: householder() takes sign(re(A[j,j])) == 0 when a '
                    'pivot entry has zero real part' % ename)
        else:
            key = 'C30/%s/raised-%s' % (op.replace('_over', ''), ename)
            what = '%s raised %s inside the envelope (cond <= 2^(p/3))' % (op, ename)
        rec.violation(key, what, case, observed='%s: %s' % (ename, exc), expected='solution within cond*2^(10-p)')
        return
    # ---- compare
    try:
        if op == 'det':
            got = [[L.from_mp(out)]]
            want = [[L.det(Aq)]]
        elif op == 'inverse':
            got = L.from_mpmatrix(out)
            want = Ainv
        else:
            got = [[v] for v in L.from_mpvector(out)]
            want = [[v] for v in xs]
        if L.shape(got) != L.shape(want):
            rec.violation('C30/%s/shape' % op, 'result has the wrong shape', case, L.shape(got), L.shape(want))
            return
    except (ValueError, TypeError) as e:
        rec.violation('C30/%s/non-finite' % op, 'result is not a finite number', case, repr(e), None)
        return
    ok, ratio = relerr_verdict(got, want, tol)
    if ok and ratio is not None and ratio not in (float('inf'), float('-inf')):
        rec.maximum('log2(relerr/(cond*2^-p)) ' + op, round(ratio - L.approx_log2(cond) + p, 2),
                    {'op': op, 'kind': kind, 'n': n, 'prec': p})
    if not ok:
        sev = None
        if ratio is not None and ratio != float('inf'):
            sev = round(ratio - L.approx_log2(cond) + p, 1)
        if op == 'cholesky_solve' and cplx and not L.is_real(Aq):
            key = 'C30/cholesky_solve/hermitian-uses-transpose'
            what = 'cholesky_solve returns a wrong solution for a complex Hermitian positive-definite matrix (back substitution with L.T instead of L.H)'
        else:
            key = 'C30/%s/accuracy' % op.replace('_over', '/overdetermined')
            what = '%s error exceeds cond(A)*2^(10-p) relative (norm-wise, inf-norm)' % op
        rec.violation(key, what, case, observed={'log2_relerr': ratio, 'result': ser(got)[:3]},
                      expected={'log2_tol': round(L.approx_log2(tol), 1)}, severity=sev)


# ---------------------------------------------------------------------------------------
# factorizations
# ---------------------------------------------------------------------------------------

def check_lu(mp, rec, r, op, kind, cplx, p, Aq, A_obj=None):
    n = len(Aq)
    case = {'op': op, 'kind': kind, 'complex': cplx, 'prec': p, 'A': ser(Aq)}
    try:
        Ainv = L.inverse(Aq)
    except L.Singular:
        return
    cond = L.cond_upper(Aq, 'inf', Ainv)
    if cond ** 3 > L.pow2(p):
        rec.cls('outside-envelope/' + op)
        return
    exc = None
    with Prec(mp, p):
        A_in = A_obj if A_obj is not None else L.to_mpmatrix(mp, Aq)
        try:
            if op == 'lu':
                P, Lm, U = mp.lu(A_in)
            else:
                LU, piv = mp.LU_decomp(A_in)
        except Exception as e:
            exc = e
    rec.case((op, p, key_of(Aq)), True, cls='%s/%s/%s' % (op, kind, 'C' if cplx else 'R'))
    if exc is not None:
        rec.violation('C30/%s/raised-%s' % (op, type(exc).__name__), '%s raised inside the envelope' % op, case,
                      '%s: %s' % (type(exc).__name__, exc), 'P, L, U')
        return
    if op == 'lu':
        Pq, Lq, Uq = L.from_mpmatrix(P), L.from_mpmatrix(Lm), L.from_mpmatrix(U)
        if not (L.shape(Pq) == L.shape(Lq) == L.shape(Uq) == (n, n)):
            rec.violation('C30/lu/shape', 'P, L, U do not have the shape of the (current) matrix', case,
                          [L.shape(Pq), L.shape(Lq), L.shape(Uq)], (n, n))
            return
    else:
        if L.from_mpmatrix(A_in) != Aq and not L.equal(L.from_mpmatrix(A_in), Aq):
            rec.violation('C30/LU_decomp/input-overwritten', 'LU_decomp(overwrite=False) modified its argument', case, None, None)
            return
        C = L.from_mpmatrix(LU)
        if L.shape(C) != (n, n):
            rec.violation('C30/LU_decomp/shape', 'the combined LU matrix does not have the shape of the (current) matrix', case, L.shape(C), (n, n))
            return
        Lq = [[C[i][j] if i > j else (Fraction(1) if i == j else Fraction(0)) for j in range(n)] for i in range(n)]
        Uq = [[C[i][j] if i <= j else Fraction(0) for j in range(n)] for i in range(n)]
        if len(piv) != max(0, n - 1) or any((not isinstance(k, int)) or k < j or k >= n for j, k in enumerate(piv)):
            rec.violation('C30/LU_decomp/structure-pivots', 'pivot list is not a valid sequence of row swaps', case, piv, None)
            return
        Pq = L.eye(n)
        for j, k in enumerate(piv):
            Pq[j], Pq[k] = Pq[k], Pq[j]
    bad = None
    if not L.is_permutation(Pq):
        bad = 'P-not-permutation'
    elif not L.is_unit_lower(Lq):
        bad = 'L-not-unit-lower'
    elif not L.is_upper(Uq):
        bad = 'U-not-upper'
    if bad:
        rec.violation('C30/%s/structure-%s' % (op, bad), 'factor structure violated: ' + bad, case,
                      {'P': ser(Pq), 'L': ser(Lq)[:2]}, None)
        return
    R = L.sub(L.mul(Pq, Aq), L.mul(Lq, Uq))
    rlo, rhi = L.norminf_bounds(R)
    scale = L.norminf_bounds(Lq)[1] * L.norminf_bounds(Uq)[1]
    if rhi > 0:
        rec.maximum('log2(||PA-LU||/(||L||*||U||*2^-p)) ' + op, round(L.approx_log2(rhi / scale) + p, 2), {'n': n, 'prec': p, 'kind': kind})
    if rlo > L.pow2(10 - p) * scale:
        rec.violation('C30/%s/identity' % op, 'P*A = L*U violated beyond 2^(10-p)*||L||*||U||', case,
                      {'log2_residual': L.approx_log2(rhi)}, {'log2_bound': L.approx_log2(L.pow2(10 - p) * scale)})


def check_qr(mp, rec, r, kind, cplx, p, Aq, mode, A_obj=None):
    m, n = L.shape(Aq)
    case = {'op': 'qr', 'kind': kind, 'complex': cplx, 'prec': p, 'A': ser(Aq), 'mode': mode}
    exc = None
    with Prec(mp, p):
        A_in = A_obj if A_obj is not None else L.to_mpmatrix(mp, Aq, force_complex=(cplx and r.random() < 0.3))
        try:
            if mode == 'full':
                Qm, Rm = mp.qr(A_in)
            else:
                Qm, Rm = mp.qr(A_in, mode='skinny')
        except Exception as e:
            exc = e
    rec.case(('qr', mode, p, key_of(Aq)), True, cls='qr/%s/%s/%s%s' % (mode, kind, 'C' if cplx else 'R', '/n=1' if n == 1 else ''))
    if exc is not None:
        if isinstance(exc, AssertionError) and n == 1:
            rec.violation('C30/qr/single-column-assert', 'qr(A) rejects a single-column matrix (assert n > 1) although m >= n is all the documentation requires',
                          case, 'AssertionError', 'Q, R')
        else:
            rec.violation('C30/qr/raised-%s' % type(exc).__name__, 'qr raised for an m x n matrix with m >= n', case,
                          '%s: %s' % (type(exc).__name__, exc), 'Q, R')
        return
    Qq, Rq = L.from_mpmatrix(Qm), L.from_mpmatrix(Rm)
    k = m if mode == 'full' else n
    if L.shape(Qq) != (m, k) or L.shape(Rq) != (k, n):
        rec.violation('C30/qr/shape', 'factor shapes wrong', case, [L.shape(Qq), L.shape(Rq)], [(m, k), (k, n)])
        return
    if not L.is_upper(Rq):
        rec.violation('C30/qr/structure-R-not-upper', 'R is not upper triangular', case, ser(Rq), None)
        return
    E = L.sub(L.mul(L.H(Qq), Qq), L.eye(k))
    e2 = L.fro2(E)
    if e2:
        rec.maximum('log2(||QhQ-I||_F/2^-p) qr', round(L.approx_log2(e2) / 2 + p, 2), {'shape': [m, n], 'prec': p})
    if e2 > L.pow2(2 * (10 - p)):
        rec.violation('C30/qr/identity-orthonormal', 'Q^H Q - I exceeds 2^(10-p) (Frobenius)', case,
                      {'log2_residual': L.approx_log2(e2) / 2}, {'log2_bound': 10 - p})
        return
    Rz = L.sub(Aq, L.mul(Qq, Rq))
    r2, a2 = L.fro2(Rz), L.fro2(Aq)
    if r2 and a2:
        rec.maximum('log2(||A-QR||_F/(||A||_F*2^-p)) qr', round((L.approx_log2(r2) - L.approx_log2(a2)) / 2 + p, 2), {'shape': [m, n], 'prec': p})
    if r2 > L.pow2(2 * (10 - p)) * a2:
        rec.violation('C30/qr/identity', 'A = Q*R violated beyond 2^(10-p)*||A||_F', case,
                      {'log2_residual': L.approx_log2(r2) / 2 if r2 else None}, {'log2_bound': L.approx_log2(a2) / 2 + 10 - p if a2 else None})


def check_cholesky(mp, rec, r, kind, cplx, p, Aq, A_obj=None):
    n = len(Aq)
    case = {'op': 'cholesky', 'kind': kind, 'complex': cplx, 'prec': p, 'A': ser(Aq)}
    Ainv = L.inverse(Aq)
    cond = L.cond_upper(Aq, 'inf', Ainv)
    if cond ** 3 > L.pow2(p):
        rec.cls('outside-envelope/cholesky')
        return
    exc = None
    with Prec(mp, p):
        A_in = A_obj if A_obj is not None else L.to_mpmatrix(mp, Aq)
        try:
            Lm = mp.cholesky(A_in)
        except Exception as e:
            exc = e
    rec.case(('cholesky', p, key_of(Aq)), True, cls='cholesky/%s/%s' % (kind, 'C' if cplx else 'R'))
    if exc is not None:
        rec.violation('C30/cholesky/raised-%s' % type(exc).__name__, 'cholesky raised for a positive-definite matrix inside the envelope',
                      case, '%s: %s' % (type(exc).__name__, exc), 'L')
        return
    Lq = L.from_mpmatrix(Lm)
    if not L.is_lower(Lq):
        rec.violation('C30/cholesky/structure-not-lower', 'L is not lower triangular', case, ser(Lq), None)
        return
    if any(L.im(Lq[i][i]) != 0 or L.re(Lq[i][i]) <= 0 for i in range(n)):
        rec.violation('C30/cholesky/structure-diagonal', 'diagonal of L is not real positive', case, [str(Lq[i][i]) for i in range(n)], None)
        return
    Rz = L.sub(Aq, L.mul(Lq, L.H(Lq)))
    r2, a2 = L.fro2(Rz), L.fro2(Aq)
    if r2:
        rec.maximum('log2(||A-LLh||_F/(||A||_F*2^-p)) cholesky', round((L.approx_log2(r2) - L.approx_log2(a2)) / 2 + p, 2), {'n': n, 'prec': p})
    if r2 > L.pow2(2 * (10 - p)) * a2:
        rec.violation('C30/cholesky/identity', 'A = L*L^H violated beyond 2^(10-p)*||A||_F', case,
                      {'log2_residual': L.approx_log2(r2) / 2}, {'log2_bound': L.approx_log2(a2) / 2 + 10 - p})


# ---------------------------------------------------------------------------------------
# singular input
# ---------------------------------------------------------------------------------------

def check_singular(mp, rec, r, kind, cplx, p, Aq, which):
    n = len(Aq)
    assert L.rank(Aq) < n
    case = {'op': 'singular', 'which': which, 'kind': kind, 'complex': cplx, 'prec': p, 'A': ser(Aq)}
    exc, out = None, None
    with Prec(mp, p):
        A_in = L.to_mpmatrix(mp, Aq)
        try:
            if which == 'inverse':
                out = mp.inverse(A_in)
            else:
                out = mp.lu_solve(A_in, mp.matrix([1 + i for i in range(n)]))
        except Exception as e:
            exc = e
        # observed, not asserted: det of a singular matrix
        try:
            d = mp.det(L.to_mpmatrix(mp, Aq))
            if d != 0:
                rec.cls('note/det-of-singular-nonzero')
        except Exception as e:
            rec.cls('note/det-of-singular-raised-' + type(e).__name__)
            rec.note('det(singular) raised', {'A': ser(Aq), 'exc': type(e).__name__}, cap=3)
    rec.case(('singular', which, p, key_of(Aq)), True, cls='singular/%s/%s/%s' % (which, kind, 'C' if cplx else 'R'))
    if isinstance(exc, ZeroDivisionError):
        return
    if exc is None:
        rec.violation('C30/singular/%s/not-detected' % which,
                      '%s of an exactly singular matrix returns a result instead of raising ZeroDivisionError (pivot of rounding-error size passes the tolerance test)' % which,
                      case, 'returned normally', 'ZeroDivisionError')
    elif isinstance(exc, TypeError) and 'NoneType' in str(exc):
        rec.violation('C30/singular/%s/TypeError-no-pivot' % which,
                      '%s of a matrix with an exactly zero pivot column raises TypeError (LU_decomp leaves p[j] = None) instead of ZeroDivisionError' % which,
                      case, 'TypeError: %s' % exc, 'ZeroDivisionError')
    else:
        rec.violation('C30/singular/%s/raised-%s' % (which, type(exc).__name__), 'wrong exception for singular input', case,
                      '%s: %s' % (type(exc).__name__, exc), 'ZeroDivisionError')


# ---------------------------------------------------------------------------------------
# arithmetic, transposes, norms
# ---------------------------------------------------------------------------------------

def cmp_matrix(rec, op, case, got, exact, S, p, keyfn=None, slack=1, exact_when_fits=True):
    """entrywise 'exact when representable, else within 2^(slack-p)*S_ij'"""
    if L.shape(got) != L.shape(exact):
        rec.violation('C30/arith/%s/shape' % op, 'result shape differs from the definition', case, L.shape(got), L.shape(exact))
        return False
    nontriv = False
    for i, (rg, re_) in enumerate(zip(got, exact)):
        for j, (g, e) in enumerate(zip(rg, re_)):
            ok, why = entry_verdict(g, e, p, S[i][j] if S is not None else 0, slack, exact_when_fits)
            if why != 'equal' or not L.fits(e, p):
                nontriv = True
            if not ok:
                key = keyfn(why) if keyfn else 'C30/arith/%s/%s' % (op, why)
                rec.violation(key, '%s: entry (%d,%d) differs from its elementwise definition (%s)' % (op, i, j, why), case,
                              observed=str(g), expected=str(e))
                return False
    return nontriv


def root_exact(q, k):
    """k-th root of a non-negative Fraction if rational, else None"""
    def iroot(n):
        if n < 2:
            return n
        x = 1 << ((n.bit_length() + k - 1) // k)
        while True:
            y = ((k - 1) * x + n // x ** (k - 1)) // k
            if y >= x:
                break
            x = y
        return x if x ** k == n else None
    a, b = iroot(q.numerator), iroot(q.denominator)
    if a is None or b is None:
        return None
    return Fraction(a, b)


def norm_reference(vals, pn):
    """rigorous (lo, hi, exact_or_None) for (sum |v|^pn)^(1/pn); pn in 1,2,3,4,'inf'"""
    if pn == 'inf':
        lo, hi = L.vec_norminf_bounds(vals)
        return lo, hi, (lo if lo == hi else None)
    if pn == 1:
        lo = hi = Fraction(0)
        for v in vals:
            a, b = L.abs_bounds(v)
            lo += a; hi += b
        return lo, hi, (lo if lo == hi else None)
    if pn == 2:
        s = sum((L.abs2(v) for v in vals), Fraction(0))
        lo, hi = L.sqrt_bounds(s)
        return lo, hi, (lo if lo == hi else None)
    # real entries only
    s = sum((abs(v) ** pn for v in vals), Fraction(0))
    ex = root_exact(s, pn)
    return s, s, ex      # caller compares got**pn with s


def check_norm(mp, rec, r, kind, cplx, p, op):
    n = r.randint(1, 6)
    if kind == 'int' and r.random() < 0.5:
        # representable norms: scaled Pythagorean tuples
        base = r.choice([[3, 4], [5, 12], [1, 2, 2], [2, 3, 6], [1, 4, 8], [2, 10, 11], [1, 1, 1, 1], [8, 15], [7, 24], [3, 4, 12]])
        sc = L.pow2(r.randint(-5, 5)) * r.choice([1, 1, 3, 5])
        vals = [Fraction(v) * sc * r.choice([1, -1]) for v in base]
        if cplx:
            a, b = r.choice([(3, 4), (5, 12), (8, 15), (0, 1), (1, 0)])
            vals = [L.GQ(a * v, b * v) if r.random() < 0.7 else L.GQ(0, v) for v in vals]
        r.shuffle(vals)
        spec = [[v] for v in vals]
    else:
        spec = gen_entries(r, p, kind, cplx, n, 1)
    if op == 'mnorm':
        m2 = r.randint(1, 5)
        spec = gen_entries(r, p, kind if kind != 'long' else 'dyadic', cplx, len(spec), m2)
    with Prec(mp, p):
        M, Aq = build(mp, p, spec, cplx)
        vals = [v for row in Aq for v in row]
        if op == 'norm':
            pn = r.choice([1, 2, 'inf', 3, 4]) if not cplx else r.choice([1, 2, 'inf'])
            arg = {1: 1, 2: 2, 3: 3, 4: 4, 'inf': r.choice(['inf', mp.inf, float('inf')])}[pn]
            x_in = M if r.random() < 0.7 or any(isinstance(v, L.GQ) for v in vals) else [mp.mpf(M[i]) for i in range(len(M))]
            got = mp.norm(x_in, arg)
            ref = norm_reference(vals, pn)
            label = 'norm/%s' % pn
        else:
            which = r.choice(['1', 'inf', 'F'])
            if which == '1':
                got = mp.mnorm(M, 1)
                lo, hi = L.norm1_bounds(Aq)
            elif which == 'inf':
                got = mp.mnorm(M, r.choice(['inf', mp.inf]))
                lo, hi = L.norminf_bounds(Aq)
            else:
                got = mp.mnorm(M, r.choice(['F', 'f', 'fro', 'frobenius', 'Frobenius']))
                lo, hi = L.fro_bounds(Aq)
            ref = (lo, hi, lo if lo == hi else None)
            pn = which
            label = 'mnorm/%s' % which
    case = {'op': op, 'which': str(pn), 'kind': kind, 'complex': cplx, 'prec': p, 'A': ser(Aq)}
    g = L.from_mp(got)
    if isinstance(g, L.GQ):
        if g.im != 0:
            rec.violation('C30/arith/%s/complex-result' % op, 'norm is not real', case, str(g), None)
            return
        g = g.re
    lo, hi, ex = ref
    representable = ex is not None and L.fits(ex, p)
    rec.case((op, str(pn), p, key_of(Aq)), True, cls='%s/%s/%s%s' % (label, kind, 'C' if cplx else 'R', '/representable' if representable else ''))
    if representable:
        if g != ex:
            rec.violation('C30/arith/%s/representable-not-exact' % label, '%s is representable but was not returned exactly' % label,
                          case, str(g), str(ex))
        return
    eps = L.pow2(2 - p)
    if pn in (3, 4):
        s = lo
        ok = s * (1 - eps) ** pn <= g ** pn <= s * (1 + eps) ** pn if g >= 0 else False
    else:
        ok = lo * (1 - eps) <= g <= hi * (1 + eps)
    if not ok:
        rec.violation('C30/arith/%s/outside-rounding-tolerance' % label, '%s differs from its definition by more than 2^(2-p) relative' % label,
                      case, str(g), [str(lo), str(hi)])


def check_arith(mp, rec, r, op, kind, cplx, p, tier):
    if op in ('norm', 'mnorm'):
        return check_norm(mp, rec, r, kind, cplx, p, op)
    smax = MAXSIZE[tier]
    m, n = r.randint(1, smax), r.randint(1, smax)
    cls = '%s/%s/%s' % (op, kind, 'C' if cplx else 'R')
    with Prec(mp, p):
        if op in ('add', 'sub'):
            A, Aq = build(mp, p, gen_entries(r, p, kind, cplx, m, n), cplx)
            B, Bq = build(mp, p, gen_entries(r, p, kind, cplx and r.random() < 0.8, m, n), cplx)
            if kind == 'long' and op == 'sub' and r.random() < 0.5:
                # nearly equal operands carrying more than p bits (e.g. two lu_solve outputs): cancellation exposes
                # any extra rounding of an operand
                Bq = [[v + L.pow2(-p - r.randint(2, 8)) * (L.re(v) if L.re(v) else 1) for v in row] for row in Aq]
                B = L.to_mpmatrix(mp, Bq)
            case = {'op': op, 'kind': kind, 'complex': cplx, 'prec': p, 'A': ser(Aq), 'B': ser(Bq)}
            got = L.from_mpmatrix(A + B if op == 'add' else A - B)
            exact = L.add(Aq, Bq) if op == 'add' else L.sub(Aq, Bq)
            S = [[absu(a) + absu(b) for a, b in zip(ra, rb)] for ra, rb in zip(Aq, Bq)]
            longb = any(not L.fits(v, p) for row in Bq for v in row)

            def keyfn(why):
                if op == 'sub' and longb:
                    return 'C30/arith/sub/via-negation-double-rounding'
                return 'C30/arith/%s/%s' % (op, why)
            nt = cmp_matrix(rec, op, case, got, exact, S, p, keyfn)
            rec.case((op, p, key_of(Aq), key_of(Bq)), bool(nt), cls=cls)
        elif op == 'mul':
            k = r.randint(1, smax)
            A, Aq = build(mp, p, gen_entries(r, p, kind, cplx, m, k), cplx)
            B, Bq = build(mp, p, gen_entries(r, p, kind, cplx and r.random() < 0.8, k, n), cplx)
            case = {'op': op, 'kind': kind, 'complex': cplx, 'prec': p, 'A': ser(Aq), 'B': ser(Bq)}
            got = L.from_mpmatrix(A * B)
            exact = L.mul(Aq, Bq)
            S = L.mul([[absu(v) for v in row] for row in Aq], [[absu(v) for v in row] for row in Bq])
            nt = cmp_matrix(rec, op, case, got, exact, S, p)
            rec.case((op, p, key_of(Aq), key_of(Bq)), bool(nt), cls=cls)
        elif op == 'scalar':
            A, Aq = build(mp, p, gen_entries(r, p, kind, cplx, m, n), cplx)
            cq = _dy(r, p) if kind != 'int' else _int(r)
            if cq == 0:
                cq = Fraction(3)
            c = L.to_mp_scalar(mp, cq)
            form = r.choice(['M*c', 'c*M', 'M+c', 'c-M', 'M/c', '-M', 'M-c'])
            case = {'op': op, 'form': form, 'kind': kind, 'complex': cplx, 'prec': p, 'A': ser(Aq), 'c': str(cq)}
            if form == 'M*c':
                got, exact, S = A * c, L.smul(cq, Aq), [[absu(v) * abs(cq) for v in row] for row in Aq]
            elif form == 'c*M':
                got, exact, S = c * A, L.smul(cq, Aq), [[absu(v) * abs(cq) for v in row] for row in Aq]
            elif form == 'M+c':
                got, exact, S = A + c, [[v + cq for v in row] for row in Aq], [[absu(v) + abs(cq) for v in row] for row in Aq]
            elif form == 'M-c':
                got, exact, S = A - c, [[v - cq for v in row] for row in Aq], [[absu(v) + abs(cq) for v in row] for row in Aq]
            elif form == 'c-M':
                got, exact, S = c - A, [[cq - v for v in row] for row in Aq], [[absu(v) + abs(cq) for v in row] for row in Aq]
            elif form == 'M/c':
                got, exact, S = A / c, [[v / cq for v in row] for row in Aq], [[absu(v) / abs(cq) for v in row] for row in Aq]
            else:
                got, exact, S = -A, L.neg(Aq), [[absu(v) for v in row] for row in Aq]
            longa = any(not L.fits(v, p) for row in Aq for v in row)

            def keyfn2(why):
                if form == 'c-M' and longa:
                    return 'C30/arith/sub/via-negation-double-rounding'
                return 'C30/arith/scalar/%s/%s' % (form, why)
            nt = cmp_matrix(rec, op, case, L.from_mpmatrix(got), exact, S, p, keyfn2)
            rec.case((op, form, p, key_of(Aq), cq), bool(nt), cls=cls + '/' + form)
        elif op == 'transpose':
            A, Aq = build(mp, p, gen_entries(r, p, kind, cplx, m, n), cplx)
            form = r.choice(['T', 'H', 'transpose()', 'transpose_conj()', 'conjugate()'])
            case = {'op': op, 'form': form, 'kind': kind, 'complex': cplx, 'prec': p, 'A': ser(Aq)}
            if form == 'T':
                got, exact = A.T, L.T(Aq)
            elif form == 'transpose()':
                got, exact = A.transpose(), L.T(Aq)
            elif form == 'H':
                got, exact = A.H, L.H(Aq)
            elif form == 'transpose_conj()':
                got, exact = A.transpose_conj(), L.H(Aq)
            else:
                got, exact = A.conjugate(), L.conjm(Aq)
            g = L.from_mpmatrix(got)
            rec.case((op, form, p, key_of(Aq)), cplx or m != n, cls=cls + '/' + form)
            if L.shape(g) != L.shape(exact) or not L.equal(g, exact):
                rec.violation('C30/arith/transpose/%s' % form, '%s is not the exact elementwise (conjugate) transpose' % form, case,
                              ser(g), ser(exact))
        elif op == 'pow':
            n = r.randint(1, min(smax, 5))
            k = r.choice([0, 1, 2, 3, 4, 5, 6, 7, -1, -2])
            sub = 'int' if kind in ('decimal', 'long') and r.random() < 0.5 else kind
            A, Aq = build(mp, p, gen_entries(r, p, sub, cplx, n, n), cplx)
            case = {'op': op, 'k': k, 'kind': sub, 'complex': cplx, 'prec': p, 'A': ser(Aq)}
            powers = [L.eye(n)]
            for j in range(abs(k)):
                powers.append(L.mul(powers[-1], Aq))
            allfit = all(L.fits(v, p) for P in powers for row in P for v in row)
            if k >= 0:
                got = L.from_mpmatrix(A ** k)
                exact = powers[k]
                if allfit:
                    rec.case((op, k, p, key_of(Aq)), True, cls=cls + '/exact')
                    if not L.equal(got, exact):
                        rec.violation('C30/arith/pow/representable-not-exact', 'A**k: every intermediate power is representable but the result is not exact',
                                      case, ser(got), ser(exact))
                else:
                    absA = [[absu(v) for v in row] for row in Aq]
                    S = L.matpow(absA, k)
                    # an intermediate power was rounded: a representable final entry need not come out exact
                    nt = cmp_matrix(rec, op, case, got, exact, S, p, slack=4, exact_when_fits=False)
                    rec.case((op, k, p, key_of(Aq)), True, cls=cls + '/rounded')
            else:
                if not allfit:
                    rec.cls('outside-envelope/pow-negative-inexact-base')
                    return
                Pk = powers[-k]
                try:
                    inv = L.inverse(Pk)
                except L.Singular:
                    return
                cond = L.cond_upper(Pk, 'inf', inv)
                if cond ** 3 > L.pow2(p):
                    rec.cls('outside-envelope/pow-negative')
                    return
                try:
                    got = L.from_mpmatrix(A ** k)
                except Exception as e:
                    rec.case((op, k, p, key_of(Aq)), True, cls=cls + '/negative')
                    rec.violation('C30/arith/pow/negative-raised-%s' % type(e).__name__, 'A**k (k<0) raised inside the envelope', case, repr(e), None)
                    return
                rec.case((op, k, p, key_of(Aq)), True, cls=cls + '/negative')
                ok, ratio = relerr_verdict(got, inv, cond * L.pow2(10 - p))
                if not ok:
                    rec.violation('C30/arith/pow/negative-accuracy', 'A**k (k<0) differs from the exact inverse power by more than cond*2^(10-p)',
                                  case, {'log2_relerr': ratio}, None)



# ---------------------------------------------------------------------------------------
# mutate-then-refactor: stale state kept on a matrix *object* (LU cache) must never leak into a later call
# ---------------------------------------------------------------------------------------
MUT_OPS = ['lu', 'LU_decomp', 'det', 'inverse', 'lu_solve', 'qr', 'cholesky']
MUT_KINDS = ['element', 'row-slice', 'col-slice', 'col-slice-scalar', 'block-slice', 'full-slice', 'swap_row', 'inplace-slice-op',
             'inplace-element-op', 'rebind-op', 'resize-shrink', 'resize-grow']
MUT_CASES = {'quick': 170, 'thorough': 1700}


class TagRec(object):
    """recorder proxy: every violation raised by the ordinary checks is re-keyed to C30/<op>/after-mutation/<kind>"""

    def __init__(self, rec, op, kind):
        self._rec, self._op, self._kind = rec, op, kind

    def __getattr__(self, name):
        return getattr(self._rec, name)

    def violation(self, key, what, case, observed=None, expected=None, severity=None):
        case = dict(case, mutation=self._kind, original_key=key)
        self._rec.violation('C30/%s/after-mutation/%s' % (self._op, self._kind),
                            'after an in-place %s mutation of the same matrix object: %s' % (self._kind, what), case, observed, expected, severity)

    def case(self, ident, nontrivial=True, cls=None):
        self._rec.case(('mutate', self._kind) + tuple(ident), nontrivial, cls='mutate/%s/%s' % (self._op, self._kind))

    def maximum(self, name, value, witness=None):
        pass


def _spd_block(r, k):
    B = [[Fraction(r.randint(-3, 3)) for _ in range(k)] for _ in range(k + 1)]
    return L.add(L.mul(L.T(B), B), L.eye(k))


def mutate(mp, r, M, Aq, kind, spd):
    """apply the in-place mutation to the matrix object M; returns (M, expected exact content computed independently from
    the definition of the mutation).  For spd=True the mutation keeps the matrix symmetric positive definite."""
    n = len(Aq)
    E = [list(row) for row in Aq]
    i, j = r.randrange(n), r.randrange(n)

    def val():
        return Fraction(r.randint(-9, 9) or 4)
    if kind == 'element':
        if spd:
            j = i
            v = E[i][i] + r.randint(1, 5)
        else:
            v = val()
        M[i, j] = L.to_mp_scalar(mp, v) if r.random() < 0.5 else int(v)
        E[i][j] = v
    elif kind in ('row-slice', 'col-slice', 'col-slice-scalar'):
        if spd:
            # decouple index i: row i and column i become d*e_i (still symmetric positive definite)
            d = Fraction(r.randint(1, 9))
            vec = [d if t == i else Fraction(0) for t in range(n)]
            M[i, :] = L.to_mpmatrix(mp, [vec])
            M[:, i] = L.to_mpmatrix(mp, [[v] for v in vec])
            for t in range(n):
                E[i][t] = vec[t]
                E[t][i] = vec[t]
        elif kind == 'row-slice':
            vec = [val() for _ in range(n)]
            M[i, :] = L.to_mpmatrix(mp, [vec])
            E[i] = vec
        elif kind == 'col-slice':
            vec = [val() for _ in range(n)]
            M[:, j] = L.to_mpmatrix(mp, [[v] for v in vec])
            for t in range(n):
                E[t][j] = vec[t]
        else:
            v = val()
            M[:, j] = int(v)
            for t in range(n):
                E[t][j] = v
    elif kind == 'block-slice':
        k = r.randint(1, n)
        a = r.randint(0, n - k)
        if spd:
            # replace a leading-diagonal block and cut its coupling: block-diagonal SPD
            B = _spd_block(r, k)
            Z = n - k
            M[a:a + k, a:a + k] = L.to_mpmatrix(mp, B)
            for t in range(n):
                if not (a <= t < a + k):
                    M[a:a + k, t] = 0
                    M[t, a:a + k] = 0
            for x in range(k):
                for y in range(n):
                    if a <= y < a + k:
                        E[a + x][y] = B[x][y - a]
                    else:
                        E[a + x][y] = Fraction(0)
                        E[y][a + x] = Fraction(0)
        else:
            b = r.randint(0, n - k)
            B = [[val() for _ in range(k)] for _ in range(k)]
            M[a:a + k, b:b + k] = L.to_mpmatrix(mp, B)
            for x in range(k):
                for y in range(k):
                    E[a + x][b + y] = B[x][y]
    elif kind == 'full-slice':
        B = _spd_block(r, n) if spd else [[val() for _ in range(n)] for _ in range(n)]
        M[:, :] = L.to_mpmatrix(mp, B)
        E = [list(row) for row in B]
    elif kind == 'swap_row':
        if spd:
            # symmetric permutation keeps positive definiteness: swap rows then the same columns
            mp.swap_row(M, i, j)
            Mt = M.T
            mp.swap_row(Mt, i, j)
            M[:, :] = Mt.T
            E[i], E[j] = E[j], E[i]
            for row in E:
                row[i], row[j] = row[j], row[i]
        else:
            mp.swap_row(M, i, j)
            E[i], E[j] = E[j], E[i]
    elif kind == 'inplace-slice-op':
        c = r.choice([2, 3, -2]) if not spd else 1
        if spd:
            M[:, :] *= 4
            E = [[4 * v for v in row] for row in E]
        else:
            M[i, :] *= c
            E[i] = [c * v for v in E[i]]
    elif kind == 'inplace-element-op':
        if spd:
            j = i
        v = Fraction(r.randint(1, 7))
        M[i, j] += int(v)
        E[i][j] = E[i][j] + v
    elif kind == 'rebind-op':
        B = _spd_block(r, n) if spd else [[val() for _ in range(n)] for _ in range(n)]
        which = r.choice(['+=', '*=2', '-='])
        if which == '+=' or (spd and which == '-='):
            M += L.to_mpmatrix(mp, B)
            E = L.add(E, B)
        elif which == '*=2':
            M *= 2
            E = [[2 * v for v in row] for row in E]
        else:
            M -= L.to_mpmatrix(mp, B)
            E = L.sub(E, B)
    elif kind == 'resize-shrink':
        if n < 2:
            return M, None
        M.rows = n - 1
        M.cols = n - 1
        E = [row[:n - 1] for row in E[:n - 1]]
    elif kind == 'resize-grow':
        M.rows = n + 1
        M.cols = n + 1
        d = Fraction(r.randint(1, 9))
        M[n, n] = int(d)
        E = [row + [Fraction(0)] for row in E] + [[Fraction(0)] * n + [d]]
        if not spd and r.random() < 0.5:
            v = val()
            M[n, 0] = int(v)
            E[n][0] = v
    else:
        raise ValueError(kind)
    return M, E


def check_mutation(mp, rec, r, op, kind, p, tier):
    """factor/solve with a matrix object, mutate the object in place, call again at the same precision and verify the
    second result against the CURRENT content with the exact oracle"""
    smax = MAXSIZE[tier]
    n = r.randint(2, smax)
    spd = op == 'cholesky'
    if spd:
        Aq = _spd_block(r, n)
    else:
        Aq = [[Fraction(r.randint(-9, 9)) for _ in range(n)] for _ in range(n)]
        for t in range(n):
            Aq[t][t] += r.choice([12, -12])            # comfortably nonsingular
    case0 = {'op': 'mutate', 'fn': op, 'mutation': kind, 'prec': p, 'A': ser(Aq)}
    with Prec(mp, p):
        M = L.to_mpmatrix(mp, Aq)
        b = mp.matrix([1 + t for t in range(n)])
        try:
            # first use of the object (this is what may leave state behind); its result is not the subject here
            if op == 'lu':
                mp.lu(M)
            elif op == 'LU_decomp':
                mp.LU_decomp(M)
            elif op == 'det':
                mp.det(M); mp.LU_decomp(M)
            elif op == 'inverse':
                mp.inverse(M); mp.LU_decomp(M)
            elif op == 'lu_solve':
                mp.lu_solve(M, b); mp.LU_decomp(M)
            elif op == 'qr':
                mp.qr(M); mp.LU_decomp(M)
            else:
                mp.cholesky(M)
                try:
                    mp.LU_decomp(M)
                except ZeroDivisionError:
                    pass
        except Exception as e:
            rec.note('mutate: first call raised', {'fn': op, 'exc': repr(e)}, cap=5)
            return
        try:
            M, E = mutate(mp, r, M, Aq, kind, spd)
        except Exception as e:
            rec.violation('C30/mutation/%s/raised-%s' % (kind, type(e).__name__), 'the in-place mutation itself raised', case0, repr(e), None)
            return
        if E is None:
            return
        cur = L.from_mpmatrix(M)
    if L.shape(cur) != L.shape(E) or not L.equal(cur, E):
        rec.case(('mutate-content', kind, p, key_of(Aq)), True, cls='mutate/content/' + kind)
        rec.violation('C30/mutation/%s/content' % kind, 'matrix content after the in-place mutation differs from the definition of the mutation',
                      dict(case0, expected=ser(E)), ser(cur), ser(E))
        return
    rec.event('mutate-then-refactor sequences', 1)
    trec = TagRec(rec, op, kind)
    m2 = len(cur)
    if op in ('lu', 'LU_decomp'):
        check_lu(mp, trec, r, op, 'mutated', False, p, cur, A_obj=M)
    elif op == 'qr':
        check_qr(mp, trec, r, 'mutated', False, p, cur, r.choice(['full', 'skinny']), A_obj=M)
    elif op == 'cholesky':
        if not L.is_hermitian(cur):
            return
        try:
            check_cholesky(mp, trec, r, 'mutated', False, p, cur, A_obj=M)
        except L.Singular:
            return
    else:
        bq = [Fraction(r.randint(-9, 9) or 1) for _ in range(m2)] if op == 'lu_solve' else None
        check_solve(mp, trec, r, op, 'mutated', False, p, cur, bq, A_obj=M)


def mut_cells():
    return [(op, k) for op in MUT_OPS for k in MUT_KINDS]


MUT_CELLS = mut_cells()

# ---------------------------------------------------------------------------------------
# driver
# ---------------------------------------------------------------------------------------

def pick_prec(r, i):
    if r.random() < 0.7:
        return PRECS[i % len(PRECS)]
    return r.randint(30, 300)


def gen_rhs(r, p, cplx, m, Aq=None, consistent=False):
    if consistent and Aq is not None:
        n = len(Aq[0])
        x0 = [(L.GQ(r.randint(-5, 5), r.randint(-5, 5)) if cplx else Fraction(r.randint(-5, 5))) for _ in range(n)]
        b = L.matvec(Aq, x0)
        if all(L.fits(v, p + 10) for v in b) and any(b):
            return b
    out = []
    for _ in range(m):
        if cplx and r.random() < 0.7:
            out.append(L.GQ(_int(r) if r.random() < 0.5 else _dy(r, p), _int(r)))
        else:
            out.append(_int(r) if r.random() < 0.5 else _dy(r, p))
    if not any(out):
        out[0] = Fraction(1)
    return out


def run_case(mp, rec, r, i, tier):
    op, kind, cplx = CELLS[i % len(CELLS)]
    p = pick_prec(r, i // len(CELLS))
    smax = MAXSIZE[tier]
    n = r.choice([1, 2, 2, 3, 3, 4, 4, 5, 5, 6, 7, 8][:4 + 2 * (smax - 2)]) if smax < 8 else r.choice([1, 2, 3, 4, 5, 6, 7, 8])
    n = min(n, smax)
    if op in ARITH_OPS:
        return check_arith(mp, rec, r, op, kind, cplx, p, tier)
    if op == 'singular':
        Aq = gen_singular(r, kind, cplx, n)
        return check_singular(mp, rec, r, kind, cplx, p, Aq, r.choice(['inverse', 'lu_solve']))
    if op in ('cholesky', 'cholesky_solve'):
        Aq = gen_spd(r, p, kind, cplx, n)
        if not all(L.fits(v, p) for row in Aq for v in row):
            return
        if op == 'cholesky':
            return check_cholesky(mp, rec, r, kind, cplx, p, Aq)
        return check_solve(mp, rec, r, op, kind, cplx, p, Aq, gen_rhs(r, p, cplx, n))
    over = op.endswith('_over')
    m = n + r.randint(1, 3) if over else n
    if op == 'qr':
        m = n + r.choice([0, 0, 1, 2, 3])
        if r.random() < 0.15:
            n = 1
    m = min(m, smax + 2)
    with Prec(mp, p):
        _, Aq = build(mp, p, gen_entries(r, p, kind, cplx, m, n), cplx)
    if op == 'qr':
        return check_qr(mp, rec, r, kind, cplx, p, Aq, r.choice(['full', 'skinny']))
    if op in ('lu', 'LU_decomp'):
        return check_lu(mp, rec, r, op, kind, cplx, p, Aq)
    bq = None
    if op not in ('inverse', 'det'):
        bq = gen_rhs(r, p, cplx, m, Aq, consistent=(over and r.random() < 0.4))
    via_list = (kind in ('int', 'sparse') and r.random() < 0.3 and as_list_input(r, Aq) is not None and
                (bq is None or as_list_input(r, [[v] for v in bq]) is not None))
    return check_solve(mp, rec, r, op, kind, cplx, p, Aq, bq, via_list)


ANCHORS = ['mpmath.matrices.linalg:LinearAlgebraMethods.LU_decomp', 'mpmath.matrices.linalg:LinearAlgebraMethods.lu_solve',
           'mpmath.matrices.linalg:LinearAlgebraMethods.householder', 'mpmath.matrices.linalg:LinearAlgebraMethods.qr',
           'mpmath.matrices.linalg:LinearAlgebraMethods.cholesky', 'mpmath.matrices.linalg:LinearAlgebraMethods.inverse',
           'mpmath.matrices.linalg:LinearAlgebraMethods.det', 'mpmath.matrices.matrices:_matrix.__mul__',
           'mpmath.matrices.matrices:MatrixMethods.norm', 'mpmath.matrices.matrices:MatrixMethods.mnorm']


def run_shard(shard, rec):
    mp = _mp()
    r = G.rng(PROP, shard['seed'], shard['shard'])
    tier = shard['tier']
    if L.selftest(40) != 0:
        raise RuntimeError('linalgq selftest failed')
    from vf.instrument import AnchorCount
    try:
        ctxm = AnchorCount(rec, ANCHORS)
    except Exception:
        ctxm = None
    def mutation_block():
        r2 = G.rng(PROP, shard['seed'], 'mutate-%d' % shard['shard'])
        for i in range(MUT_CASES[tier]):
            op, kind = MUT_CELLS[(i * NSHARDS + shard['shard']) % len(MUT_CELLS)]
            check_mutation(mp, rec, r2, op, kind, PRECS[(i + shard['shard']) % len(PRECS)], tier)
    if ctxm is not None:
        with ctxm:
            for i in range(shard['n']):
                run_case(mp, rec, r, i * NSHARDS + shard['shard'], tier)
            mutation_block()
    else:
        for i in range(shard['n']):
            run_case(mp, rec, r, i * NSHARDS + shard['shard'], tier)
        mutation_block()
    rec.event('results compared with exact rational linear algebra', rec.evals)


def required(agg, tier):
    miss = []
    for op in SOLVE_OPS + FACTOR_OPS + ['add', 'sub', 'mul', 'pow', 'transpose', 'norm', 'mnorm', 'singular']:
        if not any(k.startswith(op + '/') for k in agg['classes']):
            miss.append('no %s case observed inside the envelope' % op)
    if not agg['events'].get('results compared with exact rational linear algebra'):
        miss.append('oracle compared nothing')
    for op in MUT_OPS:
        for kind in ('row-slice', 'col-slice', 'block-slice', 'element', 'swap_row', 'resize-shrink'):
            if not agg['classes'].get('mutate/%s/%s' % (op, kind)):
                miss.append('mutate-then-refactor: %s after %s never verified' % (op, kind))
    return miss


def replay(case, rec):
    mp = _mp()
    c = case['case']
    import random
    r = random.Random(0)
    op, p, cplx, kind = c['op'], c['prec'], c.get('complex', False), c.get('kind', 'replay')
    if op in SOLVE_OPS:
        Aq = deser(c['A'])
        bq = deser(c['b'])[0] if c.get('b') else None
        check_solve(mp, rec, r, op, kind, cplx, p, Aq, bq, c.get('via_list', False))
    elif op in ('lu', 'LU_decomp'):
        check_lu(mp, rec, r, op, kind, cplx, p, deser(c['A']))
    elif op == 'qr':
        check_qr(mp, rec, r, kind, cplx, p, deser(c['A']), c['mode'])
    elif op == 'cholesky':
        check_cholesky(mp, rec, r, kind, cplx, p, deser(c['A']))
    elif op == 'singular':
        check_singular(mp, rec, r, kind, cplx, p, deser(c['A']), c['which'])
    elif op == 'sub' and 'B' in c:
        Aq, Bq = deser(c['A']), deser(c['B'])
        with Prec(mp, p):
            got = L.from_mpmatrix(L.to_mpmatrix(mp, Aq) - L.to_mpmatrix(mp, Bq))
        S = [[absu(a) + absu(b) for a, b in zip(ra, rb)] for ra, rb in zip(Aq, Bq)]
        nt = cmp_matrix(rec, op, c, got, L.sub(Aq, Bq), S, p, lambda why: 'C30/arith/sub/via-negation-double-rounding')
        rec.case(('sub', p), True, cls='sub/replay')
    else:
        rec.undecided('replay of %s cases re-runs the seeded shard instead' % op)
