"""C11 -- working precision (prec AND dps) is restored on every exit path.

Observed: (ctx.prec, ctx.dps, identity + content of the shared precision slot) at entry and exit of the outermost
call and of every nested public call (ApiBoundary), every precision-setter event with its caller (PrecTrace).
Crash points: user callbacks raising at their k-th call; failpoints (sys.monitoring PY_START on libmp primitives)
raising an InjectedFault(BaseException) / ZeroDivisionError / ValueError at the k-th primitive entry; natural
failures (poles, domain errors, NoConvergence).  Also: workprec/workdps/extraprec/extradps as with-blocks and
decorators (nesting, re-use of one object, exceptions), autoprec/memoize/maxcalls, wrapper / decorator / callable
objects created under precision A and called under precision B != A, the dps<->prec setter laws, iv / fp / a clone of mp.
Oracle: state equality (exit vs entry); setter laws against the documented formulas evaluated in exact rational
arithmetic."""
import time, random
from fractions import Fraction
from vf import gens as G
from vf import catalog
from vf import instrument as I
from vf.instrument import InjectedFault, AnchorCount, code_objects_of_module
from vf import c11_core as K
from vf import c11_tables as T

PROP = 'C11'
LEVEL = 'fault_enumeration'
RULE = ('fixed, seed-independent cells: entry point x argument kind (real / complex / table entry) x start precision '
        '(prec 53, 101, 54, 1000, 3 and dps settings) x fault kind; inside a cell the crash points k = 1..N (N = primitive '
        'entries resp. callback calls of the undisturbed run) are enumerated; the seed varies only argument values, the '
        'rotation of start precisions and the sampled k where N is above the enumeration bound. A case (one monitored run) '
        'is non-trivial when the fault fired while the working precision differed from its entry value, or (no fault) when '
        'the call changed the precision at least once; distinct = distinct (context, entry, arguments, start precision, fault, k)')
ASSUMPTIONS = ['sys.monitoring PY_START callbacks may raise into the monitored frame (CPython >= 3.12)',
               'crash points are entries into module-level functions of mpmath.libmp.{libmpf,libmpc,libelefun,gammazeta,libhyper,libmpi} '
               '(minus prec_to_dps/dps_to_prec) plus hypsum/hypercomb/quadrature summation; faults between two such entries are not injected',
               'the number of crash points N of a call is measured on an undisturbed run after one warm-up run (caches filled)',
               'leak attribution (mechanism key) uses the caller frame of the precision setter; the verdict itself only compares states']
SHARD_TIMEOUT = {'quick': 1500, 'thorough': 7200}
LEVEL_TEXT = ('fault enumeration: for every listed entry point, argument set and start precision the crash points k = 1..N are '
              'enumerated completely when N <= 400 (thorough: three fault kinds at every k; quick: interrupt at every k and one '
              'Exception-class fault alternating by k), a stratified sample of k (80 quick / 200 thorough strata + both ends) above 400; callbacks raise at their k-th call '
              'for k = 1..24, 40, 80, 160 (thorough: 1..64 and a stratified sample); cells that exceed the per-cell time cap '
              'are counted as cut in monitor_events; every wrapper/decorator/callable-object factory is created under precision A and '
              'called several times under B != A (directly, alternating B/C, inside a workprec block), with and without raising '
              'callbacks; state at exit is compared with state at entry on every run')
LEVEL_NOTE = ('not a proof: faults are injected only at entries of the listed primitives, argument values are samples, '
              'asynchronous interrupts between two bytecodes are not modelled; coverage.exhaustive is not claimed')
TECHNIQUE = 'runtime monitoring with crash-point enumeration (failpoints via sys.monitoring, raising callbacks), state-equality oracle'

PRECSETS_ALL = [('prec', 53), ('prec', 101), ('prec', 54), ('prec', 1000), ('prec', 3),
                ('dps', 15), ('dps', 30), ('dps', 7), ('dps', 50)]
ROT = [('prec', 53), ('prec', 54), ('prec', 1000), ('prec', 3), ('dps', 15), ('dps', 30), ('dps', 7), ('dps', 50)]
DPS_ROT = [('dps', 15), ('dps', 30), ('dps', 7), ('dps', 50)]

CAPS = {'quick': {'case': 2.0, 'cell': 2.5, 'complete': 400, 'sample': 80, 'cbmax': 24, 'cbcell': 6.0},
        'thorough': {'case': 10.0, 'cell': 12.0, 'complete': 400, 'sample': 200, 'cbmax': 64, 'cbcell': 40.0}}

FP_SHARDS = {'quick': 16, 'thorough': 40}
CB_SHARDS = {'quick': 5, 'thorough': 6}
CLONE_SHARDS = {'quick': 1, 'thorough': 5}
FACTORY_SHARDS = {'quick': 1, 'thorough': 4}


def shards(tier, seed):
    out = []
    for i in range(FP_SHARDS[tier]):
        out.append({'kind': 'fp', 'part': i, 'of': FP_SHARDS[tier]})
    for i in range(CB_SHARDS[tier]):
        out.append({'kind': 'cb', 'part': i, 'of': CB_SHARDS[tier]})
    out.append({'kind': 'laws+managers'})
    for i in range(FACTORY_SHARDS[tier]):
        out.append({'kind': 'factories', 'part': i, 'of': FACTORY_SHARDS[tier]})
    if tier == 'quick':
        out.append({'kind': 'natural+objects'})
    else:
        out.append({'kind': 'natural'})
        out.append({'kind': 'objects'})
    for i in range(CLONE_SHARDS[tier]):
        out.append({'kind': 'clone', 'part': i, 'of': CLONE_SHARDS[tier]})
    out.append({'kind': 'iv+fp'})
    return out


# ---------------------------------------------------------------------------------------
# environment: contexts + monitors
# ---------------------------------------------------------------------------------------
class Env(object):
    def __init__(self, rec, tier, want=('mp', 'clone', 'iv', 'fp')):
        import mpmath
        self.rec, self.tier = rec, tier
        self.caps = CAPS[tier]
        self.mpmath = mpmath
        self.ctx = {'mp': mpmath.mp}
        if 'clone' in want:
            self.ctx['clone'] = mpmath.mp.clone()
        if 'iv' in want:
            self.ctx['iv'] = mpmath.iv
        if 'fp' in want:
            self.ctx['fp'] = mpmath.fp
        self.hub = K.TraceHub()
        self.watch = {}
        for label, c in self.ctx.items():
            w = K.Watch(c, label, module=mpmath if label == 'mp' else None).install()
            self.watch[label] = w
            self.hub.add(w)
        codes = {}
        for m in ('libmpf', 'libmpc', 'libelefun', 'gammazeta', 'libhyper', 'libmpi'):
            codes.update(code_objects_of_module('mpmath.libmp.' + m))
        for c, n in list(codes.items()):
            if n in ('prec_to_dps', 'dps_to_prec'):
                del codes[c]
        for nm in ('mpmath.ctx_mp:MPContext.hypsum', 'mpmath.functions.hypergeometric:hypercomb',
                   'mpmath.functions.hypergeometric:hyper', 'mpmath.calculus.quadrature:QuadratureRule.summation',
                   'mpmath.calculus.quadrature:TanhSinh.sum_next', 'mpmath.calculus.quadrature:GaussLegendre.sum_next',
                   'mpmath.ctx_mp_python:PythonMPContext.convert', 'mpmath.ctx_mp:MPContext.mag'):
            f = I.resolve(nm)
            if f is not None:
                codes[f.__code__] = nm.split(':')[1]
        self.ncodes = len(codes)
        self.fp = K.FP(codes).install()
        self.anch = AnchorCount(rec, ['mpmath.ctx_mp_python:PythonMPContext._set_prec', 'mpmath.ctx_mp_python:PythonMPContext._set_dps',
                                      'mpmath.ctx_mp:PrecisionManager.__enter__', 'mpmath.ctx_mp:PrecisionManager.__exit__',
                                      'mpmath.ctx_mp:PrecisionManager.__call__',
                                      'mpmath.functions.hypergeometric:hypercomb', 'mpmath.functions.functions:lambertw',
                                      'mpmath.calculus.inverselaplace:LaplaceTransformInversionMethods.invertlaplace',
                                      'mpmath.calculus.quadrature:QuadratureMethods.quad', 'mpmath.calculus.optimization:findroot',
                                      'mpmath.calculus.extrapolation:nsum', 'mpmath.libmp.libmpf:prec_to_dps',
                                      'mpmath.libmp.libmpf:dps_to_prec'])
        self.anch.__enter__()
        self.t0 = time.time()

    def others(self, label):
        return [c for l, c in self.ctx.items() if l != label and l != 'fp']

    def close(self):
        rec = self.rec
        self.anch.__exit__(None, None, None)
        self.fp.uninstall()
        rec.event('wrapped public calls seen (ApiBoundary)', sum(w.api.calls for w in self.watch.values()))
        rec.event('precision-setter events seen (PrecTrace)', sum(w.setter_events for w in self.watch.values()))
        rec.event('failpoint code objects monitored', self.ncodes)
        for w in self.watch.values():
            w.uninstall()
        self.hub.uninstall()


# ---------------------------------------------------------------------------------------
# verdict of one monitored run
# ---------------------------------------------------------------------------------------
def fault_kind(planned, res, cb=None):
    if planned == 'interrupt' and res.get('fired'):
        return 'interrupt'
    if planned in ('ZeroDivisionError', 'ValueError') and res.get('fired'):
        return 'internal-exception'
    if cb is not None and cb.raised:
        return 'callback'
    return 'normal-return' if res['outcome'] == 'return' else 'natural-exception'


def judge(rec, res, case, ident, planned, cb=None, entry='', nontrivial_force=None, keytag=None):
    """count the case, raise violations; returns the fault kind"""
    if res['timeout']:
        rec.case(ident, False, cls='timeout')
        rec.undecided('case-timeout', case)
        return 'timeout'
    kind = fault_kind(planned, res, cb)
    s0, s1 = res['s0'], res['s1']
    at = cb.at if (cb is not None and cb.raised) else res.get('at')
    if kind in ('interrupt', 'internal-exception', 'callback'):
        exposed = at is not None and at != s0[0]
        nontrivial = exposed
        cls = '%s/%s/%s' % (case.get('section', ''), kind, 'exposed' if exposed else 'unexposed')
    else:
        nontrivial = res['trace_len'] > 0
        cls = '%s/%s/%s' % (case.get('section', ''), kind, 'prec-changed' if nontrivial else 'prec-untouched')
        if kind == 'natural-exception':
            rec.cls('natural-exception/' + str(res['exc']))
    if nontrivial_force is not None:
        nontrivial = nontrivial_force
    rec.case(ident, nontrivial, cls=cls)
    if res.get('fired'):
        rec.event('failpoints fired')
        if planned == 'interrupt' and res['outcome'] == 'return':
            rec.event('interrupt swallowed by the library (call returned normally)')
    if cb is not None and cb.raised:
        rec.event('callbacks raised')
    outer_culprit = None
    if s1 != s0:
        outer_culprit = res['culprit']
        c = K.qual(res['culprit']) if res['culprit'] else 'untraced[%s]' % entry
        if keytag:
            c = '%s[%s]' % (c, keytag)
        if s0[:2] == s1[:2]:
            key = 'C11/slot/%s/%s' % (c, kind)
            what = 'shared precision slot (identity/content/rounding) differs at exit of %s' % entry
        else:
            key = 'C11/leak/%s/%s' % (c, kind)
            what = '%s: precision at exit differs from precision at entry (%s)' % (entry, kind)
        obs = dict(K.describe_state(s1), unrestored_changes=res['stack'], exception=res['exc'])
        rec.violation(key, what, case, observed=obs, expected=K.describe_state(s0), severity=abs(s1[0] - s0[0]))
    seen = set()
    for lk in res['leaks']:
        if lk['depth'] <= 1:
            continue
        if lk['culprit'] == outer_culprit and s1 != s0:
            continue
        c = K.qual(lk['culprit']) if lk['culprit'] else 'untraced[%s]' % lk['name']
        if c in seen:
            continue
        seen.add(c)
        rec.event('nested leaks (public function called by the library left the precision changed)')
        rec.violation('C11/nested-leak/%s/%s' % (c, kind),
                      'nested public call %s (inside %s) returned/raised with a different precision than at its entry; '
                      'restored later by an enclosing frame' % (lk['name'], entry), case,
                      observed=dict(K.describe_state(lk['after']), nested=lk['name'], depth=lk['depth'], unrestored_changes=lk['stack']),
                      expected=K.describe_state(lk['before']), severity=abs(lk['after'][0] - lk['before'][0]))
    for a, b in res['others']:
        if a != b:
            rec.violation('C11/other-context/%s/%s' % (entry.split('/')[0], kind),
                          '%s changed the precision of a context it was not called on' % entry, case,
                          observed=K.describe_state(b), expected=K.describe_state(a))
    return kind


# ---------------------------------------------------------------------------------------
# failpoint section
# ---------------------------------------------------------------------------------------
def pick_ks(N, caps, r):
    if N <= 0:
        return [], True
    if N <= caps['complete']:
        ks = list(range(1, N + 1))
        r.shuffle(ks)
        return ks, True
    m = caps['sample']
    ks = set(range(1, 9)) | set(range(N - 7, N + 1))
    for i in range(m):
        lo, hi = 1 + i * N // m, (i + 1) * N // m
        ks.add(r.randint(lo, max(lo, hi)))
    ks = sorted(ks)
    r.shuffle(ks)
    return ks, False


def make_exc(fault, k):
    if fault == 'interrupt':
        return InjectedFault('injected at primitive entry %d' % k)
    if fault == 'ZeroDivisionError':
        return ZeroDivisionError('injected at primitive entry %d' % k)
    return ValueError('injected at primitive entry %d' % k)


def faults_for(k, tier):
    if tier == 'thorough':
        return ('interrupt', 'ZeroDivisionError', 'ValueError')
    return ('interrupt', 'ZeroDivisionError' if k & 1 else 'ValueError')


def fp_cell(env, cx, entry, mkcall, case0, precsets, r, ks_only=None, faults_only=None):
    """enumerate the crash points of one (entry point, arguments) pair at the given start precisions"""
    rec, caps, tier = env.rec, env.caps, env.tier
    ctx, w, fp = env.ctx[cx], env.watch[cx], env.fp
    fp.probe = (lambda c=ctx: c.prec)
    others = env.others(cx)
    for precset in precsets:
        K.set_precision(ctx, precset)
        try:
            call = mkcall(ctx)
        except Exception as e:
            rec.event('cells skipped: arguments could not be built')
            continue
        case = dict(case0, ctx=cx, entry=entry, precset=list(precset))
        t_cell = time.process_time()
        warm = K.run_case(ctx, w, call, precset, caps['case'], others=others)
        if warm['timeout']:
            rec.event('cells skipped: undisturbed run slower than the per-case cap')
            continue
        base = K.run_case(ctx, w, call, precset, caps['case'], fp=fp, k=None, exc=None, others=others)
        ident = (cx, entry, repr(case0.get('specs', '')), precset)
        judge(rec, base, dict(case, fault='none', k=0), ident + ('none', 0), 'none', entry=entry)
        if base['timeout']:
            continue
        N = base['count']
        rec.cls('entry/' + entry.split('/')[0], 0)
        rec.maximum('primitive entries in one call (N)', N, {'entry': entry, 'precset': list(precset)})
        if ks_only is not None:
            ks, complete = list(ks_only), False
        else:
            ks, complete = pick_ks(N, caps, r)
        done, cut = 0, False
        for k in ks:
            if time.process_time() - t_cell > caps['cell']:
                cut = True
                break
            for fault in (faults_only or faults_for(k, tier)):
                res = K.run_case(ctx, w, call, precset, caps['case'], fp=fp, k=k, exc=make_exc(fault, k), others=others)
                judge(rec, res, dict(case, fault=fault, k=k), ident + (fault, k), fault, entry=entry)
            done += 1
        rec.cls('entry/' + entry.split('/')[0], done)
        rec.event('crash points enumerated (primitive entries x start precision)', done)
        if ks_only is None:
            if cut:
                rec.event('cells cut by the per-cell time cap')
            elif complete:
                rec.event('cells enumerated completely (N <= %d)' % caps['complete'])
            else:
                rec.event('cells with a stratified sample of k (N > %d)' % caps['complete'])
            rec.sample({'entry': entry, 'ctx': cx, 'precset': list(precset), 'N': N, 'crash_points_run': done,
                        'complete': bool(complete and not cut)})


def precsets_for(tier, idx, seed):
    if tier == 'thorough':
        return [('prec', 53), ('prec', 101), ('prec', 54), ('prec', 1000), ('prec', 3), DPS_ROT[(idx + seed) % len(DPS_ROT)]]
    return [('prec', 101), ROT[(idx + seed) % len(ROT)]]


def fp_worklist(tier):
    """seed-independent list of cells"""
    cells = []
    kinds = ('R', 'C') if tier == 'quick' else ('R', 'C', 'R2', 'C2')
    for name in catalog.names():
        for kind in kinds:
            cells.append(('cat', name, kind))
    for label in T.EXTRAS:
        cells.append(('ex', label, ''))
    return cells


def cat_specs(name, kind, seed):
    r = G.rng(PROP, seed, 'args:%s:%s' % (name, kind))
    mag = (-2, 3) if kind in ('R', 'C') else None
    specs = catalog.gen_args(name, r, 53, mag=mag, real_only=kind.startswith('R'))
    if kind.startswith('C') and not any(s[0] == 'C' for s in specs):
        # make sure the complex set really has a complex argument where the shape allows one
        for _ in range(6):
            specs = catalog.gen_args(name, r, 53, mag=mag, real_only=False)
            if any(s[0] == 'C' for s in specs):
                break
    return specs


def mk_cat_call(name, specs):
    def mk(ctx):
        args = [catalog.build(ctx, s) for s in specs]
        return lambda: getattr(ctx, name)(*args)
    return mk


def mk_extra_call(label):
    name, builder = T.EXTRAS[label]

    def mk(ctx):
        a, kw = builder(ctx)
        return lambda: getattr(ctx, name)(*a, **kw)
    return mk


def run_fp(shard, rec, env):
    tier, seed = shard['tier'], shard['seed']
    cells = fp_worklist(tier)
    for idx, cell in enumerate(cells):
        if idx % shard['of'] != shard['part']:
            continue
        typ, a, b = cell
        r = G.rng(PROP, seed, 'ks:%s:%s:%s' % cell)
        if typ == 'cat':
            specs = cat_specs(a, b, seed)
            fp_cell(env, 'mp', '%s/%s' % (a, b), mk_cat_call(a, specs), {'section': 'failpoint', 'name': a, 'specs': specs},
                    precsets_for(tier, idx, seed), r)
        else:
            if not hasattr(env.ctx['mp'], T.EXTRAS[a][0]):
                continue
            fp_cell(env, 'mp', a, mk_extra_call(a), {'section': 'failpoint', 'extra': a}, precsets_for(tier, idx, seed), r)


# ---------------------------------------------------------------------------------------
# callback section
# ---------------------------------------------------------------------------------------
CB_EXC = {'UserError': lambda: K.UserError('callback failed'), 'ZeroDivisionError': lambda: ZeroDivisionError('callback'),
          'ValueError': lambda: ValueError('callback'), 'ArithmeticError': lambda: ArithmeticError('callback'),
          'UserInterrupt': lambda: K.UserInterrupt('callback interrupted')}


def cb_ks(M, caps, r):
    ks = [k for k in list(range(1, caps['cbmax'] + 1)) + [40, 80, 160] if k <= M]
    if caps['cbmax'] > 24 and M > caps['cbmax']:
        m = 24
        for i in range(m):
            lo, hi = 1 + i * M // m, (i + 1) * M // m
            ks.append(r.randint(lo, max(lo, hi)))
        ks.append(M)
    return sorted(set(ks))


def cb_excs(k, tier, i):
    if tier == 'thorough':
        return ('UserError', 'ZeroDivisionError', 'ValueError', 'ArithmeticError', 'UserInterrupt')
    return ('UserError', ('ZeroDivisionError', 'UserInterrupt', 'ValueError')[(k + i) % 3])


def cb_cell(env, cx, label, precsets, r, ks_only=None, excs_only=None):
    rec, caps, tier = env.rec, env.caps, env.tier
    ctx, w = env.ctx[cx], env.watch[cx]
    name, runner = T.CALLBACKS[label]
    if not hasattr(ctx, name):
        rec.event('callback entries skipped: not available on this context')
        return
    others = env.others(cx)
    for pi, precset in enumerate(precsets):
        case = {'section': 'callback', 'ctx': cx, 'entry': label, 'precset': list(precset)}
        ident = (cx, 'cb', label, precset)
        t_cell = time.process_time()
        cb = K.CB(ctx)
        base = K.run_case(ctx, w, lambda: runner(ctx, cb), precset, caps['case'], others=others)
        judge(rec, base, dict(case, exc='none', k=0), ident + ('none', 0), 'none', cb=cb, entry='cb:' + label)
        if base['timeout']:
            continue
        M = cb.n
        rec.maximum('callback calls in one undisturbed run (M)', M, {'entry': label, 'precset': list(precset)})
        ks = ks_only if ks_only is not None else cb_ks(M, caps, r)
        done = 0
        for k in ks:
            if time.process_time() - t_cell > caps['cbcell']:
                rec.event('callback cells cut by the per-cell time cap')
                break
            for en in (excs_only or cb_excs(k, tier, pi)):
                cb = K.CB(ctx, k, CB_EXC[en]())
                res = K.run_case(ctx, w, lambda: runner(ctx, cb), precset, caps['case'], others=others)
                judge(rec, res, dict(case, exc=en, k=k), ident + (en, k), 'callback', cb=cb, entry='cb:' + label)
            done += 1
        rec.cls('entry/cb:' + label, done)
        rec.event('crash points enumerated (callback calls x start precision)', done)
        rec.sample({'entry': 'cb:' + label, 'ctx': cx, 'precset': list(precset), 'M': M, 'crash_points_run': done})


def cb_precsets(tier, idx, seed):
    if tier == 'thorough':
        return PRECSETS_ALL[:5] + [DPS_ROT[(idx + seed) % 4], DPS_ROT[(idx + seed + 1) % 4]]
    return [('prec', 101), ('prec', 53), [('prec', 54), ('prec', 3), ('dps', 30), ('dps', 7), ('prec', 1000), ('dps', 50)][(idx + seed) % 6]]


def diffs_generator_protocol(env, cx, precset):
    """diffs() is a generator: whenever control is back in user code (after each next(), after close()) the
    precision must be the entry precision"""
    rec = env.rec
    ctx = env.ctx[cx]
    K.set_precision(ctx, precset)
    s0 = K.ctx_state(ctx)
    case = {'section': 'generator', 'ctx': cx, 'entry': 'diffs', 'precset': list(precset)}
    for variant, kw in (('plain', {}), ('singular', {'singular': True})):
        g = ctx.diffs(ctx.exp, 1, 6, **kw)
        for step in range(4):
            next(g)
            s = K.ctx_state(ctx)
            rec.case((cx, 'diffs-gen', variant, precset, step), True, cls='generator/suspended')
            if s != s0:
                rec.violation('C11/leak/mpmath.calculus.differentiation.diffs[suspended-generator]/normal-return',
                              'diffs() generator suspended with a changed working precision', dict(case, step=step),
                              K.describe_state(s), K.describe_state(s0))
                K.set_precision(ctx, precset)
        g.close()
        s = K.ctx_state(ctx)
        rec.case((cx, 'diffs-gen', variant, precset, 'close'), True, cls='generator/closed')
        if s != s0:
            rec.violation('C11/leak/mpmath.calculus.differentiation.diffs[closed-generator]/normal-return',
                          'diffs() generator closed early leaves a changed working precision', case,
                          K.describe_state(s), K.describe_state(s0))
            K.set_precision(ctx, precset)


def add_missing_solvers():
    """every solver name known to the tree gets a callback entry (the table lists the 12 of the pinned snapshot)"""
    try:
        from mpmath.calculus.optimization import str2solver
    except Exception:
        return
    for sname in sorted(str2solver):
        if 'findroot/' + sname not in T.CALLBACKS:
            T.CALLBACKS['findroot/' + sname] = ('findroot', (lambda c, cb, sname=sname: c.findroot(
                cb(lambda x: x * x - 2), (1, 2), solver=sname)))


def run_cb(shard, rec, env):
    tier, seed = shard['tier'], shard['seed']
    add_missing_solvers()
    labels = list(T.CALLBACKS)
    for idx, label in enumerate(labels):
        if idx % shard['of'] != shard['part']:
            continue
        r = G.rng(PROP, seed, 'cb:' + label)
        cb_cell(env, 'mp', label, cb_precsets(tier, idx, seed), r)
    if shard['part'] == 0:
        for ps in PRECSETS_ALL:
            diffs_generator_protocol(env, 'mp', ps)


# ---------------------------------------------------------------------------------------
# factories: wrapper / decorator / callable objects CREATED under precision A and CALLED under precision B != A
# ---------------------------------------------------------------------------------------
FACTORY_PAIRS = [(('prec', 53), ('prec', 101), ('prec', 54)), (('prec', 101), ('prec', 53), ('dps', 30)),
                 (('prec', 101), ('prec', 54), ('prec', 3)), (('dps', 30), ('prec', 101), ('prec', 53)),
                 (('prec', 3), ('prec', 101), ('dps', 7)), (('prec', 54), ('dps', 7), ('prec', 1000)),
                 (('prec', 1000), ('prec', 53), ('prec', 101)), (('dps', 50), ('dps', 15), ('prec', 101))]
FACTORY_MODES = ('direct', 'alternate', 'inblock')


def factory_run(env, cx, label, A, B, C, mode, k=None, excname=None):
    """create under A, call (several times in a row) under B (mode alternate: B, C, B, ...; mode inblock: inside a
    with workprec(B) block entered after the creation); every call must leave the state it found"""
    rec, caps = env.rec, env.caps
    ctx, w = env.ctx[cx], env.watch[cx]
    name, make, calls = T.FACTORIES[label]
    others = env.others(cx)
    cb = K.CB(ctx, k, CB_EXC[excname]() if excname else None)
    case = {'section': 'factory', 'ctx': cx, 'entry': label, 'A': list(A), 'B': list(B), 'C': list(C), 'mode': mode,
            'k': k or 0, 'exc': excname or 'none'}
    ident = (cx, 'factory', label, A, B, C, mode, k, excname)
    box = []
    res = K.run_case(ctx, w, lambda: box.append(make(ctx, cb)), A, caps['case'], others=others)
    judge(rec, res, dict(case, step='create'), ident + ('create',), 'callback', cb=cb, entry='factory:' + label + '/create')
    if not box:
        return cb.n
    obj = box[0]
    K.set_precision(ctx, A)
    mgr = None
    if mode == 'inblock':
        K.set_precision(ctx, B)
        nB = ctx.prec
        K.set_precision(ctx, A)
        sA = K.ctx_state(ctx)
        mgr = ctx.workprec(nB)
        mgr.__enter__()
    for i, call in enumerate(calls):
        if mode == 'inblock':
            ps = ('prec', nB)
        elif mode == 'alternate':
            ps = (B, C)[i % 2]
        else:
            ps = B
        res = K.run_case(ctx, w, lambda: call(ctx, obj), ps, caps['case'], others=others)
        judge(rec, res, dict(case, step=i, call_precset=list(ps)), ident + (i,), 'callback', cb=cb,
              entry='factory:%s/call' % label, nontrivial_force=True, keytag='created-under-A-called-under-B')
        rec.cls('factory/' + mode)
        if res['timeout'] or (cb.raised and res['outcome'] == 'raise'):
            break
    if mgr is not None:
        mgr.__exit__(None, None, None)
        if K.ctx_state(ctx) != sA:
            rec.violation('C11/leak/factory-inblock-exit/' + label.split('/')[0], 'state after leaving the workprec block around the calls '
                          'differs from the state before it', case, K.describe_state(K.ctx_state(ctx)), K.describe_state(sA))
            K.set_precision(ctx, A)
    return cb.n


def run_factories(rec, env, tier, seed, part=0, of=1):
    pairs = FACTORY_PAIRS if tier == 'thorough' else FACTORY_PAIRS[:5]
    kmax = 40 if tier == 'thorough' else 10
    for li, label in enumerate(T.FACTORIES):
        if li % of != part:
            continue
        for cx in ('mp', 'clone'):
            if cx == 'clone' and tier == 'quick' and li % 3:
                continue
            for pi, (A, B, C) in enumerate(pairs):
                for mi, mode in enumerate(FACTORY_MODES):
                    if tier == 'quick' and (pi + mi + li + seed) % 3 == 2 and pi > 1:
                        continue
                    t0 = time.process_time()
                    M = factory_run(env, cx, label, A, B, C, mode)
                    ks = [k for k in list(range(1, kmax + 1)) + [20, 40, 80, 160] if k <= M]
                    for k in sorted(set(ks)):
                        if time.process_time() - t0 > (4.0 if tier == 'quick' else 20.0):
                            rec.event('factory cells cut by the time cap')
                            break
                        factory_run(env, cx, label, A, B, C, mode, k, ('UserError', 'ZeroDivisionError', 'UserInterrupt')[(k + pi) % 3])
                        if tier == 'thorough':
                            factory_run(env, cx, label, A, B, C, mode, k, 'ValueError')
        rec.cls('entry/factory:' + label, 1)
    rec.event('factory objects called under a precision different from their creation precision',
              sum(v for k, v in rec.classes.items() if k.startswith('factory/')))


# ---------------------------------------------------------------------------------------
# setter laws
# ---------------------------------------------------------------------------------------
def _atanh_inv(n, bits):
    """floor-ish fixed point value of atanh(1/n) * 2^bits and an error bound in units of 2^-bits"""
    S = 1 << bits
    t = S // n
    tot, j, n2, terms = 0, 0, n * n, 0
    while t:
        tot += t // (2 * j + 1)
        t //= n2
        j += 1
        terms += 1
    return tot, 2 * terms + 2


def log2_10_enclosure(bits=400):
    """[lo, hi] Fractions enclosing log2(10); integer arithmetic only: ln2 = 2 atanh(1/3), ln10 = 3 ln2 + 2 atanh(1/9)"""
    a3, e3 = _atanh_inv(3, bits)
    a9, e9 = _atanh_inv(9, bits)
    ln2_lo, ln2_hi = 2 * a3, 2 * (a3 + e3)
    ln10_lo, ln10_hi = 3 * ln2_lo + 2 * a9, 3 * ln2_hi + 2 * (a9 + e9)
    return Fraction(ln10_lo, ln2_hi), Fraction(ln10_hi, ln2_lo)


def rnd_half_even(q):
    """Python round() semantics on an exact rational, written out independently of Fraction.__round__"""
    fl = q.numerator // q.denominator
    rem = q - fl
    if rem > Fraction(1, 2) or (rem == Fraction(1, 2) and fl % 2 == 1):
        return fl + 1
    return fl


DOC_CONST = Fraction(3.3219280948873626)      # the literal of the documented formulas, exactly


def law_dps_to_prec(n):
    return max(1, rnd_half_even((n + 1) * DOC_CONST))


def law_prec_to_dps(n):
    return max(1, rnd_half_even(Fraction(n) / DOC_CONST) - 1)


def run_laws(rec, env, nmax=5000):
    lo, hi = log2_10_enclosure()
    assert lo <= DOC_CONST + Fraction(1, 10 ** 15) and hi >= DOC_CONST - Fraction(1, 10 ** 15) and hi - lo < Fraction(1, 10 ** 100)
    for cx in ('mp', 'clone', 'iv'):
        ctx = env.ctx[cx]
        save = ctx.prec
        for n in range(1, nmax + 1):
            # dps -> prec
            want = law_dps_to_prec(n)
            t_lo, t_hi = max(1, rnd_half_even((n + 1) * lo)), max(1, rnd_half_even((n + 1) * hi))
            ctx.dps = n
            got = (ctx.prec, ctx.dps)
            rec.case((cx, 'dps=', n), True, cls='law/dps->prec/' + cx)
            if t_lo != t_hi or t_lo != want:
                rec.note('law: literal constant and true log2(10) round differently', {'dps': n, 'doc': want, 'true': [t_lo, t_hi]})
            if got != (want, n):
                rec.violation('C11/law/dps->prec/' + cx, 'setting dps=n does not give prec = max(1, round((n+1)*3.3219280948873626)) / dps = n',
                              {'section': 'law', 'ctx': cx, 'set': 'dps', 'n': n}, observed=list(got), expected=[want, n])
            slot = ctx._prec_rounding[0] if cx != 'iv' else ctx._prec[0]
            if slot != ctx.prec:
                rec.violation('C11/law/slot/' + cx, 'precision slot used by the number classes differs from ctx.prec after setting dps',
                              {'section': 'law', 'ctx': cx, 'set': 'dps', 'n': n}, observed=slot, expected=ctx.prec)
            # prec -> dps
            want = law_prec_to_dps(n)
            t_lo, t_hi = max(1, rnd_half_even(n / hi) - 1), max(1, rnd_half_even(n / lo) - 1)
            ctx.prec = n
            got = (ctx.prec, ctx.dps)
            rec.case((cx, 'prec=', n), True, cls='law/prec->dps/' + cx)
            if t_lo != t_hi or t_lo != want:
                rec.note('law: literal constant and true log2(10) round differently', {'prec': n, 'doc': want, 'true': [t_lo, t_hi]})
            if got != (n, want):
                rec.violation('C11/law/prec->dps/' + cx, 'setting prec=n does not give dps = max(1, round(n/3.3219280948873626)-1) / prec = n',
                              {'section': 'law', 'ctx': cx, 'set': 'prec', 'n': n}, observed=list(got), expected=[n, want])
            slot = ctx._prec_rounding[0] if cx != 'iv' else ctx._prec[0]
            if slot != ctx.prec:
                rec.violation('C11/law/slot/' + cx, 'precision slot used by the number classes differs from ctx.prec after setting prec',
                              {'section': 'law', 'ctx': cx, 'set': 'prec', 'n': n}, observed=slot, expected=ctx.prec)
        # the workdps / workprec managers obey the same laws inside the block
        for n in (1, 2, 7, 15, 16, 29, 30, 50, 100, 301, 1000):
            ctx.prec = 53
            if not hasattr(ctx, 'workdps'):
                break
            with ctx.workdps(n):
                got = (ctx.prec, ctx.dps)
            rec.case((cx, 'workdps', n), True, cls='law/workdps/' + cx)
            if got != (law_dps_to_prec(n), n):
                rec.violation('C11/law/workdps/' + cx, 'workdps(n) does not set prec/dps according to the documented formula inside the block',
                              {'section': 'law', 'ctx': cx, 'set': 'workdps', 'n': n}, observed=list(got), expected=[law_dps_to_prec(n), n])
            with ctx.workprec(n):
                got = (ctx.prec, ctx.dps)
            rec.case((cx, 'workprec', n), True, cls='law/workprec/' + cx)
            if got != (n, law_prec_to_dps(n)):
                rec.violation('C11/law/workprec/' + cx, 'workprec(n) does not set prec/dps according to the documented formula inside the block',
                              {'section': 'law', 'ctx': cx, 'set': 'workprec', 'n': n}, observed=list(got), expected=[n, law_prec_to_dps(n)])
        ctx.prec = save
    # fp: fixed precision, observed only
    fpx = env.ctx['fp']
    fpx.prec = 100
    fpx.dps = 40
    rec.note('fp context after prec=100; dps=40 (fixed precision, not asserted)', [fpx.prec, fpx.dps])
    rec.event('setter-law cases', 2 * nmax * 3)


# ---------------------------------------------------------------------------------------
# managers
# ---------------------------------------------------------------------------------------
MGR_KINDS = [('workprec', 100), ('workdps', 30), ('extraprec', 20), ('extradps', 5), ('extraprec', -10), ('workprec', 53)]


def _exec_plan(ctx, plan, mgrs, path, log):
    for i, (m, rz, kids) in enumerate(plan):
        before = K.ctx_state(ctx)
        try:
            with mgrs[m]:
                _exec_plan(ctx, kids, mgrs, path + (i,), log)
                if rz:
                    raise K.BodyError()
        except K.BodyError:
            pass
        log.append((path + (i,), before, K.ctx_state(ctx), rz))


def manager_case(rec, env, cx, precset, ka, kb, plan):
    """one plan of with-blocks over two manager objects; every block exit must restore the state before its entry"""
    ctx, w = env.ctx[cx], env.watch[cx]
    K.set_precision(ctx, precset)
    s0 = K.ctx_state(ctx)
    mgrs = [getattr(ctx, ka[0])(ka[1]), getattr(ctx, kb[0])(kb[1])]
    log = []
    w.begin()
    _exec_plan(ctx, plan, mgrs, (), log)
    pc = T.plan_class(plan)
    case = {'section': 'manager', 'ctx': cx, 'precset': list(precset), 'managers': [list(ka), list(kb)], 'plan': plan}
    rec.case((cx, 'mgr', precset, tuple(ka), tuple(kb), plan), pc != 'single', cls='manager/' + pc)
    bad = [(p, b0, a0, rz) for p, b0, a0, rz in log if b0 != a0]
    if bad:
        p, b0, a0, rz = bad[0]
        rec.violation('C11/leak/mpmath.ctx_mp.PrecisionManager[%s]/%s' % (pc, 'callback' if rz else 'normal-return'),
                      'with-block exit does not restore the precision that was in effect before the block was entered '
                      '(plan class %s)' % pc, dict(case, block=list(p)),
                      observed=K.describe_state(a0), expected=K.describe_state(b0), severity=abs(a0[0] - b0[0]))
    elif K.ctx_state(ctx) != s0:
        rec.violation('C11/leak/mpmath.ctx_mp.PrecisionManager[%s]/final' % pc, 'state after the plan differs from the state before',
                      case, K.describe_state(K.ctx_state(ctx)), K.describe_state(s0))
    K.set_precision(ctx, precset)


def run_managers(rec, env, tier):
    plans = T.manager_plans()
    precsets = PRECSETS_ALL if tier == 'thorough' else [('prec', 53), ('prec', 101), ('dps', 30), ('prec', 3)]
    pairs = [(a, b) for a in range(len(MGR_KINDS)) for b in range(len(MGR_KINDS))] if tier == 'thorough' else \
        [(0, 1), (1, 0), (2, 3), (3, 2), (0, 0), (1, 1), (2, 2), (3, 3), (4, 0), (5, 2), (0, 4), (2, 5)]
    for cx in ('mp', 'clone'):
        ctx, w = env.ctx[cx], env.watch[cx]
        for precset in precsets:
            for a, b in pairs:
                for plan in plans:
                    manager_case(rec, env, cx, precset, MGR_KINDS[a], MGR_KINDS[b], plan)
            # decorator forms
            run_decorators(rec, env, cx, precset)
    rec.event('manager plans executed', sum(v for k, v in rec.classes.items() if k.startswith('manager/')))


def run_decorators(rec, env, cx, precset):
    ctx, w = env.ctx[cx], env.watch[cx]
    seen_inside = []

    def body(x, depth=0, boom=False, g=None):
        seen_inside.append(ctx.prec)
        if depth and g is not None:
            g[0](x, depth - 1, boom, g)
        if boom and not depth:
            raise K.BodyError()
        return ctx.exp(x)

    scen = []
    for kind, n in MGR_KINDS[:4]:
        for norm in (False, True):
            m = getattr(ctx, kind)(n, normalize_output=norm)
            g = [None]
            g[0] = m(body)
            scen.append(('decorator/%s' % ('normalize' if norm else 'plain'), kind, n, lambda g=g: g[0](ctx.mpf(1))))
            scen.append(('decorator/exception', kind, n, lambda g=g: g[0](ctx.mpf(1), 0, True)))
            scen.append(('decorator/recursive', kind, n, lambda g=g: g[0](ctx.mpf(1), 2, False, g)))
            scen.append(('decorator/recursive+exception', kind, n, lambda g=g: g[0](ctx.mpf(1), 2, True, g)))
            # the same manager object used as decorator inside its own with-block and vice versa
            def mixed(m=m, g=g):
                with m:
                    g[0](ctx.mpf(1))
                    with m:
                        g[0](ctx.mpf(1), 1, False, g)
            scen.append(('decorator/inside-own-with(reuse-nested)', kind, n, mixed))
            tup = m(lambda x: (ctx.exp(x), ctx.sin(x), 3))
            scen.append(('decorator/tuple', kind, n, lambda tup=tup: tup(ctx.mpf(1))))
            non = m(lambda x: None)
            scen.append(('decorator/returns-None', kind, n, lambda non=non: non(1)))
    for cls, kind, n, fn in scen:
        case = {'section': 'decorator', 'ctx': cx, 'precset': list(precset), 'manager': [kind, n], 'scenario': cls}
        res = K.run_case(ctx, w, fn, precset, 5.0, others=env.others(cx))
        tag = cls.split('/', 1)[1]
        judge(rec, res, case, (cx, 'deco', cls, kind, n, precset), 'none', entry='PrecisionManager.' + cls,
              nontrivial_force=True, keytag=tag)


# ---------------------------------------------------------------------------------------
# natural failures, object methods
# ---------------------------------------------------------------------------------------
def run_natural(rec, env, tier, seed):
    precsets = PRECSETS_ALL if tier == 'thorough' else [('prec', 53), ('prec', 101), ('dps', 30)]
    for cx in ('mp', 'clone'):
        ctx, w = env.ctx[cx], env.watch[cx]
        for i, ent in enumerate(T.NATURAL):
            name, src = ent[0], ent[1]
            kw = ent[2] if len(ent) > 2 else {}
            if not hasattr(ctx, name):
                continue
            if cx == 'clone' and tier == 'quick' and i % 3:
                continue
            for precset in precsets:
                K.set_precision(ctx, precset)
                try:
                    args = eval(src, {'c': ctx})
                except Exception:
                    rec.event('natural entries skipped: arguments could not be built')
                    continue
                case = {'section': 'natural', 'ctx': cx, 'index': i, 'name': name, 'args': src, 'kwargs': kw, 'precset': list(precset)}
                res = K.run_case(ctx, w, lambda: getattr(ctx, name)(*args, **kw), precset, env.caps['case'], others=env.others(cx))
                judge(rec, res, case, (cx, 'nat', i, precset), 'none', entry=name)
    n = sum(v for k, v in rec.classes.items() if k.startswith('natural-exception/'))
    rec.event('natural exceptions observed', n)


def run_objects(rec, env, tier, seed):
    precsets = PRECSETS_ALL[:5] + [('dps', 30)] if tier == 'thorough' else [('prec', 101), ('prec', 53), ('dps', 30)]
    for label, builder in T.OBJECT_METHODS.items():
        r = G.rng(PROP, seed, 'obj:' + label)
        fp_cell(env, 'mp', 'obj:' + label, (lambda ctx, b=builder: b(ctx)), {'section': 'failpoint', 'object': label}, precsets, r)


# ---------------------------------------------------------------------------------------
# other contexts: clone of mp, iv, fp
# ---------------------------------------------------------------------------------------
IV_CALLS = {
    'iv.exp': lambda c: (lambda x=c.mpf([1, 2]): c.exp(x)),
    'iv.log': lambda c: (lambda x=c.mpf([1, 2]): c.log(x)),
    'iv.sin': lambda c: (lambda x=c.mpf([1, 2]): c.sin(x)),
    'iv.cos': lambda c: (lambda x=c.mpf([1, 2]): c.cos(x)),
    'iv.sqrt': lambda c: (lambda x=c.mpf([1, 2]): c.sqrt(x)),
    'iv.atan': lambda c: (lambda x=c.mpf([1, 2]): c.atan(x)),
    'iv.gamma': lambda c: (lambda x=c.mpf([1.5, 2]): c.gamma(x)),
    'iv.loggamma': lambda c: (lambda x=c.mpf([1.5, 2]): c.loggamma(x)),
    'iv.exp/complex': lambda c: (lambda x=c.mpc([1, 2], [0.5, 1]): c.exp(x)),
    'iv.power': lambda c: (lambda x=c.mpf([1, 2]), y=c.mpf([0.25, 0.5]): x ** y),
    'iv.div': lambda c: (lambda x=c.mpf([1, 2]), y=c.mpf([3, 4]): (x / y, x * y, x + y, x - y)),
    'iv.pi': lambda c: (lambda: (+c.pi, c.pi * 2, c.e + 1)),
    'iv.mpf/str': lambda c: (lambda: c.mpf('0.1') + c.mpf('[0.2, 0.3]')),
    'iv.matrix': lambda c: (lambda m=c.matrix([[1, 2], [3, 4.5]]): m * m),
    'iv.erf': lambda c: (lambda x=c.mpf([0.5, 0.75]): c.erf(x)),
    'iv.zeta': lambda c: (lambda x=c.mpf([2.5, 2.75]): c.zeta(x)),
    'iv.besselj': lambda c: (lambda x=c.mpf([2.5, 2.75]): c.besselj(1, x)),
    'iv.hyp1f1': lambda c: (lambda x=c.mpf([0.5, 0.75]): c.hyp1f1(1, 2.5, x)),
    'iv.lambertw': lambda c: (lambda x=c.mpf([0.5, 0.75]): c.lambertw(x)),
    'iv.fsum': lambda c: (lambda x=c.mpf([0.5, 0.75]): c.fsum([x, x, 1])),
    'iv.quad': lambda c: (lambda: c.quad(lambda x: x * x, [0, 1])),
    'iv.nstr': lambda c: (lambda x=c.mpf([0.5, 0.75]): (str(x), repr(x), c.nstr(x))),
}

FP_CALLS = {
    'fp.exp': lambda c: (lambda: c.exp(1.5)), 'fp.gamma': lambda c: (lambda: c.gamma(2.5 + 1j)),
    'fp.zeta': lambda c: (lambda: c.zeta(2.5)), 'fp.besselj': lambda c: (lambda: c.besselj(1, 2.5)),
    'fp.hyp2f1': lambda c: (lambda: c.hyp2f1(1, 2, 3.5, 0.25)), 'fp.erf': lambda c: (lambda: c.erf(0.5)),
    'fp.lambertw': lambda c: (lambda: c.lambertw(0.5)), 'fp.ellipk': lambda c: (lambda: c.ellipk(0.5)),
    'fp.polylog': lambda c: (lambda: c.polylog(2, 0.5)), 'fp.gamma/pole': lambda c: (lambda: c.gamma(0)),
    'fp.log/zero': lambda c: (lambda: c.log(0)), 'fp.lu_solve': lambda c: (lambda: c.lu_solve(c.matrix([[1, 2], [3, 4.5]]), c.matrix([1, 2]))),
    'fp.polyroots': lambda c: (lambda: c.polyroots([1, -3, 2.5])), 'fp.expm': lambda c: (lambda: c.expm(c.matrix([[1, 2], [3, 4.5]]))),
}

CLONE_EVERY = {'quick': 12, 'thorough': 3}


def run_clone(rec, env, tier, seed, part=0, of=1):
    # --- clone of mp: a sample of the failpoint cells and of the callback cells, also watching mp itself
    cells = [c for c in fp_worklist('quick')]
    names = ['lambertw', 'zeta', 'gamma', 'besselj', 'hyp2f1', 'erf', 'exp', 'ellipk', 'polylog', 'agm']
    for idx, (typ, a, b) in enumerate(cells):
        if typ != 'cat':
            continue
        if not (a in names or idx % CLONE_EVERY[tier] == 0):
            continue
        if (idx // 2) % of != part:
            continue
        r = G.rng(PROP, seed, 'clone-ks:%s:%s' % (a, b))
        specs = cat_specs(a, b, seed)
        ps = [('prec', 101), ROT[(idx + seed + 3) % len(ROT)]] if tier == 'quick' else precsets_for(tier, idx, seed)[:4]
        fp_cell(env, 'clone', '%s/%s' % (a, b), mk_cat_call(a, specs), {'section': 'failpoint', 'name': a, 'specs': specs}, ps, r)
    for idx, label in enumerate(T.CALLBACKS):
        if (tier == 'quick' and idx % 3) or idx % of != part:
            continue
        r = G.rng(PROP, seed, 'clone-cb:' + label)
        cb_cell(env, 'clone', label, [('prec', 101), ('dps', 30)] if tier == 'quick' else cb_precsets(tier, idx, seed)[:4], r)


def run_ivfp(rec, env, tier, seed):
    for label, b in IV_CALLS.items():
        r = G.rng(PROP, seed, 'iv:' + label)
        ps = [('prec', 101), ('prec', 53), ('dps', 30)] if tier == 'quick' else PRECSETS_ALL[:5] + [('dps', 30)]
        fp_cell(env, 'iv', label, (lambda ctx, b=b: b(ctx)), {'section': 'failpoint', 'iv': label}, ps, r)
    # --- fp (fixed precision: the state is constant by construction; still observed through the same monitors)
    for label, b in FP_CALLS.items():
        r = G.rng(PROP, seed, 'fp:' + label)
        fp_cell(env, 'fp', label, (lambda ctx, b=b: b(ctx)), {'section': 'failpoint', 'fp': label}, [('prec', 53)], r)
    for idx, label in enumerate(T.CALLBACKS):
        if label.split('/')[0] in ('quad', 'quadgl', 'nsum', 'findroot', 'diff', 'limit', 'taylor', 'chebyfit', 'odefun', 'invertlaplace') \
                and (tier == 'thorough' or idx % 2 == 0):
            r = G.rng(PROP, seed, 'fp-cb:' + label)
            try:
                cb_cell(env, 'fp', label, [('prec', 53)], r)
            except Exception as e:        # an entry that does not work on fp at all
                rec.event('callback entries skipped on fp: %s' % type(e).__name__)


# ---------------------------------------------------------------------------------------
def run_shard(shard, rec):
    tier = shard['tier']
    kind = shard['kind']
    want = {'fp': ('mp', 'clone'), 'cb': ('mp', 'clone'), 'laws+managers': ('mp', 'clone', 'iv', 'fp'),
            'natural+objects': ('mp', 'clone'), 'natural': ('mp', 'clone'), 'objects': ('mp', 'clone'),
            'factories': ('mp', 'clone'),
            'clone': ('mp', 'clone'), 'iv+fp': ('mp', 'iv', 'fp')}[kind]
    env = Env(rec, tier, want)
    try:
        if kind == 'fp':
            run_fp(shard, rec, env)
        elif kind == 'cb':
            run_cb(shard, rec, env)
        elif kind == 'laws+managers':
            run_laws(rec, env)
            run_managers(rec, env, tier)
        elif kind == 'natural+objects':
            run_natural(rec, env, tier, shard['seed'])
            run_objects(rec, env, tier, shard['seed'])
        elif kind == 'factories':
            run_factories(rec, env, tier, shard['seed'], shard.get('part', 0), shard.get('of', 1))
        elif kind == 'natural':
            run_natural(rec, env, tier, shard['seed'])
        elif kind == 'objects':
            run_objects(rec, env, tier, shard['seed'])
        elif kind == 'clone':
            run_clone(rec, env, tier, shard['seed'], shard.get('part', 0), shard.get('of', 1))
        elif kind == 'iv+fp':
            run_ivfp(rec, env, tier, shard['seed'])
    finally:
        env.close()


def required(agg, tier):
    ev, cl = agg['events'], agg['classes']
    miss = []
    for name in ('failpoints fired', 'callbacks raised', 'wrapped public calls seen (ApiBoundary)',
                 'precision-setter events seen (PrecTrace)', 'natural exceptions observed', 'manager plans executed',
                 'setter-law cases', 'cells enumerated completely (N <= 400)',
                 'factory objects called under a precision different from their creation precision'):
        if not ev.get(name):
            miss.append('monitor event never observed: ' + name)
    for c in ('failpoint/interrupt/exposed', 'failpoint/internal-exception/exposed', 'callback/callback/exposed',
              'manager/reuse-nested', 'manager/reuse-nested+exception', 'generator/suspended',
              'factory/direct', 'factory/alternate', 'factory/inblock',
              'law/dps->prec/mp', 'law/prec->dps/mp', 'law/dps->prec/iv'):
        if not cl.get(c):
            miss.append('class never observed: ' + c)
    nent = sum(1 for k, v in cl.items() if k.startswith('entry/') and not k.startswith(('entry/cb:', 'entry/factory:')) and v > 0)
    ncb = sum(1 for k, v in cl.items() if k.startswith('entry/cb:') and v > 0)
    if nent < 200:
        miss.append('only %d entry points had crash points enumerated by failpoints' % nent)
    if ncb < 80:
        miss.append('only %d callback-taking entries had a callback raise' % ncb)
    for a in ('mpmath.ctx_mp_python:PythonMPContext._set_prec', 'mpmath.ctx_mp:PrecisionManager.__enter__',
              'mpmath.functions.hypergeometric:hypercomb'):
        if a in agg['anchors'] and not agg['anchors'][a]:
            miss.append('anchor never reached: ' + a)
    return miss


# ---------------------------------------------------------------------------------------
def _raw(t):
    from vf.core import unjson_int
    return (int(t[0]), unjson_int(t[1]), unjson_int(t[2]), int(t[3]))


def _spec(s):
    from vf.core import unjson_int
    if s[0] == 'I':
        return ('I', unjson_int(s[1]))
    if s[0] == 'R':
        return ('R', _raw(s[1]))
    return ('C', _raw(s[1]), _raw(s[2]))


def replay(case, rec):
    c = case['case']
    tier = case.get('tier', 'quick')
    env = Env(rec, tier)
    r = random.Random(0)
    try:
        sec = c.get('section')
        precset = tuple(c.get('precset', ('prec', 53)))
        if sec == 'failpoint':
            cx = c.get('ctx', 'mp')
            ks = [c['k']] if c.get('k') else []
            faults = [c['fault']] if c.get('fault') not in (None, 'none') else ['interrupt']
            if 'name' in c:
                specs = [_spec(s) for s in c['specs']]
                mk, entry = mk_cat_call(c['name'], specs), c['entry']
            elif 'extra' in c:
                mk, entry = mk_extra_call(c['extra']), c['extra']
            elif 'object' in c:
                mk, entry = (lambda ctx, b=T.OBJECT_METHODS[c['object']]: b(ctx)), 'obj:' + c['object']
            elif 'iv' in c:
                mk, entry = (lambda ctx, b=IV_CALLS[c['iv']]: b(ctx)), c['iv']
            else:
                mk, entry = (lambda ctx, b=FP_CALLS[c['fp']]: b(ctx)), c['fp']
            fp_cell(env, cx, entry, mk, {'section': 'failpoint'}, [precset], r, ks_only=ks, faults_only=faults)
        elif sec == 'callback':
            ks = [c['k']] if c.get('k') else []
            cb_cell(env, c.get('ctx', 'mp'), c['entry'], [precset], r, ks_only=ks,
                    excs_only=[c['exc']] if c.get('exc') not in (None, 'none') else ['UserError'])
        elif sec == 'factory':
            factory_run(env, c.get('ctx', 'mp'), c['entry'], tuple(c['A']), tuple(c['B']), tuple(c['C']), c['mode'],
                        c.get('k') or None, c['exc'] if c.get('exc') not in (None, 'none') else None)
        elif sec == 'natural':
            ent = T.NATURAL[c['index']]
            ctx = env.ctx[c.get('ctx', 'mp')]
            K.set_precision(ctx, precset)
            args = eval(ent[1], {'c': ctx})
            kw = ent[2] if len(ent) > 2 else {}
            res = K.run_case(ctx, env.watch[c.get('ctx', 'mp')], lambda: getattr(ctx, ent[0])(*args, **kw), precset, 30.0)
            judge(rec, res, c, ('replay',), 'none', entry=ent[0])
        elif sec in ('manager', 'decorator', 'generator'):
            if sec == 'generator':
                diffs_generator_protocol(env, c.get('ctx', 'mp'), precset)
            elif sec == 'manager':
                def tup(x):
                    return tuple(tup(y) for y in x) if isinstance(x, list) else x
                manager_case(rec, env, c.get('ctx', 'mp'), precset, c['managers'][0], c['managers'][1], tup(c['plan']))
            else:
                run_decorators(rec, env, c.get('ctx', 'mp'), precset)
        elif sec == 'law':
            run_laws(rec, env, nmax=max(50, int(c.get('n', 50))))
        else:
            rec.undecided('unknown replay section', c)
    finally:
        env.close()
