"""C03 -- integer powers of reals are never rounded past the exact value.

Observed: x**n (mpf ** int under a context whose rounding mode is set), mp.power(x, n), x ** mpf(n) and
libmp.mpf_pow_int(x, n, prec, rnd) for all five rounding modes.
Oracle: exact power (exactq / Python ints) while bc*|n| <= 2*10^5 bits; beyond that a rigorous bracket of
|x|^n from binary exponentiation with outward truncation (vf/exact_extra.pow_enclosure), refined until it
decides or the case is reported undecided."""
from vf import exactq as Q
from vf import gens as G
from vf import exact_extra as X

PROP = 'C03'
LEVEL = 'exploration'
RULE = ('seeded stratified generation: exponent class x base class (incl. two hidden-tail families: sparse bases at high precision, '
        'n-th-root round trips) x rounding mode x entry point x precision; '
        'a case is non-trivial when the exact power does not fit in p bits (the result had to be rounded) or a '
        'special-value rule applies; distinct = distinct (base, n, p, mode, entry point)')
ASSUMPTIONS = ['exactq / exact_extra (Python int arithmetic; enclosure = products of positive integers truncated outward) are correct',
               'operands are injected exactly through ctx.make_mpf (raw tuple), results read from ._mpf_',
               '"few bits" is fixed a priori as: n >= 0 and the exact power has at most 700 significant bits',
               '"within one ulp" = |result - exact| <= ulp(exact) (2 ulp(exact) if the result lies in the next binade, i.e. one ulp of the result)']
SHARD_TIMEOUT = {'quick': 600, 'thorough': 5400}
LEVEL_TEXT = ('exploration: ~2*10^5 (quick) / ~2.5*10^6 (thorough) generated powers on the real code; every result decided '
              'against the exact power or a rigorous enclosure: directed side, exactness, 1 ulp in nearest mode, correct rounding '
              'when the exact value has <= 700 bits')
LEVEL_NOTE = 'trusted base: vf/exactq.py + vf/exact_extra.py (integer arithmetic only); inputs not generated are not covered'
TECHNIQUE = 'runtime reference-model monitor: exact rational / interval-bracket oracle on every observed integer power'

CASES = {'quick': 13000, 'thorough': 160000}
_BIG = 0.1              # share of precisions drawn from the 2500..3500 list (raised in the thorough tier)
FEW_BITS = 700
EXACT_LIMIT = 200_000

NCLASSES = ['0', '1', '2', '3', '-1', '-2', '-3', 'small+', 'small-', 'pow2', 'pow2pm1', 'mid+', 'mid-',
            'boundary', 'boundary-', '1e6', '-1e6', '1e12', '-1e12', '2^70', 'few']
BCLASSES = ['pow2', 'tiny', 'pbit', '3pbit', 'near1', 'long', 'random', 'neg-odd', 'special', 'zero', 'sparse-hp', 'root-trip']
VIAS = ['op', 'libmp', 'power', 'mpfexp']


def shards(tier, seed):
    return [{'n': CASES[tier]} for _ in range(16)]


def _mp():
    import mpmath
    return mpmath.mp


def gen_n(r, cls, bc):
    if cls in ('0', '1', '2', '3', '-1', '-2', '-3'):
        return int(cls)
    if cls == 'small+':
        return r.randint(4, 40)
    if cls == 'small-':
        return -r.randint(4, 40)
    if cls == 'pow2':
        return (1 << r.randint(2, 40)) * r.choice([1, 1, -1])
    if cls == 'pow2pm1':
        return ((1 << r.randint(2, 40)) + r.choice([-1, 1])) * r.choice([1, 1, -1])
    if cls == 'mid+':
        return r.randint(41, 5000)
    if cls == 'mid-':
        return -r.randint(41, 5000)
    if cls in ('boundary', 'boundary-'):
        # around the switch of the implementation between the exact power and binary exponentiation
        # (bc*n = 1000 in the snapshot, 10000 since the fix of C04's axis-power finding) and around our few-bits envelope
        T = r.choice([700, 1000, 10000])
        n = max(3, (T + r.randint(-3, 3) * bc) // bc + r.choice([-1, 0, 0, 1]))
        return n if cls == 'boundary' else -n
    if cls == '1e6':
        return 10**6 + r.randint(-5, 5)
    if cls == '-1e6':
        return -(10**6 + r.randint(-5, 5))
    if cls == '1e12':
        return 10**12 + r.randint(-5, 5)
    if cls == '-1e12':
        return -(10**12 + r.randint(-5, 5))
    if cls == '2^70':
        return ((1 << 70) + r.randint(-3, 3)) * r.choice([1, -1])
    if cls == 'few':
        return r.randint(3, max(3, FEW_BITS // max(1, bc)))
    raise ValueError(cls)


def gen_base(r, cls, p):
    s = r.randint(0, 1)
    if cls == 'pow2':
        return Q.canon(s, 1, G.exponent(r, p))
    if cls == 'tiny':
        return Q.canon(s, r.choice([3, 5, 7, 9, 15, 17, 255, 257, 1023]), G.exponent(r, p, wild=False))
    if cls == 'pbit':
        return Q.canon(s, G.mantissa(r, max(2, p)), G.exponent(r, p, wild=False))
    if cls == '3pbit':
        return Q.canon(s, G.mantissa(r, 3 * p + r.randint(0, 2)), G.exponent(r, p, wild=False))
    if cls == 'near1':
        k = r.choice([1, 2, 5, 20, p - 1, p, 2 * p, 100])
        k = max(1, k)
        m = (1 << k) + r.choice([-1, 1]) * r.choice([1, 1, 3, G.mantissa(r, max(1, k // 2))])
        if m <= 0:
            m = (1 << k) + 1
        return Q.canon(s, m, -k)
    if cls == 'long':
        return Q.canon(s, G.mantissa(r, r.choice([333, 500, 999, 1000, 1001, 2000])), G.exponent(r, p, wild=False))
    if cls == 'random':
        t = G.raw_real(r, p, special=0, zero=0)
        return t
    if cls == 'neg-odd':
        return Q.canon(1, G.mantissa(r, G.mant_bits(r, p)), G.exponent(r, p, wild=False))
    if cls == 'special':
        return r.choice([Q.finf, Q.fninf, Q.fnan])
    if cls == 'zero':
        return Q.fzero
    raise ValueError(cls)


def gen_hidden_tail(r, cls, ncls, p):
    """(base, n, p) whose exact power lies just above / below a p-bit value by far less than the working resolution of any
    truncating algorithm -- the only inputs on which a truncation in the wrong direction inside the power loop becomes visible.
    Sizes are chosen so that bits(base)*|n| exceeds 10^4 (the real power is then not computed exactly by the implementation)."""
    neg_n = ncls.startswith('-') or ncls in ('small-', 'mid-', 'boundary-') or (ncls in ('pow2', 'pow2pm1', '2^70') and r.random() < 0.4)
    s = r.randint(0, 1)
    if cls == 'sparse-hp':
        # (1 +- 2^-k) * 2^j: x^n = 1 +- n 2^-k + C(n,2) 2^-2k +- ...; precision between k and n*k bits
        n = r.randint(3, 9)
        k = -(-10000 // n) + r.choice([0, 1, 2, 50, r.randint(0, 3000)])
        if r.random() < 0.25:
            k = r.randint(100, 5000)            # also sizes below the switch
        m = (1 << k) + r.choice([-1, 1])
        a = Q.canon(s, m, -k + r.choice([0, 0, 1, -3, 1000]))
        p = r.choice([k + 4, k + r.randint(4, k), 2 * k - 20, 2 * k, 2 * k + 64, r.randint(k, n * k), 8192])
        return a, (-n if neg_n else n), max(1, p)
    # root round trip: r = n-th root of a p-bit value t, rounded up or down at W bits; r^n = t(1 +- ~2^-W)
    p = min(p, 1000)
    n = r.randint(3, 9)
    W = r.choice([3400, 3500, 3600, 4000])
    T = G.mantissa(r, max(1, p))
    sh = n * W - T.bit_length() + r.randint(0, n - 1)
    root = X.iroot(T << sh, n)
    if r.random() < 0.5 or root ** n == (T << sh):
        root += r.choice([1, 1, 1, 2])           # just above t
    else:
        root -= r.choice([0, 0, 1])              # just below t (floor root, or one less)
    a = Q.canon(s, root, r.randint(-40, 40) - W)
    return a, (-n if neg_n else n), p


def special_rule(a, n):
    """expected raw for special bases / trivial exponents where the statement (and IEEE practice) pins it, else None"""
    if a == Q.fnan:
        return Q.fnan if n != 0 else None
    if a == Q.finf:
        if n > 0: return Q.finf
        if n < 0: return Q.fzero
        return None
    if a == Q.fninf:
        if n > 0: return Q.fninf if n & 1 else Q.finf
        if n < 0: return Q.fzero
        return None
    if a == Q.fzero:
        if n > 0: return Q.fzero
        if n == 0: return Q.canon(0, 1, 0)
        return None
    return None


def call(mp, a, n, p, mode, via):
    import mpmath
    if via == 'libmp':
        return mpmath.libmp.mpf_pow_int(a, n, p, mode)
    x = mp.make_mpf(a)
    pr = mp._prec_rounding
    old_prec, old_rnd = mp.prec, pr[1]
    try:
        mp.prec = p
        pr[1] = mode
        if via == 'op':
            z = x ** n
        elif via == 'power':
            z = mp.power(x, n)
        else:
            z = x ** mp.make_mpf(Q.canon(1 if n < 0 else 0, abs(n), 0))
    finally:
        pr[1] = old_rnd
        mp.prec = old_prec
    return z._mpf_


def mech_key(a, n, p, what):
    """mechanism key from the documented structure of the computation: exponent sign (reciprocal step), size regime"""
    sign, man, exp, bc = a
    if not man:
        return 'C03/special'
    k = abs(n)
    if man == 1:
        reg = 'pow2-base'
    elif k <= 2:
        reg = 'n<=2'
    elif bc * k < 10000:
        reg = 'exact-path'
    else:
        reg = 'binary-exponentiation'
    return 'C03/%s/%s/%s%s' % (what, reg, 'neg-exponent' if n < 0 else 'pos-exponent',
                                 '/neg-base-odd' if (sign and n & 1) else '')


def check(mp, rec, a, n, p, mode, via, cls):
    ident = (X.rid(a), n, p, mode, via)
    case = {'a': a, 'n': n, 'prec': p, 'mode': mode, 'via': via}
    sign, man, exp, bc = a
    label = '%s/%s/%s' % (cls, mode, via)
    if not man:
        want = special_rule(a, n)
        try:
            got = call(mp, a, n, p, mode, via)
        except ZeroDivisionError:
            got = 'ZDE'
        if want is None:
            rec.note('unpinned special powers (observed)', {'a': a, 'n': n, 'got': got}, cap=12)
            rec.cls('unasserted/' + label)
            return
        rec.case(ident, True, cls=label)
        if got != want:
            rec.violation('C03/special', 'special-value power', case, got, want)
        return
    if n == 0:
        got = call(mp, a, n, p, mode, via)
        rec.case(ident, True, cls=label)
        if got != Q.canon(0, 1, 0):
            rec.violation('C03/n=0', 'x**0 != 1', case, got, Q.canon(0, 1, 0))
        return
    got = call(mp, a, n, p, mode, via)
    if not Q.is_canonical(got) or (got[1] and got[3] > p):
        rec.note('result not a canonical p-bit value (C01/C10 territory)', {'case': case, 'got': got}, cap=5)
    W = p + 64 + 3 * abs(n).bit_length()
    rs, lo, hi, exact = X.power_bounds(a, n, W, EXACT_LIMIT)
    if exact:
        v = lo
        ex = Q.Ex(-v.num if rs else v.num, v.den, v.e)
        fits = Q.fits(ex, p) if v.den == 1 or man == 1 else False
        if man == 1:
            ex = Q.Ex(-1 if rs else 1, 1, exp * n)
            fits = True
        rec.case(ident, not fits, cls=label)
        rec.sample(case)
        if fits:
            want = Q.exact_raw(ex)
            rec.cls('decided/exact-result')
            if got != want:
                rec.violation(mech_key(a, n, p, 'exact-not-returned'), 'exactly representable power not returned exactly',
                              case, got, want)
            return
        few = (n > 0 and v.num.bit_length() <= FEW_BITS)
        if few:
            want = Q.round_to(ex, p, mode)
            rec.cls('decided/few-bits-correct-rounding')
            if got != want:
                rec.violation(mech_key(a, n, p, 'few-bits-misrounded'), 'power with <= %d exact bits not correctly rounded' % FEW_BITS,
                              case, got, want)
            return
        tier = 'exact'
    else:
        rec.case(ident, True, cls=label)
        tier = 'enclosure'
    # directed side / one ulp
    tries = 0
    while True:
        if mode == 'n':
            verdict, _ = X.ulp_verdict(got, rs, lo, hi, p)
        else:
            verdict = X.side_verdict(got, rs, lo, hi, mode)
        if verdict is not None or exact or tries >= 3:
            break
        tries += 1
        W = 2 * W + 64
        rs, lo, hi, exact = X.power_bounds(a, n, W, EXACT_LIMIT)
    rec.cls('decided/%s/%s' % (tier, 'one-ulp' if mode == 'n' else 'side'))
    if exact and got[1]:
        e = X.err_in_ulps(got, lo, p)
        rec.maximum('largest error in ulps (%s)' % ('nearest' if mode == 'n' else 'directed'), e, case)
        if mode == 'n' and got != Q.round_to(Q.Ex(-lo.num if rs else lo.num, lo.den, lo.e), p, 'n'):
            rec.cls('observed/nearest-result-not-the-correctly-rounded-one')
    if verdict is None:
        rec.undecided('enclosure does not separate result from exact value after refinement', case)
    elif verdict is False:
        if mode == 'n':
            rec.violation(mech_key(a, n, p, 'nearest-over-1ulp'), 'nearest-mode power farther than one ulp from the exact value',
                          case, got, 'within 1 ulp of %r..%r (sign %d)' % (lo, hi, rs))
        else:
            rec.violation(mech_key(a, n, p, 'wrong-side'), 'directed-mode power on the wrong side of the exact value (mode %s)' % mode,
                          case, got, 'on the %s side of %r..%r (sign %d)' % (mode, lo, hi, rs))


def compatible(ncls, bcls):
    return True


def run_case(mp, rec, r, i):
    ncls = NCLASSES[i % len(NCLASSES)]
    bcls = BCLASSES[(i // len(NCLASSES)) % len(BCLASSES)]
    j = i // (len(NCLASSES) * len(BCLASSES))
    mode = G.MODES[j % 5]
    via = VIAS[(j // 5) % len(VIAS)]
    p = G.pick_prec(r, big=(r.random() < _BIG))
    if bcls in ('sparse-hp', 'root-trip'):
        a, n, p = gen_hidden_tail(r, bcls, ncls, p)
    else:
        a = gen_base(r, bcls, p)
        n = gen_n(r, ncls, max(1, a[3]))
    check(mp, rec, a, n, p, mode, via, '%s/%s' % (ncls, bcls))


def run_shard(shard, rec):
    global _BIG, EXACT_LIMIT
    if shard.get('tier') == 'thorough':
        _BIG, EXACT_LIMIT = 0.25, 1_000_000
    mp = _mp()
    r = G.rng(PROP, shard['seed'], shard['shard'])
    from vf.instrument import AnchorCount
    # stride chosen coprime to the cell-cycle lengths so that 16 shards x n cases sweep all cells
    with AnchorCount(rec, ['mpmath.libmp.libmpf:mpf_pow_int', 'mpmath.libmp.libmpf:mpf_div',
                           'mpmath.libmp.libmpf:mpf_pow_int@workprec = prec',
                           'mpmath.libmp.libmpf:mpf_pow_int@inverse = mpf_pow_int']):
        base = shard['shard'] * 104729
        for k in range(shard['n']):
            run_case(mp, rec, r, base + k * 17)
    rec.event('powers compared with the exact value / enclosure', rec.evals)


def required(agg, tier):
    miss = []
    cl = agg['classes']
    for need in ('decided/exact-result', 'decided/few-bits-correct-rounding', 'decided/exact/side', 'decided/exact/one-ulp',
                 'decided/enclosure/side', 'decided/enclosure/one-ulp'):
        if not cl.get(need):
            miss.append('no case of class %s' % need)
    for mode in G.MODES:
        if not any(('/%s/' % mode) in k for k in cl):
            miss.append('rounding mode %s never observed' % mode)
    return miss


def replay(case, rec):
    mp = _mp()
    from vf.core import unjson_int
    c = case['case']
    t = c['a']
    a = (int(t[0]), unjson_int(t[1]), unjson_int(t[2]), int(t[3]))
    check(mp, rec, a, unjson_int(c['n']), int(c['prec']), c['mode'], c['via'], 'replay')
