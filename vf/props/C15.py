"""C15 -- complex interval (rectangle) operations contain every possible exact result.

Observed : every iv.mpc operator / function result for + - * / ** (integer and complex exponents) abs neg pos exp log cos
           sin gamma rgamma loggamma factorial -- the returned rectangle (or real interval for abs); every rectangle stored
           into an iv number (StoreHook); every directed-rounded libmp primitive result produced on the way (ReturnTap).
Oracle   : rigorous enclosure E (vf.ball complex rectangle arithmetic; exact Gaussian-dyadic integer arithmetic for
           + - * and small integer powers; consensus enclosure for the gamma family) of f at SAMPLE POINTS of the input
           rectangles: corners, edge midpoints, centre, points adjacent to corners, random many-bit interior points, points
           on the axes when the rectangle touches/crosses them.  Violated iff the real OR the imaginary part of E lies
           entirely outside the corresponding side of the returned rectangle.
Keys     : C15/<primitive>/<regime>/<excess class> when a directed primitive result of the call is on the wrong side of
           the enclosure of its own exact arguments, else C15/<op>/<sign classes of the operand rectangles>."""
from fractions import Fraction
from vf import exactq as Q
from vf import gens as G
from vf import ball
from vf import ivoracle as O
from vf.ball import RB, CB, Indeterminate
from vf.props import C14 as R14

PROP = 'C15'
LEVEL = 'exploration'
NEEDS_REF = True
RULE = ('seeded stratified generation: operation x rectangle position (every half-plane, touching / crossing either axis, '
        'next to the negative real axis, containing the origin) x width class (point ... 10) x precision; a case is '
        'non-trivial when a rectangle was returned with at least one finite side and at least one sample point of the '
        'inputs was decided against it; distinct = distinct (operation, operand rectangles, prec)')
ASSUMPTIONS = ['vf.ball complex enclosures are rigorous (self-test python -m vf.ball); exact integer arithmetic of CPython',
               'principal values: log/arg continuous from above on the negative real axis (mpmath documentation)',
               'gamma family: consensus enclosure (reference release 1.3.0 at p+64 and 2p+200 bits and the tree mp at '
               '3p+300 bits agree to 2^-(p+40) of the modulus); tier: consensus enclosure, not a proof',
               'containment is tested at sample points only -- a failure strictly between the samples is not seen']
SHARD_TIMEOUT = {'quick': 600, 'thorough': 3000}
LEVEL_TEXT = ('exploration: ~1.1*10^5 (quick) / ~6.4*10^5 (thorough) rectangle operations on the real code, each result tested '
              'against rigorous enclosures of the exact value at ~15 sample points (pairs for binary operations) of the inputs')
LEVEL_NOTE = ('trusted base: vf/ball.py, vf/exactq.py, CPython ints; gamma family decided by a consensus enclosure '
              '(classes .../tier:consensus-enclosure); only sampled points of each rectangle are tested')
TECHNIQUE = 'runtime oracle monitor on rectangle results + StoreHook on stored rectangles + ReturnTap on directed primitives'

CASES = {'quick': 7000, 'thorough': 40000}
NSHARDS = 16
OPS = (['add', 'sub', 'mul', 'div'] * 3 + ['pow_int'] * 4 + ['pow_complex'] * 3 + ['abs'] * 2 + ['unary'] + ['exp'] * 3 +
       ['log'] * 4 + ['sin', 'cos'] * 3 + ['gamma'] * 4)
GAMMA_FUNS = R14.GAMMA_FUNS
Ctx = R14.Ctx
fmt_raw, fmt_d = R14.fmt_raw, R14.fmt_d
val, interval, pick_prec = R14.val, R14.interval, R14.pick_prec
ZERO_IV = (Q.fzero, Q.fzero)

WCLASSES = ['point', 'point', 'ulp', 'narrow', 'narrow', 'wide1', 'wide1', 'wide10']


def shards(tier, seed):
    return [{'n': CASES[tier]} for _ in range(NSHARDS)]


# ---------------------------------------------------------------------------------------
# rectangles
# ---------------------------------------------------------------------------------------

def side(r, p, centre, wcls, pos):
    """one side [lo, hi] of a rectangle.  pos: 'pos' 'neg' 'touch-lo' (lo = 0) 'touch-hi' (hi = 0) 'cross' 'zero' 'any'"""
    if pos == 'zero':
        return ZERO_IV
    d = O.dy(centre)
    if d[0] == 0:
        d = (1, -3)
    a = (abs(d[0]), d[1])
    if wcls == 'point':
        w = (0, 0)
    elif wcls == 'ulp':
        w = (1, d[1] - max(0, p - abs(d[0]).bit_length()))
    elif wcls == 'narrow':
        w = (a[0] * (r.getrandbits(8) | 1), a[1] - 8 - r.randint(2, p + 25))
    elif wcls == 'wide1':
        w = (r.getrandbits(12) | 1, -12 + r.choice([-6, -3, -1, 0]))
    else:
        w = (r.getrandbits(12) | 1, -12 + r.choice([1, 2, 3]) + 1)            # up to ~10
    if pos == 'pos':
        return O.raw(a), O.raw(O.dadd(a, w))
    if pos == 'neg':
        return O.raw(O.dneg(O.dadd(a, w))), O.raw(O.dneg(a))
    if pos == 'touch-lo':
        return Q.fzero, O.raw(O.dadd(a, w))
    if pos == 'touch-hi':
        return O.raw(O.dneg(O.dadd(a, w))), Q.fzero
    if pos == 'cross':
        b = O.dadd(a, w) if r.random() < 0.5 else (a[0] * (r.getrandbits(5) | 1), a[1] - r.choice([0, 3, 5, p]))
        return O.raw(O.dneg(a)), O.raw(b)
    raise ValueError(pos)


POS_RE = ['pos', 'pos', 'neg', 'neg', 'touch-lo', 'touch-hi', 'cross', 'zero']
POS_IM = ['pos', 'pos', 'neg', 'neg', 'touch-lo', 'touch-hi', 'cross', 'zero']


def rectangle(r, p, remag=(-6, 4), immag=(-6, 4), pos=None, wcls=None):
    """((re_lo, re_hi), (im_lo, im_hi)) raw"""
    pr, pi_ = pos or (r.choice(POS_RE), r.choice(POS_IM))
    w1 = wcls or r.choice(WCLASSES)
    w2 = wcls or (w1 if r.random() < 0.6 else r.choice(WCLASSES))
    if r.random() < 0.15:
        # next to the negative real axis: imaginary part tiny
        pr = r.choice(['neg', 'neg', 'cross', 'touch-hi'])
        immag = (-p - 30, -p // 2)
    cre = val(r, p, remag[0], remag[1], sign=0)
    cim = val(r, p, immag[0], immag[1], sign=0)
    return side(r, p, cre, w1, pr), side(r, p, cim, w2, pi_)


def rect_class(z):
    return O.sign_class(*z[0]).replace('inf', '') + '|' + O.sign_class(*z[1]).replace('inf', '')


def coarse_class(z):
    """coarse class of a second operand (keeps the evidence table readable; violation keys use the full classes)"""
    (a, b), (c, d) = z
    if (c, d) == ZERO_IV:
        return 'real'
    if (a, b) == ZERO_IV:
        return 'imaginary'
    has0 = O.contains_point(a, b, (0, 0)) and O.contains_point(c, d, (0, 0))
    return 'contains-origin' if has0 else 'generic'


def mkc(ctx, z):
    mp, iv = ctx.mp, ctx.iv
    (a, b), (c, d) = z
    return iv.mpc((mp.make_mpf(a), mp.make_mpf(b)), (mp.make_mpf(c), mp.make_mpf(d)))


def operand(ctx, z, allow_plain=True):
    """iv.mpc, or for (real / point) rectangles sometimes an equal iv.mpf / int / float / complex / mp.mpc"""
    r = ctx.r
    (a, b), (c, d) = z
    if allow_plain and r.random() < 0.3:
        if (c, d) == ZERO_IV:
            if a == b:
                v = G.as_python_number(r, a)
                if v is not None:
                    return v, type(v).__name__
            return ctx.mk(a, b), 'ivmpf'
        if a == b and c == d:
            x, y = G.as_python_number(r, a), G.as_python_number(r, c)
            if isinstance(x, float) and isinstance(y, float):
                return complex(x, y), 'complex'
            return ctx.mp.make_mpc((a, c)), 'mpc'
    return mkc(ctx, z), 'ivmpc'


def classify(ctx, op, prec, records, opclasses, kind, store_kind=None):
    key, info, exc = R14.classify(ctx, op, prec, records, opclasses, kind, store_kind)
    return 'C15' + key[3:], info, exc


def run_checked(ctx, op, prec, call, rects, oracles, variant='', consensus_tier=False, info=None):
    """rects: operand rectangles (for ident / classes); oracles: list of (kind, sample, enclose(wp) -> CB | RB)"""
    rec, iv, r = ctx.rec, ctx.iv, ctx.r
    opclasses = ':'.join(rect_class(z) for z in rects)
    cls = '%s/%s' % (op, ':'.join([rect_class(z) for z in rects[:1]] + [coarse_class(z) for z in rects[1:]]))
    if variant:
        rec.cls('variant/%s/%s' % (op, variant))
    ident = (op, variant, tuple(rects), prec, repr(sorted(info.items())) if info else None)
    case = {'op': op, 'variant': variant, 'prec': prec,
            'inputs': [[[fmt_raw(a), fmt_raw(b)], [fmt_raw(c), fmt_raw(d)]] for (a, b), (c, d) in rects]}
    if info:
        case.update(info)
    old = iv.prec
    iv.prec = prec
    ctx.sm.take()
    ctx.tap.begin()
    try:
        try:
            res = call()
        finally:
            records = ctx.tap.end()
            iv.prec = old
    except Exception as ex:
        ctx.sm.take()
        ctx.last_exc = ex
        rec.case(ident, False, cls='%s/raised:%s' % (op, type(ex).__name__))
        rec.event('operation raised (no interval returned)')
        return None
    bad = ctx.sm.take()
    if hasattr(res, '_mpci_') and not hasattr(res, '_mpi_'):
        parts = list(res._mpci_)
    elif hasattr(res, '_mpi_'):
        parts = [res._mpi_]
    else:
        rec.case(ident, False, cls=op + '/non-interval-result')
        return None
    rec.event('rectangle results observed')
    rec.event('directed primitive results recorded', len(records))
    case['result'] = [[fmt_raw(a), fmt_raw(b)] for a, b in parts]
    found = None
    for kind, v in bad:
        key, culprit, exc = classify(ctx, op, prec, records, opclasses, kind, store_kind=kind)
        rec.violation(key, '%s: stored interval is %s' % (op, kind), dict(case, culprit=culprit), observed=case['result'],
                      expected='a <= b with canonical endpoints',
                      severity=exc if (exc is not None and exc == exc and exc != float('inf')) else None)
        found = key
    inverted = any(k == 'inverted' for k, _ in bad) or any(O.is_nan(a) or O.is_nan(b) or O.raw_cmp(a, b) > 0 for a, b in parts)
    decided = 0
    finite_end = any(O.is_fin(a) or O.is_fin(b) for a, b in parts)
    if not inverted:
        for kind, sample, enclose in oracles:
            if len(parts) == 1:
                enc = (lambda wp, f=enclose: _real_only(f(wp)))
            else:
                enc = (lambda wp, f=enclose: R14._as_complex(f(wp)))
            try:
                verdict, det = O.decide_point(parts, enc, prec)
            except (OverflowError, MemoryError, ZeroDivisionError) as ex:
                verdict, det = 'indeterminate', type(ex).__name__
            if verdict == 'held':
                decided += 1
                rec.event('sample points held')
            elif verdict == 'violated':
                decided += 1
                rec.event('sample points violated')
                if found is None:
                    key, culprit, exc = classify(ctx, op, prec, records, opclasses, kind)
                    sev = det.get('excess_ulps') if culprit is None else (exc if exc is not None else float('nan'))
                    ok = (sev == sev and sev != float('inf'))
                    rec.violation(key, '%s: exact value at a sample point (%s) lies outside the returned rectangle (%s part)'
                                  % (op, kind, 'real' if det['part'] == 0 else 'imaginary'),
                                  dict(case, sample=sample, sample_kind=kind, culprit=culprit, detail=det),
                                  observed=case['result'], expected='rectangle containing ' + det['enclosure'],
                                  severity=sev if ok else None)
                    if ok:
                        rec.maximum('largest excess outside the rectangle (ulps)', sev, dict(case, sample=sample))
                    found = key
            elif verdict == 'undecided':
                rec.undecided('enclosure straddles an endpoint at the precision cap', dict(case, sample=sample, info=det))
            elif isinstance(det, str) and det.startswith('consensus'):
                rec.undecided('gamma family: ' + det, dict(case, sample=sample))
            else:
                rec.event('sample points without finite enclosure (skipped)')
    if consensus_tier:
        cls += '/tier:consensus-enclosure'
    rec.case(ident, bool(finite_end and decided), cls=cls)
    rec.sample(case)
    if found is None and records and op not in GAMMA_FUNS and r.random() < 0.1:
        chk = O.check_records(records)
        ctx.tap_checked += len(chk)
        for name, args, ret, verdict, exc in chk:
            if verdict == 'violated':
                rec.event('directed primitive on the wrong side while the rectangle still contained the samples')
                rec.note('harmless wrong-side primitives', {'primitive': name, 'prec': args.get('prec'), 'rnd': args.get('rnd'), 'op': op})
    return res


def _real_only(E):
    if isinstance(E, CB):
        return E.re
    return E


def fmt_z(z):
    return [fmt_d(z[0]), fmt_d(z[1])]


def rect_samples(r, z, p, nrand=3):
    return O.samples_rect(r, z[0], z[1], p, nrand)


# ---------------------------------------------------------------------------------------
# operations
# ---------------------------------------------------------------------------------------

def op_arith(ctx, op, p):
    r = ctx.r
    mg = r.choice([(-6, 4), (-6, 4), (-40, 40), (-p - 10, p + 10)])
    z = rectangle(r, p, mg, mg)
    w = rectangle(r, p, r.choice([(-6, 4), mg]), r.choice([(-6, 4), mg]))
    if r.random() < 0.05:
        w = z
    Z, tz = operand(ctx, z)
    W, tw = operand(ctx, w)
    if tz not in ('ivmpc', 'ivmpf') and tw not in ('ivmpc', 'ivmpf'):
        Z, tz = mkc(ctx, z), 'ivmpc'
    if tz in ('mpc',):
        Z, tz = mkc(ctx, z), 'ivmpc'          # mp.mpc (op) interval is the mp context's business
    if tz != 'ivmpc' and tw != 'ivmpc':
        W, tw = mkc(ctx, w), 'ivmpc'
    f = {'add': lambda: Z + W, 'sub': lambda: Z - W, 'mul': lambda: Z * W, 'div': lambda: Z / W}[op]
    orc = {'add': O.c_add, 'sub': O.c_sub, 'mul': O.c_mul, 'div': O.c_div}[op]
    sz = rect_samples(r, z, p, 2)
    sw = sz if w is z else rect_samples(r, w, p, 2)
    pairs = pair_up(r, sz, sw, same=(w is z))
    pts = []
    for (k1, a), (k2, b) in pairs:
        if op == 'div' and b[0][0] == 0 and b[1][0] == 0:
            continue
        kind = k1 if k1 == k2 else k1 + 'x' + k2
        pts.append((kind, [fmt_z(a), fmt_z(b)], (lambda wp, a=a, b=b: orc(a, b))))
    run_checked(ctx, op, p, f, [z, w], pts, variant='%s.%s' % (tz, tw))


def pair_up(r, sz, sw, same=False, cap=16):
    if same:
        return [(s, s) for s in sz][:cap]
    cz = [s for s in sz if s[0] == 'corner']
    cw = [s for s in sw if s[0] == 'corner']
    pairs = [(a, b) for a in cz for b in cw]
    r.shuffle(pairs)
    pairs = pairs[:8]
    oz = [s for s in sz if s[0] != 'corner'] or sz
    ow = [s for s in sw if s[0] != 'corner'] or sw
    for s in sz:
        if s[0] == 'centre':
            pairs += [(s, t) for t in sw if t[0] == 'centre']
    while len(pairs) < cap:
        pairs.append((r.choice(sz if r.random() < 0.3 else oz), r.choice(sw if r.random() < 0.3 else ow)))
    seen, out = set(), []
    for a, b in pairs:
        if (a[1], b[1]) not in seen:
            seen.add((a[1], b[1]))
            out.append((a, b))
    return out


def op_unary(ctx, p):
    r = ctx.r
    op = r.choice(['neg', 'pos'])
    z = rectangle(r, p, (-p - 10, p + 10), (-6, 6))
    Z = mkc(ctx, z)
    f = {'neg': lambda: -Z, 'pos': lambda: +Z}[op]
    orc = O.COMPLEX_FUNS[op]
    pts = [(k, fmt_z(s), (lambda wp, s=s: orc(s))) for k, s in rect_samples(r, z, p)]
    run_checked(ctx, op, p, f, [z], pts)


def op_abs(ctx, p):
    r = ctx.r
    mg = r.choice([(-6, 4), (-40, 40), (-p - 10, p + 10)])
    z = rectangle(r, p, mg, r.choice([(-6, 4), mg]))
    if r.random() < 0.3:
        # Pythagorean-like points: |z| exactly representable
        a, b, c = r.choice([(3, 4, 5), (5, 12, 13), (8, 15, 17), (20, 21, 29)])
        k = r.randint(-20, 20)
        z = ((Q.canon(r.randint(0, 1), a, k),) * 2, (Q.canon(r.randint(0, 1), b, k),) * 2)
    Z = mkc(ctx, z)
    pts = [(k, fmt_z(s), (lambda wp, s=s: O.c_abs(s))) for k, s in rect_samples(r, z, p)]
    run_checked(ctx, 'abs', p, lambda: abs(Z), [z], pts)


def op_fun(ctx, name, p):
    r = ctx.r
    if name == 'exp':
        z = rectangle(r, p, r.choice([(-6, 4), (-p - 20, 3), (3, 10)]), r.choice([(-6, 4), (-p - 20, 3), (3, 30)]))
    elif name == 'log':
        mg = r.choice([(-6, 4), (-6, 4), (-60, 60), (-p - 20, 3)])
        z = rectangle(r, p, mg, r.choice([(-6, 4), mg, (-p - 30, -p // 2)]))
        if r.random() < 0.2:
            # |z| next to 1
            k = r.randint(2, p + 30)
            one = Q.canon(r.randint(0, 1), (1 << k) + r.choice([-1, 1]), -k)
            tiny = val(r, p, -k - 5, -k // 2 - 1)
            z = ((one, one), (tiny, tiny))
            if r.random() < 0.5:
                z = (z[1], z[0])
    else:
        z = rectangle(r, p, r.choice([(-6, 4), (-p - 20, 3), (3, 40)]), r.choice([(-6, 3), (-p - 20, 3), (2, 7)]))
        if r.random() < 0.25:
            v = R14.near_pi2(r, p)
            z = (side(r, p, v, r.choice(WCLASSES), 'pos' if not v[0] else 'neg'), z[1])
    Z = mkc(ctx, z)
    fn = getattr(ctx.iv, 'ln' if name == 'log' else name)
    variant = ''
    if r.random() < 0.15:
        def call():
            ctx.iv.prec = r.choice([53, 20, 300])
            return fn(Z, prec=p)
        variant = 'kw'
    elif name == 'log' and r.random() < 0.3:
        call = lambda: ctx.iv.log(Z)
        variant = 'log'
    else:
        call = lambda: fn(Z)
    orc = O.COMPLEX_FUNS[name]
    pts = []
    for k, s in rect_samples(r, z, p):
        if name == 'log' and s[0][0] == 0 and s[1][0] == 0:
            continue
        pts.append((k, fmt_z(s), (lambda wp, s=s: orc(s))))
    run_checked(ctx, name, p, call, [z], pts, variant=variant)


def op_pow_int(ctx, p):
    r = ctx.r
    t = r.random()
    if t < 0.3:
        # |z| next to 1 with a large exponent
        k = r.randint(2, p)
        one = Q.canon(r.randint(0, 1), (1 << k) + r.choice([-1, 1]), -k)
        tiny = val(r, p, -k - 3, -2)
        z = (side(r, p, one, r.choice(['point', 'point', 'ulp', 'narrow']), 'pos' if not one[0] else 'neg'),
             side(r, p, tiny, r.choice(['point', 'point', 'narrow']), r.choice(['pos', 'neg', 'zero'])))
        n = r.choice([3, 5, 10, 17, 100, 1000, 1 << r.randint(2, 14), r.randint(3, 20000)])
    else:
        z = rectangle(r, p, (-4, 3), (-4, 3))
        n = r.choice([0, 1, 2, 3, 4, 5, 7, 8, 16, 33, r.randint(2, 60)])
    if r.random() < 0.3:
        n = -n
    Z = mkc(ctx, z)
    form = r.choice(['int', 'int', 'ivmpf', 'ivmpc', 'float'])
    E = {'int': n, 'ivmpf': ctx.iv.mpf(n), 'ivmpc': ctx.iv.mpc(n, 0), 'float': float(n)}[form]
    pts = []
    for k, s in rect_samples(r, z, p):
        if s[0][0] == 0 and s[1][0] == 0 and n <= 0:
            continue
        pts.append((k, [fmt_z(s), n], (lambda wp, s=s: O.c_pow_int(s, n))))
    run_checked(ctx, 'pow_int', p, lambda: Z ** E, [z], pts, info={'n': n},
                variant='%s:%s' % (form, 'neg' if n < 0 else ('0' if n == 0 else ('1' if n == 1 else ('2' if n == 2 else 'n')))))


def op_pow_complex(ctx, p):
    r = ctx.r
    z = rectangle(r, p, (-4, 3), (-4, 3))
    if r.random() < 0.3:
        w = (side(r, p, Q.canon(0, r.choice([1, 3, 5, 7]), -r.choice([1, 2, 3])), 'point', r.choice(['pos', 'neg'])), ZERO_IV)
    else:
        w = rectangle(r, p, (-4, 3), (-4, 2), wcls=r.choice(['point', 'point', 'ulp', 'narrow', 'wide1']))
    Z, tz = operand(ctx, z)
    W, tw = operand(ctx, w)
    if tz in ('mpc', 'complex', 'float', 'int') and tw != 'ivmpc':
        W, tw = mkc(ctx, w), 'ivmpc'
    if tz == 'mpc':
        Z, tz = mkc(ctx, z), 'ivmpc'
    if tz == 'ivmpf' and tw in ('ivmpf', 'int', 'float'):
        Z, tz = mkc(ctx, z), 'ivmpc'           # keep at least one complex operand (C14 covers real ** real)
    sz = rect_samples(r, z, p, 2)
    sw = rect_samples(r, w, p, 2)
    pts = []
    for (k1, a), (k2, b) in pair_up(r, sz, sw, cap=12):
        if a[0][0] == 0 and a[1][0] == 0:
            continue
        kind = k1 if k1 == k2 else k1 + 'x' + k2
        pts.append((kind, [fmt_z(a), fmt_z(b)], (lambda wp, a=a, b=b: O.c_pow(a, b))))
    use_power = r.random() < 0.1
    call = (lambda: ctx.iv.power(Z, W)) if use_power else (lambda: Z ** W)
    run_checked(ctx, 'pow_complex', p, call, [z, w], pts, variant='%s.%s%s' % (tz, tw, '.power' if use_power else ''))


def gamma_rect(r, p, fname):
    t = r.random()
    if t < 0.35:
        return rectangle(r, p, (-3, 4), (-3, 4))
    if t < 0.55:
        # next to the negative real axis / the excluded region |Im| < 1.1, Re < 1.4616
        re = side(r, p, val(r, p, -2, 4, sign=0), r.choice(WCLASSES), r.choice(['neg', 'neg', 'cross', 'touch-hi', 'pos']))
        im = side(r, p, val(r, p, -p - 10, 1, sign=0), r.choice(WCLASSES), r.choice(['pos', 'neg', 'cross', 'touch-lo', 'touch-hi']))
        return re, im
    if t < 0.7:
        # straddling the boundaries of the excluded region
        re = side(r, p, Q.canon(0, 187, -7), r.choice(['narrow', 'wide1']), 'pos')       # 1.4609...
        im = side(r, p, Q.canon(0, 35, -5), r.choice(['narrow', 'wide1', 'point']), r.choice(['pos', 'neg']))   # 1.09375
        return re, im
    if t < 0.85:
        return rectangle(r, p, (3, 8), (-3, 6))
    return rectangle(r, p, (-p - 10, -2), (-p - 10, -2))      # next to the pole at 0


def op_gamma(ctx, p):
    r = ctx.r
    name = r.choice(GAMMA_FUNS + ['fac'])
    fname = 'factorial' if name == 'fac' else name
    p = min(p, 200 if ctx.tier == 'quick' else 333)
    z = gamma_rect(r, p, fname)
    if fname == 'factorial':
        (a, b), im = z
        if O.is_fin(a) and O.is_fin(b):
            z = ((O.raw(O.dsub(O.dy(a), (1, 0))), O.raw(O.dsub(O.dy(b), (1, 0)))), im)
    Z = mkc(ctx, z)
    fn = getattr(ctx.iv, name)
    samples = rect_samples(r, z, p, 1)
    keep = [s for s in samples if s[0] in ('corner', 'centre', 'axis')]
    rest = [s for s in samples if s not in keep]
    r.shuffle(rest)
    samples = (keep + rest)[:max(7, len(keep))][:9]
    real_axis = (z[1] == ZERO_IV)
    pts = []
    for k, s in samples:
        x, y = s
        if y[0] == 0:
            n = O.int_of(O.dadd(x, (1, 0)) if fname == 'factorial' else x)
            if n is not None and n <= 0 and fname != 'rgamma':
                continue                                          # pole
        if abs(x[0]).bit_length() + x[1] > 30 or abs(y[0]).bit_length() + y[1] > 30:
            continue
        pts.append((k, fmt_z(s), gamma_enclosure(ctx, fname, s)))
    run_checked(ctx, fname, p, lambda: fn(Z), [z], pts, variant=('fac' if name == 'fac' else ''), consensus_tier=True)


def gamma_enclosure(ctx, fname, s):
    def enc(wp):
        x, y = s
        if y[0] == 0 and not (fname == 'loggamma' and x[0] < 0):
            E = O.gamma_exact(fname, x)
            if E is not None:
                ctx.rec.event('gamma-family sample decided by a rigorous closed form')
                return CB(E, RB.point(0, 0))
            E, why = ctx.cons().enclose(fname, (x, (0, 0)), max(10, wp - 64), complex_arg=False)
            if E is None:
                raise Indeterminate(why)
            return R14._as_complex(E)
        E, why = ctx.cons().enclose(fname, (x, y), max(10, wp - 64), complex_arg=True)
        if E is None:
            raise Indeterminate(why)
        return E
    return enc


# ---------------------------------------------------------------------------------------
def run_case(ctx, i):
    r = ctx.r
    op = OPS[i % len(OPS)]
    p = pick_prec(r)
    if op in ('add', 'sub', 'mul', 'div'):
        op_arith(ctx, op, p)
    elif op == 'unary':
        op_unary(ctx, p)
    elif op == 'abs':
        op_abs(ctx, p)
    elif op in ('exp', 'log', 'sin', 'cos'):
        op_fun(ctx, op, p)
    elif op == 'pow_int':
        op_pow_int(ctx, p)
    elif op == 'pow_complex':
        op_pow_complex(ctx, p)
    elif op == 'gamma':
        op_gamma(ctx, p)


def run_shard(shard, rec):
    import mpmath
    r = G.rng(PROP, shard['seed'], shard['shard'])
    ctx = Ctx(rec, r, shard['tier'])
    with O.IntervalStoreMonitor(mpmath.iv) as sm, O.PrimitiveTap() as tap:
        ctx.sm, ctx.tap = sm, tap
        for i in range(shard['n']):
            run_case(ctx, i + shard['shard'] * 7)
        rec.event('interval stores seen by the StoreHook', sm.stores)
        rec.event('directed primitive results compared with their own enclosure', ctx.tap_checked)
    if ctx.consensus is not None:
        for k, v in ctx.consensus.stats.items():
            rec.event('consensus enclosure ' + k, v)


def required(agg, tier):
    miss = []
    cl = agg['classes']
    for op in ['add', 'sub', 'mul', 'div', 'pow_int', 'pow_complex', 'abs', 'neg', 'exp', 'log', 'sin', 'cos',
               'gamma', 'rgamma', 'loggamma', 'factorial']:
        if not any(k.startswith(op + '/') and '/raised' not in k for k in cl):
            miss.append('no %s result observed' % op)
    ev = agg['events']
    if not ev.get('interval stores seen by the StoreHook'):
        miss.append('StoreHook saw no interval store')
    if not ev.get('directed primitive results recorded'):
        miss.append('ReturnTap recorded no directed primitive result')
    if not ev.get('sample points held'):
        miss.append('no sample point was decided')
    return miss


def replay(case, rec):
    import mpmath
    from vf.core import unjson_int
    c = case['case']
    r = G.rng(PROP, 'replay', 0)
    ctx = Ctx(rec, r, 'quick')

    def rw(t):
        if isinstance(t, str):
            return {'+inf': Q.finf, '-inf': Q.fninf}[t]
        return (int(t[0]), unjson_int(t[1]), unjson_int(t[2]), int(t[3]))
    op, p = c['op'], c['prec']
    rects = [((rw(a), rw(b)), (rw(cc), rw(d))) for (a, b), (cc, d) in c.get('inputs', [])]
    with O.IntervalStoreMonitor(mpmath.iv) as sm, O.PrimitiveTap() as tap:
        ctx.sm, ctx.tap = sm, tap
        iv = ctx.iv
        if op in ('add', 'sub', 'mul', 'div', 'pow_complex') and len(rects) == 2:
            z, w = rects
            Z, W = mkc(ctx, z), mkc(ctx, w)
            f = {'add': lambda: Z + W, 'sub': lambda: Z - W, 'mul': lambda: Z * W, 'div': lambda: Z / W, 'pow_complex': lambda: Z ** W}[op]
            orc = {'add': O.c_add, 'sub': O.c_sub, 'mul': O.c_mul, 'div': O.c_div, 'pow_complex': O.c_pow}[op]
            pts = []
            for (k1, a), (k2, b) in pair_up(r, rect_samples(r, z, p, 4), rect_samples(r, w, p, 4), cap=40):
                if op == 'div' and b[0][0] == 0 and b[1][0] == 0:
                    continue
                if op == 'pow_complex' and a[0][0] == 0 and a[1][0] == 0:
                    continue
                pts.append((k1 + 'x' + k2, [fmt_z(a), fmt_z(b)], (lambda wp, a=a, b=b: orc(a, b))))
            run_checked(ctx, op, p, f, [z, w], pts, variant='replay')
        elif op in ('exp', 'log', 'sin', 'cos', 'neg', 'pos', 'abs') and len(rects) == 1:
            z = rects[0]
            Z = mkc(ctx, z)
            if op == 'abs':
                f, orc = (lambda: abs(Z)), O.c_abs
            elif op in ('neg', 'pos'):
                f, orc = ((lambda: -Z) if op == 'neg' else (lambda: +Z)), O.COMPLEX_FUNS[op]
            else:
                f, orc = (lambda: getattr(iv, 'ln' if op == 'log' else op)(Z)), O.COMPLEX_FUNS[op]
            pts = [(k, fmt_z(s), (lambda wp, s=s: orc(s))) for k, s in rect_samples(r, z, p, 8)
                   if not (op == 'log' and s[0][0] == 0 and s[1][0] == 0)]
            run_checked(ctx, op, p, f, [z], pts, variant='replay')
        elif op == 'pow_int' and len(rects) == 1:
            z = rects[0]
            n = int(c['n'])
            Z = mkc(ctx, z)
            pts = [(k, [fmt_z(s), n], (lambda wp, s=s: O.c_pow_int(s, n))) for k, s in rect_samples(r, z, p, 8)
                   if not (s[0][0] == 0 and s[1][0] == 0 and n <= 0)]
            run_checked(ctx, op, p, lambda: Z ** n, [z], pts, variant='replay', info={'n': n})
        elif op in GAMMA_FUNS and len(rects) == 1:
            z = rects[0]
            Z = mkc(ctx, z)
            pts = [(k, fmt_z(s), gamma_enclosure(ctx, op, s)) for k, s in rect_samples(r, z, p, 3)]
            run_checked(ctx, op, p, lambda: getattr(iv, op)(Z), [z], pts, variant='replay', consensus_tier=True)
        else:
            rec.undecided('replay of %s cases re-runs the seeded shard instead' % op)
