"""C43 -- the fp context matches mp conventions for elementary functions.

Observed: every fp elementary-function call in the workload: result TYPE (float/complex exactly, never mpf/mpc),
no exception for real arguments outside the real domain, value against mp at 53 bits (the statement's own
reference) with tolerance 2^-48 relative or 2^-300 absolute.  A third opinion (released mpmath at 120 bits)
attributes each disagreement to the fp side or the mp side (mechanism key)."""
import math, struct
from vf import gens as G
from vf import refmodel

PROP = 'C43'
LEVEL = 'exploration'
NEEDS_REF = True
RULE = ('doubles from raw bit patterns stratified by function x argument kind (real in-domain, real out-of-domain, complex, '
        'near-cut, signed zero, half-integers for cospi/sinpi) x magnitude bucket; non-trivial = finite non-zero mp result '
        'representable as a double; distinct = (function, argument bit patterns)')
ASSUMPTIONS = ['mp at 53 bits is the reference named by the statement; the released mpmath 1.3.0 at 120 bits is used only to '
               'attribute a disagreement to fp or mp',
               'inputs restricted to those whose mp result is a finite double (fp.exp(1000.0) raising OverflowError is outside the statement)']
LEVEL_TEXT = ('exploration: ~10^5 (quick) / ~3*10^6 (thorough) fp calls on doubles drawn from raw bit patterns, each compared with '
              'mp at 53 bits under the stated tolerance; result types and absence of exceptions asserted on every call')
LEVEL_NOTE = 'trusted base: the comparison arithmetic (mp at 200 bits for exact differences of 53-bit values); inputs not generated are not covered'
TECHNIQUE = 'runtime differential monitor fp vs mp(53 bits) on generated doubles, types asserted at the API boundary'
SHARD_TIMEOUT = {'quick': 300, 'thorough': 2400}
CASES = {'quick': 7000, 'thorough': 200000}

# exactly the statement's list: sqrt, exp, log, power, trig and hyperbolic functions and their inverses, cbrt, cospi, sinpi
UNARY = ['sqrt', 'exp', 'log', 'ln', 'sin', 'cos', 'tan', 'sec', 'csc', 'cot', 'sinh', 'cosh', 'tanh', 'sech', 'csch', 'coth',
         'asin', 'acos', 'atan', 'asec', 'acsc', 'acot', 'asinh', 'acosh', 'atanh', 'asech', 'acsch', 'acoth',
         'cbrt', 'cospi', 'sinpi']
BINARY = ['power', 'log']
# not named by the statement: observed (max deviation recorded in the evidence), never asserted
OBSERVED_ONLY = ['expj', 'expjpi', 'log10', 'log1p', 'expm1', 'root', 'nthroot', 'hypot', 'atan2']
# real domains (for choosing in/out-of-domain arguments): name -> predicate on a float
DOMAIN = {
    'sqrt': lambda x: x >= 0, 'log': lambda x: x > 0, 'ln': lambda x: x > 0, 'log10': lambda x: x > 0,
    'asin': lambda x: abs(x) <= 1, 'acos': lambda x: abs(x) <= 1, 'atanh': lambda x: abs(x) < 1, 'acosh': lambda x: x >= 1,
    'asec': lambda x: abs(x) >= 1, 'acsc': lambda x: abs(x) >= 1, 'acoth': lambda x: abs(x) > 1, 'asech': lambda x: 0 < x <= 1,
    'log1p': lambda x: x > -1,
}


def shards(tier, seed):
    return [{'n': CASES[tier]} for _ in range(16)]


def dbl(r, lo_e, hi_e, sign=None):
    """a double with unbiased exponent in [lo_e, hi_e] and random mantissa (occasionally all-zero / all-one mantissa)"""
    e = r.randint(lo_e, hi_e) + 1023
    e = min(max(e, 0), 2046)
    m = r.choice([r.getrandbits(52), r.getrandbits(52), 0, (1 << 52) - 1, 1 << 51, r.getrandbits(20) << 32])
    s = r.randint(0, 1) if sign is None else sign
    return struct.unpack('<d', struct.pack('<Q', (s << 63) | (e << 52) | m))[0]


MAGS = [('tiny', -60, -20), ('small', -20, -2), ('unit', -2, 2), ('mod', 2, 8), ('large', 8, 30), ('huge', 30, 300)]


def gen_real(r, name, want_in):
    for _ in range(50):
        mg = r.choice(MAGS)
        if name in ('exp', 'sinh', 'cosh', 'expm1', 'sech', 'csch', 'coth', 'tanh') and mg[0] in ('large', 'huge'):
            mg = ('mod', 2, 8)
        x = dbl(r, mg[1], mg[2])
        if r.random() < 0.15:
            # next to interesting points
            x = r.choice([1.0, -1.0, 0.5, 2.0, math.pi / 2, math.pi, 3 * math.pi / 2, 1e-8, 0.0])
            x = math.nextafter(x, r.choice([-math.inf, math.inf])) if r.random() < 0.6 and x != 0 else x
        d = DOMAIN.get(name)
        if d is None or d(x) == want_in:
            return x, mg[0]
    return None, None


def gen_complex(r, name):
    mg = r.choice(MAGS[:5])
    if name in ('exp', 'sinh', 'cosh', 'expm1', 'sech', 'csch', 'coth', 'tanh', 'sin', 'cos', 'tan', 'sec', 'csc', 'cot',
                'expj', 'expjpi', 'cospi', 'sinpi') and mg[0] == 'large':
        mg = ('mod', 2, 8)
    kind = r.choice(['generic', 'generic', 'near-real-axis', 'near-imag-axis', 'signed-zero'])
    re = dbl(r, mg[1], mg[2])
    if kind == 'generic':
        im = dbl(r, mg[1], mg[2])
    elif kind == 'near-real-axis':
        im = dbl(r, -300, -30)
    elif kind == 'near-imag-axis':
        im, re = re, dbl(r, -300, -30)
    else:
        im = r.choice([0.0, -0.0])
        if r.random() < 0.5:
            re, im = im, re
    return complex(re, im), mg[0], kind


def _is_finite_double(mpv, mp):
    try:
        if hasattr(mpv, '_mpc_'):
            return all(mp.isfinite(t) and abs(t) < mp.mpf(2) ** 1023 for t in (mpv.real, mpv.imag))
        return mp.isfinite(mpv) and abs(mpv) < mp.mpf(2) ** 1023
    except Exception:
        return False


def magbucket(args):
    m = 0.0
    for a in args:
        if isinstance(a, complex):
            m = max(m, abs(a.real), abs(a.imag))
        elif isinstance(a, float):
            m = max(m, abs(a))
    if m == 0:
        return 'zero'
    e = math.frexp(m)[1]
    for name, lo, hi in MAGS:
        if e <= hi:
            return name
    return 'huge'


def flip_zeros(a):
    if isinstance(a, complex) and (a.real == 0 or a.imag == 0):
        return complex(-a.real if a.real == 0 else a.real, -a.imag if a.imag == 0 else a.imag)
    return a


def compare(mp, rmp, rec, name, args, kind, mag, assert_=True):
    mag = magbucket(args)
    import mpmath
    fp = mpmath.fp
    f_fp, f_mp = getattr(fp, name), getattr(mp, name)
    ident = (name, tuple(a.hex() if isinstance(a, float) else (a.real.hex(), a.imag.hex()) if isinstance(a, complex) else a
                         for a in args))
    case = {'function': name, 'args': [repr(a) for a in args], 'hex': ident[1], 'kind': kind, 'mag': mag}
    cls = '%s/%s/%s' % (name, kind, mag)
    mp.prec = 53
    try:
        mv = f_mp(*[mp.mpmathify(a) if isinstance(a, (float, complex)) else a for a in args])
    except Exception as e:
        rec.case(ident, False, cls)
        rec.cls('mp-raises/' + type(e).__name__)
        return
    if not _is_finite_double(mv, mp):
        rec.case(ident, False, cls)
        return
    try:
        fv = f_fp(*args)
    except OverflowError:
        rec.case(ident, False, cls)
        rec.cls('fp-overflow')
        return
    except Exception as e:
        rec.case(ident, True, cls)
        if not assert_:
            rec.note('observed-only raises', {'case': case, 'exc': repr(e)})
            return
        if isinstance(e, AttributeError) and any(("'%s'" % m) in str(e) for m in ('asinh', 'acosh', 'atanh')):
            key = 'C43/missing-inverse-hyperbolic/%s' % name
        else:
            key = 'C43/%s/raises-%s' % (name, type(e).__name__)
        rec.violation(key, 'fp.%s raises %s where mp returns a finite value' % (name, type(e).__name__), case,
                      observed=repr(e), expected=str(mv))
        return
    # type rule
    if type(fv) not in (float, complex):
        rec.case(ident, True, cls)
        rec.violation('C43/%s/result-type' % name, 'fp.%s returned %s, not float/complex' % (name, type(fv).__name__), case,
                      observed=type(fv).__name__, expected='float or complex')
        return
    real_expected = hasattr(mv, '_mpf_')
    mp.prec = 200
    try:
        fvm = mp.mpmathify(fv)
        if mp.isnan(fvm):
            rec.case(ident, True, cls)
            rec.violation('C43/%s/nan/%s' % (name, kind), 'fp.%s returned nan where mp returns a finite value' % name, case,
                          observed=repr(fv), expected=str(mv))
            return
        d = abs(fvm - mv)
        ok = d <= mp.ldexp(abs(mv), -48) or d <= mp.ldexp(1, -300)
        err = float(d / abs(mv) * 2 ** 48) if mv != 0 else (0.0 if d == 0 else float('inf'))
    finally:
        mp.prec = 53
    rec.case(ident, mv != 0, cls)
    rec.sample(case)
    rec.maximum('err/2^-48 %s' % name, err, case)
    if not ok and not assert_:
        rec.note('observed-only deviation ' + name, {'case': case, 'err/2^-48': err}, cap=3)
        return
    if not ok:
        def close(a, b):
            mp.prec = 200
            try:
                d2 = abs(mp.mpmathify(a) - b)
                return d2 <= mp.ldexp(abs(b), -48) or d2 <= mp.ldexp(1, -300)
            finally:
                mp.prec = 53
        mech = None
        on_axis = any((isinstance(a, complex) and (a.real == 0 or a.imag == 0)) or isinstance(a, float) for a in args)
        # (a) branch-cut conventions: the argument lies on an axis (real argument outside the real domain, or a complex
        #     argument with a zero component) and fp lands on the other side of a cut than mp (C99 signed-zero rule vs
        #     mp's counter-clockwise continuity): conjugate / sign-flipped value, or agreement after flipping zero signs
        def _near(a):
            return isinstance(a, complex) and min(abs(a.real), abs(a.imag)) < 2.0 ** -30 * max(abs(a.real), abs(a.imag))
        near_axis = any(_near(a) for a in args)
        if (on_axis or near_axis) and isinstance(fv, complex):
            cands = [fv.conjugate(), complex(-fv.real, fv.imag), -fv]
            if any(close(c, mv) for c in cands):
                mech = 'C43/cut-side/%s/%s' % (name, 'on-axis' if on_axis else 'near-axis')
        if mech is None and any(isinstance(a, complex) and (a.real == 0 or a.imag == 0) for a in args):
            try:
                fv2 = f_fp(*[flip_zeros(a) for a in args])
                if close(fv2, mv):
                    mech = 'C43/cut-side/%s/on-axis' % name
            except Exception:
                pass
        if mech is not None:
            rec.violation(mech, 'fp.%s and mp at 53 bits land on different sides of a branch cut' % name, case,
                          observed=repr(fv), expected=str(mv))
            return
        # (b) accuracy: attribute to fp or mp with the released version at 120 bits, and bucket by the condition number
        culprit, kappa = 'unattributed', None
        try:
            rmp.prec = 160
            rargs = [rmp.mpmathify(a) if isinstance(a, (float, complex)) else a for a in args]
            rf = getattr(rmp, name)
            tv = rf(*rargs)
            e_fp = abs(rmp.mpmathify(fv) - tv)
            e_mp = abs(refmodel.to_ref(rmp, mv) - tv)
            culprit = 'fp' if e_fp >= e_mp else 'mp'
            kappa = 0
            h = rmp.ldexp(1, -60)
            for i2, a in enumerate(rargs):
                if isinstance(a, int):
                    continue
                for pert in ((1 + h), (1 + h * 1j)) if hasattr(a, '_mpc_') else ((1 + h),):
                    r2 = list(rargs); r2[i2] = a * pert
                    kappa = max(kappa, abs(rf(*r2) - tv) / (h * abs(tv)))
            kappa = float(kappa)
        except Exception:
            pass
        finally:
            rmp.prec = 53
        if kappa is None:
            cb = 'unknown'
        elif kappa < 8:
            cb = 'well(<2^3)'
        elif kappa < 2 ** 12:
            cb = 'mid(<2^12)'
        elif kappa < 2 ** 32:
            cb = 'ill(<2^32)'
        else:
            cb = 'singular(>=2^32)'
        akind = 'R' if not any(isinstance(a, complex) for a in args) else 'C'
        key = 'C43/%s/%s/cond:%s/%s' % (name, akind, cb, culprit)
        case['condition_number'] = kappa
        sev = math.log2(err) if err not in (0.0, float('inf')) else 60.0
        rec.violation(key, 'fp.%s differs from mp at 53 bits by %.3g * 2^-48 relative' % (name, err), case,
                      observed=repr(fv), expected=str(mv), severity=round(sev, 1))


def run_shard(shard, rec):
    import mpmath
    mp, fp = mpmath.mp, mpmath.fp
    rmp = refmodel.ref().mp
    r = G.rng(PROP, shard['seed'], shard['shard'])
    names = [n for n in UNARY if hasattr(fp, n)]
    absent = [n for n in UNARY + BINARY if not hasattr(fp, n)]
    for n in absent:
        rec.note('absent-on-fp', n)
    kinds = ['real-in', 'real-in', 'real-out', 'complex', 'complex']
    for i in range(shard['n']):
        j = i + shard['shard'] * 13
        name = names[j % len(names)]
        kind = kinds[(j // len(names)) % len(kinds)]
        if name in ('cospi', 'sinpi') and r.random() < 0.4:
            x = r.randint(-10**6, 10**6) / 2.0 if r.random() < 0.7 else float(r.randint(-2**40, 2**40)) + r.choice([0, 0.5, 0.25])
            compare(mp, rmp, rec, name, (x,), 'half-integer', 'n/a')
            continue
        if kind.startswith('real'):
            if kind == 'real-out' and name not in DOMAIN:
                kind = 'real-in'
            x, mg = gen_real(r, name, kind == 'real-in')
            if x is None:
                continue
            compare(mp, rmp, rec, name, (x,), kind, mg)
        else:
            z, mg, ck = gen_complex(r, name)
            compare(mp, rmp, rec, name, (z,), ck if ck == 'signed-zero' else 'complex-' + ck, mg)
        if i % 7 == 3:
            o = r.choice([n for n in OBSERVED_ONLY if hasattr(fp, n)])
            if o in ('root', 'nthroot'):
                compare(mp, rmp, rec, o, (dbl(r, -200, 200, sign=0), r.choice([2, 3, 5, 10])), 'observed-only', '', assert_=False)
            elif o in ('hypot', 'atan2'):
                compare(mp, rmp, rec, o, (dbl(r, -100, 100), dbl(r, -100, 100)), 'observed-only', '', assert_=False)
            else:
                compare(mp, rmp, rec, o, (dbl(r, -30, 8),), 'observed-only', '', assert_=False)
        if i % 9 == 0:
            # binary functions
            b = r.choice([n for n in BINARY if hasattr(fp, n)])
            if b == 'power':
                x = dbl(r, -8, 8, sign=r.choice([0, 0, 1]))
                y = r.choice([dbl(r, -3, 3), 0.5, -0.5, 2.0, 3.0, 1 / 3.0, float(r.randint(-5, 5))])
                if r.random() < 0.2:
                    y = complex(dbl(r, -2, 2), dbl(r, -2, 2))
                compare(mp, rmp, rec, 'power', (x, y), 'real-base' + ('-neg' if x < 0 else ''), 'unit')
            elif b == 'log':
                x = dbl(r, -30, 30, sign=r.choice([0, 0, 1]))
                base = r.choice([2.0, 10.0, 0.5, dbl(r, -3, 5, sign=0)])
                if base != 1.0:
                    compare(mp, rmp, rec, b, (x, base), 'with-base' + ('-neg' if x < 0 else ''), 'unit')
    rec.event('fp calls compared with mp', rec.evals)


def required(agg, tier):
    miss = []
    for need in ('real-out', 'complex-generic', 'half-integer', 'real-in'):
        if not any(('/' + need + '/') in k or k.endswith('/' + need) for k in agg['classes']):
            miss.append('no %s case observed' % need)
    return miss


def replay(case, rec):
    import mpmath
    c = case['case']
    args = []
    for h in c['hex']:
        if isinstance(h, list):
            args.append(complex(float.fromhex(h[0]), float.fromhex(h[1])))
        elif isinstance(h, str):
            args.append(float.fromhex(h))
        else:
            args.append(h)
    compare(mpmath.mp, refmodel.ref().mp, rec, c['function'], tuple(args), c['kind'], c['mag'])
