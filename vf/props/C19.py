"""C19 -- zeta-family accuracy: relative error (in modulus) below 2^(8-p) away from singularities.

Observed: value returned by the public function at precision p for exactly built dyadic arguments.
Oracle: three-source consensus (vf.specfun_j.consensus3).
Regimes are aimed at the switch conditions named in the source:
  mpf_zeta_int: s < 2 (Bernoulli), s >= wp, s >= 0.431 wp, Euler product, Borwein;  mpf_zeta: s > 2^(log2 wp + 2) -> 1,
  reflection for s < 0, near-pole shortcut (|1-s| < 2^-(wp/2));  mpc_zeta: |s| > prec -> Euler-Maclaurin (zeta.py
  _hurwitz) or Riemann-Siegel (|Im s| > 500 prec and 10 Re s < prec), reflection for Re s < 0, critical line sqrt trick;
  _hurwitz: reflection for Re s < 0 only with rational a, Bernoulli polynomial at non-positive integers;
  polylog: |z| <= 0.75 series (non-integer s: < 0.9), |z| >= 1.4 and integer s continuation, unit-circle expansion,
  polylog_general (|log z| < 5 or not);  bernpoly |z| > 2;  riemannr |x| > 1000, |x| < 0.01;  siegelz |t| > 500 prec."""
import math
from vf import specfun as S
from vf import specfun_j as J
from vf.specfun import args, real_in, complex_in, near, integer, half_integer, choice
from vf.specfun_j import (capped, Cell, cell, real_p, around, near_c, near_p, near_any, cplx, polar, uniform, ints, const,
                          args_p, dy, fl)
from vf.catalog import R, C, I, raw_rand, canon

PROP = 'C19'
LEVEL = 'exploration'
NEEDS_REF = True
RULE = ('stratified cells (function x argument regime fixed a priori, aimed at the algorithm switch points of the source) x '
        'precision list 10..1000 (quick: <= 400; quadrature-based functions <= 100); concrete arguments from the seeded rng; '
        'non-trivial = a finite reference value exists on which two sources agree and the result was compared; '
        'distinct = (function, regime, args, prec)')
ASSUMPTIONS = ['consensus reference: two of {mpmath 1.3.0 at p+64 and 2p+200 bits, the tree at 3p+300 bits, a defining '
               'relation in the reference library (adjudicated cells only)} agree to 2^-(p+32)',
               'arguments are injected exactly (raw mantissa/exponent) in the tree and in the reference library']
LEVEL_TEXT = ('exploration: every (function, regime) cell of the table is evaluated a fixed number of times per tier; each '
              'result is compared with a consensus reference')
LEVEL_NOTE = ('trusted base: release mpmath 1.3.0 + the tree at 3p+300 bits agreeing to 2^-(p+32); a defect that is identical '
              'in both and at every precision is not seen unless the cell has a defining-relation oracle; inputs outside the '
              'listed cells are not covered')
TECHNIQUE = 'runtime reference-model monitor: consensus accuracy oracle on every observed special-function value'
SHARD_TIMEOUT = {'quick': 1800, 'thorough': 21600}     # wall watchdog only; the shards stop on their own CPU budget
NSHARDS = 16

# value = n / 2^256
Z = {
    'zetazero1': 0xe227d58cdb310c36b9ef32c06cfdf5c2c43c01871ce228d244883887027d12820,
    'zetazero2': 0x1505a463c7bd4eb66a91c2bd5287ba529b37f845138f50f42e45f39f91b8d0a959,
    'zetazero3': 0x1902c78ff7a3b1d35adadc31ca28fb795eb1da6b26c98ad59bf806c3da3097c06f,
    'bernpoly4_zero': 0x3d869b600fc13dd3403b6b3b03bbc2b0e6e819ebe4e72809d50d5522074984e4,
    'eulerpoly3_zero': 0x15db3d742c265539d92ba16b83c5c1dc492ec1a6629ed23cc639053243722d371,
}
HALF = (0, 1, -1, 1)


def wpz(p):
    return p + 20


def crit_line(lo, hi):
    return lambda r, b: C(HALF, raw_rand(r, b, lo, hi))


def strip(lo, hi):
    """0 < Re s < 1, Im s in 2^[lo, hi]"""
    def g(r, b, p):
        return C(fl(r.uniform(0.02, 0.98), max(min(b, 53), 8)), raw_rand(r, b, lo, hi))
    return g


def near_zetazero(r, b, p):
    t = r.choice([Z['zetazero1'], Z['zetazero2'], Z['zetazero3']])
    im = near_c(t, 256, 6, 26)(r, b, p)[1]
    return C(HALF, im)


def near_zetazero_off(r, b, p):
    t = r.choice([Z['zetazero1'], Z['zetazero2'], Z['zetazero3']])
    im = near_c(t, 256, 20, 60)(r, b, p)[1]
    k = r.randint(6, 26)
    re = dy((1 << (k - 1)) + r.choice([-1, 1]), k)
    return C(re, im)


def _hurw(mp, s, a):
    return mp.zeta(s, a)


def _hurw_q(mp, s, pnum, q):
    return mp.zeta(s, (pnum, q))


def _zeta_d(k):
    def f(mp, s, a=1):
        return mp.zeta(s, a, k)
    f.__name__ = 'zeta_d%d' % k
    return f


def _dirichlet(chi, d=0):
    def f(mp, s):
        return mp.dirichlet(s, chi, d)
    return f


def _stieltjes_a(mp, n, a):
    return mp.stieltjes(n, a)


def _theta_d1(mp, t):
    return mp.siegeltheta(t, derivative=1)


def _siegelz_d1(mp, t):
    return mp.siegelz(t, derivative=1)


def _tiny_extra(mp, s, a, *q):
    """bits by which |zeta(s,a)| ~ |a|^-Re(s) lies below 1"""
    if q:
        a = mp.mpf(a) / q[0]
    return max(0, float(mp.re(s)) * max(0.0, float(mp.log(abs(a), 2)))) + 60


_hurw_raised = J.raised(_hurw, _tiny_extra)
_hurw_q_raised = J.raised(_hurw_q, _tiny_extra)


def rat(r, b):
    q = r.choice([2, 3, 4, 5, 7, 10])
    return q


def rat_args(sgen, pmax_mult=1, neg=False):
    """(s, p, q) with a = p/q rational, 0 < p/q (<= pmax_mult) or negative non-integer when neg"""
    def g(r, b, p):
        s = J._call(sgen, r, b, p)
        q = r.choice([2, 3, 4, 5, 7, 10])
        if neg:
            n = -r.randint(1, 6 * q)
            if n % q == 0:
                n -= 1
        else:
            n = r.randint(1, pmax_mult * q)
        return [s, I(n), I(q)]
    return g


zs_real = real_in(-3, 5)
POLY_S_INT = integer(2, 12)
POLY_PRECS = [10, 15, 24, 30, 53]

TABLE = {
    'zeta': [
        Cell('int-2..60', args(integer(2, 60))),
        cell('int-euler-product-or-borwein', lambda r, b, p: I(int(r.uniform(0.05, 0.44) * wpz(p)) + 2)),
        cell('int-0.431wp-switch', lambda r, b, p: I(max(2, int(0.431 * wpz(p)) + r.randint(-2, 2)))),
        cell('int-wp-switch', lambda r, b, p: I(max(2, wpz(p) + r.randint(-3, 3)))),
        cell('int-beyond-wp', lambda r, b, p: I(wpz(p) + r.randint(4, 20 * p))),
        Cell('int-neg-odd', args(lambda r, b: I(-2 * r.randint(0, 150) - 1))),
        Cell('int-neg-even-trivial-zero', args(lambda r, b: I(-2 * r.randint(1, 150)))),
        Cell('real-0..1', args(real_in(-6, 0, 0))),
        Cell('real-1..64', args(lambda r, b: R(fl(r.uniform(1.01, 64), max(min(b, 53), 8))))),
        cell('real-first-term-vanishes-switch', lambda r, b, p: R(fl((4 * wpz(p)) * r.uniform(0.4, 2.2), max(min(b, 53), 12)))),
        cell('real-huge', real_p(lambda p: (int(math.log2(p + 20)) + 5, p + 30), 0)),
        Cell('tiny', args(real_in(-80, -6))),
        cell('tiny-p', real_p(lambda p: (-2 * p - 40, -p + 4))),
        Cell('neg-real', args(real_in(-3, 7, 1))),
        Cell('neg-real-large', args(real_in(7, 11, 1))),
        cell('near-trivial-zero', near_any([-2, -4, -6, -8, -20, -50, -100], pk=lambda p: (4, p + 8))),
        cell('near-pole', near_p(1, capped(lambda p: (3, wpz(p) // 2 - 3)))),
        cell('near-pole-switch', near_p(1, capped(lambda p: (wpz(p) // 2 - 2, wpz(p) // 2 + 3)))),
        cell('near-pole-closest', near_p(1, capped(lambda p: (wpz(p) // 2 + 4, 2 * p + 60)))),
        Cell('critical-line', args(crit_line(-3, 5))),
        cell('critical-strip', strip(-3, 5)),
        cell('critical-line-near-zero', near_zetazero),
        cell('off-line-near-zero', near_zetazero_off),
        Cell('complex', args(complex_in(-3, 4))),
        Cell('complex-left-reflection', args(lambda r, b: C(raw_rand(r, b, -3, 6, 1), raw_rand(r, b, -3, 5)))),
        cell('complex-near-pole', near_p(1, capped(lambda p: (3, 2 * p + 50)), cplx=lambda p: (-max(4, p - 2), -3)), n=(20, 150)),
        cell('complex-|s|-around-prec', lambda r, b, p: polar(0.7 * p, 1.4 * p, -1.5, 1.5)(r, b, p), cost=2),
        cell('strip-|Im|-around-prec', lambda r, b, p: C(fl(r.uniform(0, 1), 20), fl(r.uniform(0.8, 1.25) * p * r.choice([-1, 1]), 30)), cost=2),
        cell('strip-Euler-Maclaurin', lambda r, b, p: C(fl(r.uniform(-1, 3), 20), fl(r.uniform(1.3, 20) * p, 30)), cost=3),
        cell('critical-line-EM', lambda r, b, p: C(HALF, fl(r.uniform(1.3, 20) * p, 30)), cost=3),
        cell('riemann-siegel-switch', lambda r, b, p: C(fl(r.uniform(0, 1), 20), fl(r.uniform(0.85, 1.2) * 500 * p, 40)),
             precs=[10, 15, 24, 30, 53], cost=4),
        cell('riemann-siegel', lambda r, b, p: C(fl(r.uniform(-2, 3), 20), fl(r.uniform(1.2, 50) * 500 * p, 40)),
             precs=[10, 15, 24, 30, 53, 64], cost=4),
        cell('riemann-siegel-critical-line', lambda r, b, p: C(HALF, fl(10 ** r.uniform(4.7, 6.3), 40)),
             precs=[10, 15, 24, 30, 53, 64], cost=4),
        Cell('re-large-complex', args(lambda r, b: C(raw_rand(r, b, 5, 9, 0), raw_rand(r, b, -3, 6))), cost=2),
        Cell('imaginary-axis', args(lambda r, b: C((0, 0, 0, 0), raw_rand(r, b, -6, 5)))),
    ],
    'zeta.hurwitz': [
        # cells named tiny-value-*: |zeta(s,a)| << 1 (about a^-Re(s)); kept apart from the cells with values of order 1
        Cell('real-s-real-a', args(real_in(-2, 2, 0), real_in(-3, 1, 0)), fn=_hurw, cost=2),
        Cell('real-s-int-a', args(real_in(-2, 2), integer(2, 60)), fn=_hurw, cost=2),
        Cell('tiny-value-real-s-int-a', args(lambda r, b: R(fl(r.uniform(8, 32), max(8, min(b, 53)))), integer(4, 60)), fn=_hurw, cost=2, oracle=_hurw_raised),
        Cell('complex-s-int-a', args(complex_in(-2, 2), integer(2, 60)), fn=_hurw, cost=2),
        Cell('tiny-value-complex-s-int-a', args(lambda r, b: C(fl(r.uniform(8, 30), 30), raw_rand(r, b, -2, 3)), integer(4, 60)), fn=_hurw, cost=2, oracle=_hurw_raised),
        Cell('real-s-rational-a', rat_args(real_in(-2, 2, 0), 1), fn=_hurw_q, cost=2, pgen=True),
        Cell('tiny-value-real-s-rational-a>1', rat_args(lambda r, b: R(fl(r.uniform(8, 32), 30)), 3), fn=_hurw_q, cost=2, pgen=True, oracle=_hurw_q_raised),
        Cell('neg-s-rational-a-reflection', rat_args(real_in(-2, 5, 1), 3), fn=_hurw_q, cost=2, pgen=True),
        Cell('complex-left-s-rational-a', rat_args(lambda r, b: C(raw_rand(r, b, -2, 5, 1), raw_rand(r, b, -3, 4)), 3), fn=_hurw_q, cost=2, pgen=True),
        Cell('neg-s-real-a-EM', args(real_in(-2, 5, 1), real_in(-3, 4, 0)), fn=_hurw, cost=2),
        Cell('nonpos-int-s-bernpoly', args(integer(-40, 0), real_in(-3, 5)), fn=_hurw),
        Cell('pos-int-s-real-a<=1', args(integer(2, 40), lambda r, b: R(fl(r.uniform(0.05, 1), max(8, min(b, 53))))), fn=_hurw, cost=2),
        Cell('tiny-value-pos-int-s-real-a', args(integer(8, 40), real_in(1, 8, 0)), fn=_hurw, cost=2, oracle=_hurw_raised),
        Cell('negative-a-real-s>1', args(lambda r, b: R(fl(r.uniform(1.1, 12), 30)), real_in(-2, 5, 1)), fn=_hurw, cost=2),
        Cell('negative-a-int-s>1', args(integer(2, 12), real_in(-2, 5, 1)), fn=_hurw, cost=2),
        Cell('negative-rational-a', rat_args(lambda r, b: R(fl(r.uniform(1.1, 12), 30)), neg=True), fn=_hurw_q, cost=2, pgen=True),
        Cell('negative-a-s<1', args(lambda r, b: R(fl(r.uniform(-6, 0.9), 30)), real_in(-2, 4, 1)), fn=_hurw, cost=2),
        cell('a-near-nonpos-int', lambda r, b: R(fl(r.uniform(1.1, 8), 30)),
             near_any([0, -1, -2, -5], pk=capped(lambda p: (4, max(4, p // 2 - 4)))), fn=_hurw, cost=2),
        Cell('complex-a', args(real_in(-1, 2, 0), lambda r, b: C(raw_rand(r, b, -2, 1, 0), raw_rand(r, b, -3, 1))), fn=_hurw, cost=2),
        Cell('complex-s-complex-a', args(complex_in(-2, 2), lambda r, b: C(raw_rand(r, b, -2, 1, 0), raw_rand(r, b, -3, 1))), fn=_hurw, cost=2),
        cell('s-near-1', near_p(1, capped(lambda p: (3, p + 10))), real_in(-2, 4, 0), fn=_hurw, cost=2),
        Cell('tiny-value-large-a', args(real_in(1, 4, 0), real_in(6, 20, 0)), fn=_hurw, cost=2, oracle=_hurw_raised),
        Cell('large-a-s<1', args(lambda r, b: R(fl(r.uniform(-3, 0.9), 30)), real_in(6, 12, 0)), fn=_hurw, cost=3),
        cell('strip-large-im-real-a', lambda r, b, p: C(fl(r.uniform(0, 1), 20), fl(r.uniform(0.5, 3) * p, 30)),
             lambda r, b: R(fl(r.uniform(0.05, 2), 30)), fn=_hurw, cost=3),
    ],
    'zeta.derivative': [
        Cell('d1-real', args(real_in(-3, 2)), fn=_zeta_d(1), cost=2),
        Cell('tiny-value-d1-real-s', args(lambda r, b: R(fl(r.uniform(6, 40), 30))), fn=_zeta_d(1), cost=2),
        Cell('d1-int', args(integer(-30, 8)), fn=_zeta_d(1), cost=2),
        Cell('tiny-value-d1-int-s', args(integer(9, 60)), fn=_zeta_d(1), cost=2),
        Cell('d1-complex', args(complex_in(-3, 2)), fn=_zeta_d(1), cost=2),
        Cell('d2-real', args(real_in(-3, 2)), fn=_zeta_d(2), cost=2),
        Cell('tiny-value-d2-real-s', args(lambda r, b: R(fl(r.uniform(6, 40), 30))), fn=_zeta_d(2), cost=2),
        Cell('d2-complex', args(complex_in(-3, 2)), fn=_zeta_d(2), cost=2),
        Cell('d3-real', args(real_in(-3, 2)), fn=_zeta_d(3), cost=2),
        Cell('d5-complex', args(complex_in(-2, 2)), fn=_zeta_d(5), cost=3),
        cell('d1-near-pole', near_p(1, lambda p: (3, p // 2))),
        Cell('d1-critical-line', args(crit_line(-2, 6)), fn=_zeta_d(1), cost=2),
        Cell('d1-hurwitz-real-a', args(real_in(-2, 2), real_in(-2, 1, 0)), fn=_zeta_d(1), cost=2),
        Cell('d2-hurwitz-real-a', args(real_in(-2, 2), real_in(-2, 1, 0)), fn=_zeta_d(2), cost=2),
        Cell('tiny-value-d1-hurwitz', args(lambda r, b: R(fl(r.uniform(6, 16), 30)), real_in(2, 5, 0)), fn=_zeta_d(1), cost=2),
        cell('d1-at-0-and-neg-int', ints(0, -1, -2, -3, -4, -10, -21), fn=_zeta_d(1), cost=2),
        cell('d1-riemann-siegel', lambda r, b, p: C(HALF, fl(r.uniform(1.2, 30) * 500 * p, 40)),
             fn=_zeta_d(1), precs=[10, 15, 24, 30, 53], cost=4),
    ],
    'altzeta': [
        Cell('int', args(integer(-60, 80))),
        cell('int-beyond-wp', lambda r, b, p: I(wpz(p) + r.randint(-3, 10 * p))),
        Cell('real', args(real_in(-4, 6, 0))),
        Cell('neg-real', args(real_in(-3, 7, 1))),
        cell('near-1', near_p(1, lambda p: (3, wpz(p) // 2 - 2))),
        cell('near-1-inside-ln2-shortcut', near_p(1, lambda p: (wpz(p) // 2 + 1, p + 12))),
        cell('near-1-closest', near_p(1, lambda p: (p + 22, 2 * p + 60))),
        cell('near-0', real_p(lambda p: (-2 * p - 40, -4))),
        cell('near-trivial-zero', near_any([-2, -4, -6, -20], pk=lambda p: (4, p + 8))),
        Cell('complex', args(complex_in(-3, 4))),
        Cell('complex-left', args(lambda r, b: C(raw_rand(r, b, -3, 6, 1), raw_rand(r, b, -3, 5)))),
        cell('complex-near-1', near_p(1, lambda p: (3, 2 * p + 50), cplx=(-300, -3))),
        cell('near-zeros-on-Re=1', lambda r, b, p: C((0, 1, 0, 1), fl(2 * math.pi * r.randint(1, 9) / math.log(2), r.randint(10, 28)))),
        cell('complex-|s|-around-prec', lambda r, b, p: polar(0.7 * p, 1.4 * p, -1.5, 1.5)(r, b, p), cost=2),
        cell('strip-Euler-Maclaurin', lambda r, b, p: C(fl(r.uniform(0, 1), 20), fl(r.uniform(1.3, 10) * p, 30)), cost=3),
        Cell('critical-line', args(crit_line(-3, 5))),
    ],
    'dirichlet': [
        Cell('chi1-is-zeta', args(real_in(-3, 5)), fn=_dirichlet([1]), cost=2),
        Cell('chi-mod4-real', args(real_in(-3, 5)), fn=_dirichlet([0, 1, 0, -1]), cost=2),
        Cell('chi-mod4-int', args(integer(-30, 40)), fn=_dirichlet([0, 1, 0, -1]), cost=2),
        Cell('chi-mod4-complex', args(complex_in(-3, 4)), fn=_dirichlet([0, 1, 0, -1]), cost=3),
        Cell('chi-mod3-real', args(real_in(-3, 5)), fn=_dirichlet([0, 1, -1]), cost=2),
        Cell('chi-mod5-complex-character', args(complex_in(-2, 3)), fn=_dirichlet([0, 1, 1j, -1j, -1]), cost=3),
        Cell('chi-mod2-principal', args(real_in(-3, 5)), fn=_dirichlet([0, 1]), cost=2),
        cell('chi-mod4-at-1', const(I(1)), fn=_dirichlet([0, 1, 0, -1]), cost=3),
        cell('chi-mod4-near-1', near_p(1, lambda p: (3, 26)), fn=_dirichlet([0, 1, 0, -1]), cost=2),
        cell('chi-mod4-near-trivial-zero', near_any([-1, -3, -5, -11], pk=lambda p: (4, 26)), fn=_dirichlet([0, 1, 0, -1]), cost=3),
        Cell('chi-mod4-derivative-1', args(real_in(-2, 2)), fn=_dirichlet([0, 1, 0, -1], 1), cost=3),
        Cell('tiny-value-chi-mod4-derivative-1', args(lambda r, b: R(fl(r.uniform(6, 16), 30))), fn=_dirichlet([0, 1, 0, -1], 1), cost=3),
        Cell('chi-mod4-critical-line', args(crit_line(-2, 5)), fn=_dirichlet([0, 1, 0, -1]), cost=2),
    ],
    'polylog': [
        Cell('int-s-series', args(POLY_S_INT, lambda r, b: R(fl(r.uniform(-0.75, 0.75), max(8, min(b, 53)))))),
        Cell('int-s-series-complex', args(POLY_S_INT, lambda r, b: polar(0.01, 0.75)(r, b, 0))),
        cell('int-s-0.75-switch', POLY_S_INT, polar(0.72, 0.78), cost=2),
        cell('int-s-unit-circle', POLY_S_INT, polar(0.78, 1.38), cost=2),
        cell('int-s-on-unit-circle', POLY_S_INT, lambda r, b, p: (lambda t: C(fl(math.cos(t), 53), fl(math.sin(t), 53)))(r.uniform(-3.1, 3.1)), cost=2),
        cell('int-s-1.4-switch', POLY_S_INT, polar(1.36, 1.45), cost=2),
        cell('int-s-continuation', POLY_S_INT, polar(1.45, 200.0)),
        cell('int-s-continuation-far', POLY_S_INT, cplx(real_in(8, 20), real_in(-3, 20))),
        cell('int-s-real>1-cut', POLY_S_INT, uniform(1.001, 60.0)),
        cell('int-s-cut-above', POLY_S_INT, cplx(uniform(1.05, 30.0), real_p(lambda p: (-p - 10, -4), 0)), cost=2),
        cell('int-s-cut-below', POLY_S_INT, cplx(uniform(1.05, 30.0), real_p(lambda p: (-p - 10, -4), 1)), cost=2),
        cell('int-s-near-1', POLY_S_INT, near_p(1, capped(lambda p: (3, p + 10))), cost=2),
        cell('int-s-real-neg-z', POLY_S_INT, uniform(-300.0, -0.76), cost=2),
        Cell('s=2-dilog-real', args(const(I(2)), real_in(-4, 8))),
        Cell('s=2-dilog-complex', args(const(I(2)), complex_in(-4, 6))),
        Cell('neg-int-s-series', args(integer(-20, -2), lambda r, b: polar(0.01, 0.75)(r, b, 0))),
        cell('neg-int-s-unit-circle', integer(-12, -2), polar(0.78, 1.38), cost=2),
        cell('neg-int-s-outside', integer(-12, -2), polar(1.45, 100.0), cost=2),
        Cell('s=0,1,-1-closed-forms', args(integer(-1, 1), complex_in(-3, 4))),
        cell('z=+-1', lambda r, b, p: R(raw_rand(r, b, -3, 5)), ints(1, -1)),
        Cell('tiny-z', args(real_in(-3, 4), real_in(-60, -8))),
        cell('nonint-s-series', uniform(0.05, 8.0), polar(0.01, 0.88)),
        cell('neg-nonint-s-series', uniform(-8.0, -0.05), polar(0.01, 0.88)),
        cell('nonint-s-0.9-switch', uniform(-3.0, 6.0), polar(0.86, 0.94), cost=4, precs=POLY_PRECS),
        cell('nonint-s-general-|log z|<5', uniform(-3.0, 6.0), polar(0.92, 140.0), cost=4, precs=POLY_PRECS),
        cell('nonint-s-general-log-switch', uniform(-3.0, 6.0), polar(120.0, 180.0), cost=3),
        cell('nonint-s-general-|log z|>5', uniform(-3.0, 6.0), polar(160.0, 10000.0), cost=3),
        cell('nonint-s-real-z>1', uniform(-3.0, 6.0), uniform(1.001, 100.0), cost=4, precs=POLY_PRECS),
        cell('nonint-s-real-z<-1', uniform(-3.0, 6.0), uniform(-100.0, -0.9), cost=4, precs=POLY_PRECS),
        cell('complex-s-inside', lambda r, b, p: C(raw_rand(r, b, -2, 3, 0), raw_rand(r, b, -2, 3)), polar(0.01, 0.88), cost=2),
        cell('complex-s-neg-re-inside', lambda r, b, p: C(raw_rand(r, b, -2, 3, 1), raw_rand(r, b, -2, 3)), polar(0.01, 0.88), cost=2),
        cell('complex-s-outside', lambda r, b, p: C(raw_rand(r, b, -2, 3), raw_rand(r, b, -2, 3)), polar(0.92, 50.0), cost=4, precs=POLY_PRECS),
        cell('s-near-int', near_any([2, 3, 5, -1, -2], pk=lambda p: (6, 26)), polar(0.92, 30.0), cost=4, precs=POLY_PRECS),
        Cell('large-s', args(real_in(5, 9, 0), complex_in(-2, 3)), cost=4, precs=POLY_PRECS),
    ],
    'lerchphi': [
        Cell('inside-real', args(lambda r, b: R(fl(r.uniform(-0.95, 0.95), 30)), real_in(-2, 3), real_in(0, 4, 0)),
             cost=4, tmax=40),
        Cell('inside-a<1', args(lambda r, b: R(fl(r.uniform(-0.95, 0.95), 30)), real_in(-2, 3), lambda r, b: R(fl(r.uniform(0.05, 0.99), 30))),
             cost=4, tmax=40),
        Cell('negative-a', args(lambda r, b: R(fl(r.uniform(-0.95, 0.95), 30)), integer(1, 5), lambda r, b: R(fl(r.uniform(-6.4, -0.1), 30))),
             cost=4, tmax=40),
        Cell('outside-real', args(lambda r, b: R(fl(r.uniform(-30, -1.1), 30)), integer(1, 5), real_in(0, 4, 0)),
             cost=4, tmax=40),
        Cell('outside-cut', args(lambda r, b: R(fl(r.uniform(1.1, 20), 30)), integer(1, 5), real_in(0, 4, 0)),
             cost=4, tmax=40),
        Cell('complex', args(lambda r, b: polar(0.1, 3.0)(r, 30, 0), lambda r, b: C(raw_rand(r, 20, -1, 2), raw_rand(r, 20, -2, 1)),
                             lambda r, b: C(raw_rand(r, 20, 0, 3, 0), raw_rand(r, 20, -2, 2))), cost=4, tmax=40),
        Cell('z=1-is-hurwitz', args(const(I(1)), lambda r, b: R(fl(r.uniform(1.1, 9), 30)), real_in(-2, 4, 0)), cost=2),
        Cell('a=1-is-polylog', args(lambda r, b: polar(0.05, 3.0)(r, b, 0), integer(-3, 8), const(I(1))), cost=2),
        Cell('z=0', args(const(I(0)), real_in(-2, 3), real_in(-2, 4, 0))),
        Cell('int-a>=2', args(lambda r, b: R(fl(r.uniform(-0.95, 0.95), 30)), integer(1, 6), integer(2, 30)), cost=4, tmax=40),
    ],
    'bernpoly': [
        Cell('n<=3', args(integer(0, 3), real_in(-6, 8))),
        Cell('n<=3-complex', args(integer(0, 3), complex_in(-4, 6))),
        Cell('|z|<=2', args(integer(4, 60), lambda r, b: R(fl(r.uniform(-2, 2), max(8, min(b, 53)))))),
        cell('|z|-around-2', integer(4, 60), around(2, 0.1)),
        Cell('|z|>2', args(integer(4, 60), real_in(2, 10))),
        Cell('|z|-large', args(integer(4, 30), real_in(10, 40))),
        Cell('n-large', args(integer(61, 400), real_in(-3, 4)), cost=2),
        Cell('complex', args(integer(4, 50), complex_in(-3, 5))),
        cell('z=0,1,1/2', integer(0, 200), lambda r, b, p: r.choice([I(0), I(1), R(HALF)])),
        Cell('tiny-z', args(integer(1, 40), real_in(-80, -6))),
        cell('near-zero-of-B2', const(I(2)), near_c(int((0.5 - 0.5 / math.sqrt(3)) * 2**60), 60, 6, 24)),
        cell('near-zero-of-B3-at-1/2', const(I(3)), near_p((1, 1), lambda p: (4, 26))),
        cell('near-zero-of-B4', const(I(4)), near_c(Z['bernpoly4_zero'], 256, 6, 26)),
        cell('odd-n-near-1/2', lambda r, b: I(2 * r.randint(2, 30) + 1), near_p((1, 1), lambda p: (4, p))),
    ],
    'eulerpoly': [
        Cell('n<=2', args(integer(0, 2), real_in(-6, 8))),
        Cell('real', args(integer(3, 60), real_in(-3, 4))),
        Cell('large-z', args(integer(3, 40), real_in(4, 30))),
        Cell('n-large', args(integer(61, 300), real_in(-3, 3)), cost=2),
        Cell('complex', args(integer(3, 50), complex_in(-3, 5))),
        cell('z=0,1', integer(0, 200), ints(0, 1)),
        cell('z=1/2-euler-numbers', integer(0, 300), const(R(HALF))),
        Cell('tiny-z', args(integer(1, 40), real_in(-80, -6))),
        cell('near-zero-of-E3', const(I(3)), near_c(Z['eulerpoly3_zero'], 256, 6, 26)),
        cell('odd-n-near-1/2', lambda r, b: I(2 * r.randint(1, 30) + 1), near_p((1, 1), lambda p: (4, p))),
    ],
    'stieltjes': [
        Cell('n', args(integer(0, 12)), cost=4, tmax=60),
        Cell('n-20..60', args(integer(20, 60)), cost=4, tmax=60, precs=[10, 15, 24, 30, 53]),
        Cell('n-real-a', args(integer(0, 8), real_in(-2, 4, 0)), fn=_stieltjes_a, cost=4, tmax=60),
    ],
    'primezeta': [
        Cell('real>1', args(lambda r, b: R(fl(r.uniform(1.05, 40), max(8, min(b, 53))))), cost=4, precs=J.PRECS_XHEAVY),
        Cell('int', args(integer(2, 80)), cost=2),
        cell('real-around-prec', lambda r, b, p: R(fl(p * r.uniform(0.7, 2.4), 30)), cost=3),
        cell('near-1', near_p(1, capped(lambda p: (3, 30))), cost=4, precs=J.PRECS_XHEAVY),
        Cell('real-0.5..1', args(lambda r, b: R(fl(r.uniform(0.52, 0.98), 30))), cost=4, precs=J.PRECS_XHEAVY),
        Cell('complex', args(lambda r, b: C(raw_rand(r, b, 0, 4, 0), raw_rand(r, b, -3, 4))), cost=4, precs=J.PRECS_XHEAVY),
    ],
    'siegeltheta': [
        Cell('real', args(real_in(-4, 8))),
        Cell('real-large', args(real_in(8, 21))),
        cell('real-huge', real_p(lambda p: (p - 4, 2 * p + 30))),
        Cell('tiny', args(real_in(-80, -5))),
        cell('near-zero-17.8455', near_c(int(17.845599540495393 * 2**50), 50, 6, 20)),
        Cell('complex', args(complex_in(-3, 5)), cost=2),
        cell('complex-im-small', cplx(real_in(-2, 8), real_in(-40, -4)), cost=2),
        Cell('derivative-1', args(real_in(-3, 10)), fn=_theta_d1),
    ],
    'siegelz': [
        Cell('real', args(real_in(-4, 6)), cost=2),
        cell('near-zero', lambda r, b, p: near_c(r.choice([Z['zetazero1'], Z['zetazero2'], Z['zetazero3']]), 256, 6, 26)(r, b, p), cost=2),
        cell('real-up-to-prec', lambda r, b, p: R(fl(r.uniform(0.5, 1.0) * p, 30)), cost=2),
        cell('real-Euler-Maclaurin', lambda r, b, p: R(fl(r.uniform(1.3, 20) * p, 30)), cost=3),
        cell('riemann-siegel-switch', lambda r, b, p: R(fl(r.uniform(0.85, 1.2) * 500 * p, 40)), precs=[10, 15, 24, 30, 53], cost=4),
        cell('riemann-siegel', lambda r, b, p: R(fl(r.uniform(1.2, 40) * 500 * p, 40)), precs=[10, 15, 24, 30, 53, 64], cost=4),
        Cell('complex', args(complex_in(-3, 4)), cost=2),
        Cell('derivative-1', args(real_in(-3, 6)), fn=_siegelz_d1, cost=3),
        Cell('tiny', args(real_in(-60, -5)), cost=2),
    ],
    'riemannr': [
        Cell('moderate', args(real_in(-6, 10, 0)), cost=2),
        cell('around-0.01', uniform(0.004, 0.03), cost=2),
        Cell('small', args(real_in(-40, -7, 0)), cost=2),
        cell('tiny', real_p(lambda p: (-p - 60, -40), 0), cost=2),
        cell('around-1000', uniform(800.0, 1300.0), cost=2),
        Cell('large', args(real_in(10, 40, 0)), cost=2),
        cell('asymptotic-switch', real_p(lambda p: (2 * p - 30, 2 * p + 40), 0), cost=2),
        Cell('near-1', args(near(1, 1, 4, 40)), cost=2),
        Cell('complex', args(complex_in(-3, 8)), cost=2),
        Cell('negative', args(real_in(-4, 8, 1)), cost=2),
    ],
}
# the derivative cell near the pole needs the function
for _c in TABLE['zeta.derivative']:
    if _c.fn is None:
        _c.fn = _zeta_d(1)
        _c.cost = 2


def shards(tier, seed):
    # thorough: 0.6 x the default thorough count per cell (the family is the most expensive of the three)
    return [{'nshards': NSHARDS, 'budget_s': 330 if tier == 'quick' else 2700, 'scale': 1.0 if tier == 'quick' else 0.6}
            for _ in range(NSHARDS)]


def run_shard(shard, rec):
    J.run(PROP, TABLE, shard, rec)


required = J.required_cells(TABLE)


def replay(case, rec):
    J.replay(PROP, TABLE, case, rec)
