"""C36 -- Chebyshev and Fourier approximations reproduce what they represent.

Observed: coefficient lists / error estimates returned by chebyfit, coefficient lists returned by fourier, values
returned by fourierval.
Oracle: exact Fraction evaluation of the returned dyadic polynomial coefficients against the exact dyadic-coefficient
polynomial that was fitted; planted trigonometric-polynomial coefficients; the definition of the Fourier sum evaluated by
the reference release at 2p+200 bits; smooth non-polynomial functions (exp(cx), 1/(x+s)) through the reference release
for the consistency of the reported error."""
import math
from fractions import Fraction as Fr
from vf import gens as G
from vf.builderM import fr, mk, hexq, unhexq, at_prec, dyadic, peval, flo

PROP = 'C36'
LEVEL = 'exploration'
NEEDS_REF = True
RULE = ('seeded stratified generation: entry (chebyfit polynomial | chebyfit smooth function | fourier | fourierval) x degree / N x '
        'interval class (symmetric, shifted, short, long) x precision 30..200; a case is non-trivial when the call returned and its '
        'result was compared with the oracle at >= 1 point; distinct = distinct (entry, coefficients, interval, N, precision)')
ASSUMPTIONS = ['returned coefficients are dyadic rationals read from the raw tuples; fitted polynomials have dyadic coefficients, so '
               'P_fit(x) - f(x) is computed exactly at dyadic sample points',
               'chebyfit envelope (conditioning of the monomial basis, docstring "Possible issues"): rho^(N-1) <= 2^26 with '
               'rho = 2(2 max(|a|,|b|) + |a+b|)/(b-a); outside it only observed',
               'chebyfit tolerance: |P_fit(x) - f(x)| <= 2^(10-p) * 2 * max_j |f(x_j)| over ~100 Chebyshev-distributed + grid sample points '
               '(factor 2 covers the gap between the sampled maximum and the sup norm)',
               'reported error: for polynomials max sampled error <= err + noise and err <= noise where noise = 2^(10-p) sup|f|; for smooth '
               'f = exp(cx), 1/(x+s) with Chebyshev coefficient decay ratio <= 1/8: sampled max error <= 2.5 err + noise and err <= 1.5 sampled max error + noise '
               '(the grid contains the points chebyfit samples)',
               'fourier envelope: planted degree M <= N <= 10, |coefficients| <= 8, 2 pi N max(|a|,|b|)/(b-a) <= 32 (size of the arguments of cos/sin, whose rounding is amplified by their magnitude); tolerance 2^(10-p) * max(1, max|coefficient|) per coefficient',
               'fourierval tolerance from first-order error analysis: 2^(4-p) * sum_n (|c_n|+|s_n|) (1 + |m n x|)',
               'the reference release (mpmath 1.3.0) at 2p+200 bits evaluates sin/cos/exp/pi with relative error < 2^-(2p+100)']
LEVEL_TEXT = ('exploration: ~2.7*10^3 (quick) / ~1.7*10^4 (thorough) generated fits / series on the real code; every returned polynomial compared '
              'exactly with the fitted polynomial on ~100 points, every Fourier coefficient with its planted value')
LEVEL_NOTE = 'functions, intervals and degrees not generated are not covered; sup norms are sampled (factor 2 allowance)'
TECHNIQUE = 'runtime result monitor: exact rational re-evaluation of returned approximations against planted exact objects'
SHARD_TIMEOUT = {'quick': 1800, 'thorough': 7200}

NSHARDS = 16
COUNTS = {'quick': {'chebpoly': 70, 'chebsmooth': 24, 'fourier': 20, 'fourierval': 80},
          'thorough': {'chebpoly': 400, 'chebsmooth': 130, 'fourier': 110, 'fourierval': 450}}
PRECS = [30, 40, 53, 64, 80, 100, 113, 150, 200]


def shards(tier, seed):
    return [{'counts': COUNTS[tier]} for _ in range(NSHARDS)]


def _mp():
    import mpmath
    return mpmath.mp


def _ref():
    from vf import refmodel
    return refmodel.ref().mp


def _pick_p(r, i):
    return PRECS[i % len(PRECS)] if r.random() < 0.75 else r.randint(30, 200)


def _interval(r, cls):
    if cls == 'sym':
        h = dyadic(r, Fr(1, 4), 4, 8)
        return -h, h
    if cls == 'unit':
        return Fr(-1), Fr(1)
    if cls == 'short':
        a = dyadic(r, -3, 3, 16)
        return a, a + dyadic(r, Fr(1, 8), Fr(1, 2), 16)
    if cls == 'shift':
        a = dyadic(r, -4, 3, 8)
        return a, a + dyadic(r, Fr(1, 2), 3, 8)
    a = dyadic(r, -8, 0, 4)       # long
    return a, a + dyadic(r, 4, 12, 4)


ICLS = ['sym', 'unit', 'short', 'shift', 'long']


def _samples(a, b, n=48):
    """dyadic sample points in [a, b]: end points, a uniform grid, Chebyshev-distributed points"""
    pts = {a, b}
    w = b - a
    for k in range(1, 17):
        pts.add(a + w * Fr(k, 17).limit_denominator(1 << 12))
    for k in range(n + 1):
        t = Fr(math.cos(math.pi * k / n)).limit_denominator(1 << 24)
        x = (a + b) / 2 + w / 2 * t
        d = x.denominator
        if d & (d - 1):
            x = Fr(int(x * (1 << 30)), 1 << 30)
        pts.add(min(max(x, a), b))
    out = []
    for x in pts:
        d = x.denominator
        if d & (d - 1):
            x = Fr(int(x * (1 << 30)), 1 << 30)
            x = min(max(x, a), b)
        out.append(x)
    return sorted(set(out))


def _rho(a, b):
    return 2 * (2 * max(abs(a), abs(b)) + abs(a + b)) / (b - a)


# -----------------------------------------------------------------------------------------------------
def gen_chebpoly(r, i):
    cls = ICLS[i % len(ICLS)]
    N = [1, 2, 3, 4, 6, 8, 11, 16, 24][(i // len(ICLS)) % 9]
    p = _pick_p(r, i // 45 + i)
    a, b = _interval(r, cls)
    deg = r.randint(0, N - 1) if r.random() < 0.5 else N - 1
    coef = [dyadic(r, -8, 8, 16) for _ in range(deg + 1)]
    if coef[0] == 0:
        coef[0] = Fr(1)
    return {'sec': 'chebpoly', 'p': p, 'N': N, 'a': hexq(a), 'b': hexq(b), 'coef': [hexq(k) for k in coef], 'icls': cls}


def run_chebpoly(mp, rec, spec):
    p, N = spec['p'], spec['N']
    a, b = unhexq(spec['a']), unhexq(spec['b'])
    coef = [unhexq(k) for k in spec['coef']]
    ident = ('chebpoly', p, N, spec['a'], spec['b'], tuple(spec['coef']))
    rho = _rho(a, b)
    inside = rho ** (N - 1) <= 1 << 26
    calls = [0]
    with at_prec(mp, p):
        cm = [mk(mp, k) for k in coef]

        def f(x):
            calls[0] += 1
            return mp.polyval(cm, x)
        try:
            d, err = mp.chebyfit(f, [mk(mp, a), mk(mp, b)], N, error=True)
        except Exception as e:
            rec.case(ident, False, cls='chebpoly/raised:%s' % type(e).__name__)
            rec.violation('C36/chebyfit/raised', 'chebyfit raised on a polynomial', spec, observed='%s: %s' % (type(e).__name__, str(e)[:100]))
            return
    if not inside:
        rec.event('chebyfit outside the conditioning envelope (observation only)')
        return
    rec.case(ident, True, cls='chebpoly/N=%d/%s' % (N, spec['icls']))
    rec.event('chebyfit polynomial reproductions compared exactly')
    try:
        dq = [fr(v) for v in d]
        eq = fr(err)
    except Exception:
        rec.violation('C36/chebyfit/malformed', 'chebyfit did not return (list of finite reals, error)', spec, observed=repr(d)[:200])
        return
    if len(dq) != N:
        rec.violation('C36/chebyfit/length', 'chebyfit returned %d coefficients for N=%d' % (len(dq), N), spec, observed=len(dq), expected=N)
        return
    xs = _samples(a, b)
    fv = [peval(coef, x) for x in xs]
    sup = max(abs(v) for v in fv)
    if sup == 0:
        return
    tol = Fr(2) ** (10 - p) * 2 * sup
    worst, wx = Fr(0), None
    for x, v in zip(xs, fv):
        e = abs(peval(dq, x) - v)
        if e > worst:
            worst, wx = e, x
    if worst:
        rec.maximum('chebyfit polynomial reproduction: log2(error / (2^(10-p) 2 sup|f|))', round(math.log2(flo(worst / tol)), 2),
                    {'p': p, 'N': N, 'a': flo(a), 'b': flo(b)})
    if worst > tol:
        rec.violation('C36/chebyfit/reproduction', 'chebyfit does not reproduce a polynomial of degree < N within 2^(10-p) relative', spec,
                      observed={'max_err_over_sup': flo(worst / sup), 'at': flo(wx)}, expected='<= 2^(10-%d)' % p,
                      severity=round(math.log2(flo(worst / tol)), 1))
        return
    # reported error: for an exactly representable polynomial both the true error and the estimate are rounding noise
    noise = Fr(2) ** (10 - p) * 2 * sup
    if eq < 0 or eq > noise:
        rec.violation('C36/chebyfit/error-estimate/polynomial', 'chebyfit reports an error estimate far above the actual (rounding-level) error '
                      'for a polynomial of degree < N', spec, observed={'err': flo(eq), 'actual': flo(worst)}, expected='<= %g' % flo(noise))


SMOOTH = ['exp', 'expneg', 'inv']
# families whose Chebyshev coefficients decay monotonically with ratio q <= 1/8 from index N on (exp: c_k ~ I_k(c h), ratio
# <= c h / (2(k+1)); 1/(x+s): geometric with the ellipse parameter >= 8).  For these the interpolation error e = c_N T_N +
# c_(N+1)(T_(N+1)+T_(N-1)) + .. satisfies |c_N|(1-2q/(1-q)) <= |e(extrema)|, sup|e| <= |c_N|(1+2q/(1-q)), i.e. sup|e| <= 1.8 err.
# cos(c x) is NOT such a family (near a zero of cos the even coefficients vanish): it is not asserted.


def gen_chebsmooth(r, i):
    fam = SMOOTH[i % 3]
    p = _pick_p(r, i // 3 + i)
    a, b = _interval(r, ['sym', 'unit', 'short', 'shift'][(i // 3) % 4])
    h = (b - a) / 2
    c = dyadic(r, Fr(1, 4), 3, 8)
    if fam == 'inv':
        # pole at distance >= 3.25 h + 1/4 to the left of a
        c = -(a - (Fr(13, 4) * h + dyadic(r, Fr(1, 4), 2, 8)))
        Nmin = 2
    else:
        Nmin = int(4 * c * h) + 2
        if fam == 'expneg':
            c = -c
    N = Nmin + r.randint(0, 8)
    return {'sec': 'chebsmooth', 'fam': fam, 'p': p, 'N': N, 'a': hexq(a), 'b': hexq(b), 'c': hexq(c)}


def _smooth(M, fam, c):
    if fam in ('exp', 'expneg'):
        return lambda x: M.exp(c * x)
    return lambda x: 1 / (x + c)


def run_chebsmooth(mp, rec, spec):
    p, N, fam = spec['p'], spec['N'], spec['fam']
    a, b, c = unhexq(spec['a']), unhexq(spec['b']), unhexq(spec['c'])
    ident = ('chebsmooth', fam, p, N, spec['a'], spec['b'], spec['c'])
    inside = _rho(a, b) ** (N - 1) <= 1 << 26
    with at_prec(mp, p):
        f = _smooth(mp, fam, mk(mp, c))
        try:
            d, err = mp.chebyfit(f, [mk(mp, a), mk(mp, b)], N, error=True)
        except Exception as e:
            rec.case(ident, False, cls='chebsmooth/raised:%s' % type(e).__name__)
            rec.violation('C36/chebyfit/raised', 'chebyfit raised on a smooth function', spec, observed='%s: %s' % (type(e).__name__, str(e)[:100]))
            return
    if not inside:
        rec.event('chebyfit outside the conditioning envelope (observation only)')
        return
    rec.case(ident, True, cls='chebsmooth/%s' % fam)
    rec.event('chebyfit error estimates compared with the sampled error')
    dq = [fr(v) for v in d]
    eq = fr(err)
    rmp = _ref()
    # grid: the points chebyfit itself samples (cos(pi k/N) mapped; rounded to p bits like the library's arguments need not be -- use
    # a dense Chebyshev-distributed grid that contains approximations of them) + uniform points
    xs = set(_samples(a, b, n=2 * N * 4))
    with at_prec(rmp, 2 * p + 200):
        g = _smooth(rmp, fam, mk(rmp, c))
        worst, sup = Fr(0), Fr(0)
        for x in sorted(xs):
            v = fr(g(mk(rmp, x)))
            sup = max(sup, abs(v))
            worst = max(worst, abs(peval(dq, x) - v))
    noise = Fr(2) ** (10 - p) * 2 * sup
    rec.maximum('chebyfit sampled error / reported error (smooth f)', round(flo(worst / eq), 4) if eq > 0 else 0.0, {'fam': fam, 'p': p, 'N': N})
    if worst > Fr(5, 2) * eq + noise:
        rec.violation('C36/chebyfit/error-estimate/too-small', 'chebyfit: the reported maximum error is much smaller than the error observed on sample points',
                      spec, observed={'err': flo(eq), 'sampled_max_error': flo(worst)}, expected='sampled <= 2.5 err + noise',
                      severity=round(math.log2(flo(worst / (Fr(5, 2) * eq + noise))), 1))
    elif eq > worst * Fr(3, 2) + noise:
        # the grid contains (to within 2^-24 relative of the half width) the N points the estimate is taken from; the error curve
        # c_N T_N is flat there (extrema), so the sampled maximum cannot be below 2/3 of a correct estimate
        rec.violation('C36/chebyfit/error-estimate/too-large', 'chebyfit: the reported maximum error is much larger than the error observed on a dense grid',
                      spec, observed={'err': flo(eq), 'sampled_max_error': flo(worst)}, expected='err <= 1.5 sampled + noise',
                      severity=round(math.log2(flo(eq / (worst * Fr(3, 2) + noise))), 1))


# -----------------------------------------------------------------------------------------------------
def gen_fourier(r, i):
    N = [0, 1, 2, 3, 4, 6, 8, 10][i % 8]
    M = r.randint(0, N)
    p = [30, 53, 64, 80, 100, 40, 113, 150][(i // 8) % 8] if r.random() < 0.8 else r.randint(30, 160)
    cls = ['sym', 'unit', 'shift', 'short', 'pi'][(i // 8) % 5]
    if cls == 'pi':
        a, b = None, None
    else:
        a, b = _interval(r, cls)
    A = [dyadic(r, -8, 8, 8) for _ in range(M + 1)]
    B = [Fr(0)] + [dyadic(r, -8, 8, 8) for _ in range(M)]
    if r.random() < 0.3:
        A = [Fr(0) if r.random() < 0.5 else v for v in A]
    return {'sec': 'fourier', 'p': p, 'N': N, 'a': None if a is None else hexq(a), 'b': None if b is None else hexq(b),
            'A': [hexq(v) for v in A], 'B': [hexq(v) for v in B]}


def run_fourier(mp, rec, spec):
    p, N = spec['p'], spec['N']
    A = [unhexq(v) for v in spec['A']]
    B = [unhexq(v) for v in spec['B']]
    ident = ('fourier', p, N, spec['a'], spec['b'], tuple(spec['A']), tuple(spec['B']))
    with at_prec(mp, p):
        if spec['a'] is None:
            ia, ib = -mp.pi, +mp.pi          # the docstring interval; L is then the library's own 2 pi
        else:
            ia, ib = mk(mp, unhexq(spec['a'])), mk(mp, unhexq(spec['b']))
        Am = [mk(mp, v) for v in A]
        Bm = [mk(mp, v) for v in B]

        def f(t):
            m = 2 * mp.pi / (ib - ia)
            return mp.fsum([Am[k] * mp.cos(k * m * t) for k in range(len(Am)) if A[k]] +
                           [Bm[k] * mp.sin(k * m * t) for k in range(len(Bm)) if B[k]])
        try:
            cs, ss = mp.fourier(f, [ia, ib], N)
        except Exception as e:
            rec.case(ident, False, cls='fourier/raised:%s' % type(e).__name__)
            rec.violation('C36/fourier/raised', 'fourier raised on a trigonometric polynomial', spec,
                          observed='%s: %s' % (type(e).__name__, str(e)[:100]))
            return
    # envelope: arguments m*n*t of the trigonometric factors stay moderate (their rounding is amplified by |m n t|)
    if spec['a'] is None:
        arg = Fr(355, 113) * N
    else:
        qa, qb = unhexq(spec['a']), unhexq(spec['b'])
        arg = 2 * Fr(355, 113) * N * max(abs(qa), abs(qb)) / (qb - qa)
    if arg > 32:
        rec.event('fourier outside the argument-size envelope (observation only)')
        return
    rec.case(ident, True, cls='fourier/N=%d' % N)
    rec.event('fourier coefficient lists compared with the planted coefficients')
    if len(cs) != N + 1 or len(ss) != N + 1:
        rec.violation('C36/fourier/length', 'fourier returned lists of the wrong length', spec, observed=[len(cs), len(ss)], expected=N + 1)
        return
    scale = max([Fr(1)] + [abs(v) for v in A + B])
    tol = Fr(2) ** (10 - p) * scale
    worst, wk = Fr(0), None
    for k in range(N + 1):
        ea = abs(fr(cs[k]) - (A[k] if k < len(A) else 0))
        eb = abs(fr(ss[k]) - (B[k] if k < len(B) else 0))
        if max(ea, eb) > worst:
            worst, wk = max(ea, eb), ('c' if ea >= eb else 's', k)
    rec.maximum('fourier coefficient error / (2^(10-p) scale)', round(flo(worst / tol), 6), {'p': p, 'N': N})
    if worst > tol:
        kind = 'c0' if wk == ('c', 0) else ('cos' if wk[0] == 'c' else 'sin')
        rec.violation('C36/fourier/coefficients/%s' % kind, 'fourier does not recover the coefficients of a trigonometric polynomial of degree <= N',
                      spec, observed={'which': list(wk), 'abs_error': flo(worst)}, expected='<= %g' % flo(tol),
                      severity=round(math.log2(flo(worst / tol)), 1))


def gen_fourierval(r, i):
    nc = [1, 2, 3, 5, 9, 17][i % 6]
    ns = r.choice([0, 1, nc, nc + 3, max(1, nc - 1)])
    p = _pick_p(r, i // 6 + i)
    a, b = _interval(r, ICLS[(i // 6) % 5])
    c = [dyadic(r, -8, 8, 16) if r.random() < 0.85 else Fr(0) for _ in range(nc)]
    s = [dyadic(r, -8, 8, 16) if r.random() < 0.85 else Fr(0) for _ in range(ns)]
    L = b - a
    x = a + L * dyadic(r, -4, 4, 64)
    return {'sec': 'fourierval', 'p': p, 'a': hexq(a), 'b': hexq(b), 'c': [hexq(v) for v in c], 's': [hexq(v) for v in s], 'x': hexq(x)}


def run_fourierval(mp, rec, spec):
    p = spec['p']
    a, b, x = unhexq(spec['a']), unhexq(spec['b']), unhexq(spec['x'])
    c = [unhexq(v) for v in spec['c']]
    s = [unhexq(v) for v in spec['s']]
    ident = ('fourierval', p, spec['a'], spec['b'], tuple(spec['c']), tuple(spec['s']), spec['x'])
    with at_prec(mp, p):
        try:
            v = mp.fourierval(([mk(mp, k) for k in c], [mk(mp, k) for k in s]), [mk(mp, a), mk(mp, b)], mk(mp, x))
        except Exception as e:
            rec.case(ident, False, cls='fourierval/raised:%s' % type(e).__name__)
            rec.violation('C36/fourierval/raised', 'fourierval raised', spec, observed='%s: %s' % (type(e).__name__, str(e)[:100]))
            return
    rec.case(ident, True, cls='fourierval/nc=%d' % len(c))
    rec.event('fourierval values compared with the definition')
    rmp = _ref()
    with at_prec(rmp, 2 * p + 200):
        m = 2 * rmp.pi / mk(rmp, b - a)
        xr = mk(rmp, x)
        tot = rmp.mpf(0)
        bound = rmp.mpf(0)
        for n, k in enumerate(c):
            if k:
                tot += mk(rmp, k) * rmp.cos(m * n * xr)
                bound += abs(mk(rmp, k)) * (1 + abs(m * n * xr))
        for n, k in enumerate(s):
            if k:
                tot += mk(rmp, k) * rmp.sin(m * n * xr)
                bound += abs(mk(rmp, k)) * (1 + abs(m * n * xr))
        V, Bq = fr(tot), fr(bound)
    tol = Fr(2) ** (4 - p) * Bq
    err = abs(fr(v) - V)
    if tol == 0:
        if err:
            rec.violation('C36/fourierval/definition', 'fourierval of an all-zero series is not zero', spec, observed=flo(fr(v)), expected=0)
        return
    rec.maximum('fourierval error / (2^(4-p) sum|coef|(1+|mnx|))', round(flo(err / tol), 6), {'p': p})
    if err > tol * (1 + Fr(1, 1 << 20)):
        rec.violation('C36/fourierval/definition', 'fourierval differs from the definition sum c_n cos(n m x) + s_n sin(n m x)', spec,
                      observed=flo(fr(v)), expected=flo(V), severity=round(math.log2(flo(err / tol)), 1))


RUNNERS = {'chebpoly': run_chebpoly, 'chebsmooth': run_chebsmooth, 'fourier': run_fourier, 'fourierval': run_fourierval}
GENS = {'chebpoly': gen_chebpoly, 'chebsmooth': gen_chebsmooth, 'fourier': gen_fourier, 'fourierval': gen_fourierval}


def run_shard(shard, rec):
    mp = _mp()
    r = G.rng(PROP, shard['seed'], shard['shard'])
    from vf.instrument import AnchorCount
    k = shard['shard']
    with AnchorCount(rec, ['mpmath.calculus.approximation:chebyfit', 'mpmath.calculus.approximation:chebcoeff',
                           'mpmath.calculus.approximation:fourier', 'mpmath.calculus.approximation:fourierval']):
        for sec in ('chebpoly', 'chebsmooth', 'fourier', 'fourierval'):
            for i in range(shard['counts'][sec]):
                spec = GENS[sec](r, i * NSHARDS + k)
                mp.prec = 53
                try:
                    RUNNERS[sec](mp, rec, spec)
                finally:
                    mp.prec = 53


def required(agg, tier):
    miss = []
    ev = agg['events']
    for name in ('chebyfit polynomial reproductions compared exactly', 'chebyfit error estimates compared with the sampled error',
                 'fourier coefficient lists compared with the planted coefficients', 'fourierval values compared with the definition'):
        if not ev.get(name):
            miss.append('monitor saw nothing: ' + name)
    return miss


def replay(case, rec):
    mp = _mp()
    spec = case['case']
    mp.prec = 53
    RUNNERS[spec['sec']](mp, rec, spec)
