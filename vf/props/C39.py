"""C39 -- mag / nint_distance / isint / isnpint / isnormal / isinf / isnan / isfinite / ldexp / frexp.

Observed: return values of the ten helpers of the global mp context for mpf, mpc, int, float, complex, mpq and
Fraction arguments (values injected exactly through make_mpf / make_mpc).
Oracle: the definitions, evaluated exactly with vf/exactq (integer arithmetic on (sign, man, exp) / p, q):
  mag            |x| <= 2^m  and  2^(m-3) < |x|   (m at most 2 above optimal); -inf for 0, +inf for infinities, nan for real nan
  nint_distance  n is *a* nearest integer (|Re x - n| <= 1/2), d = -inf <=> x is an integer, else
                 2^(d-2) <= |x-n| <= 2^(d+1)  (complex: modulus, window widened by half a bit); a non-finite argument has no
                 nearest integer, so any returned pair is wrong (must raise)
  predicates     truth tables from the docstrings
  ldexp / frexp  exact: result == x*2^n bit for bit; x == y*2^n, 1/2 <= |y| < 1, n a Python int, frexp(0) == (0, 0)
"""
from fractions import Fraction
from vf import exactq as Q
from vf import gens as G

PROP = 'C39'
LEVEL = 'exploration'
RULE = ('seeded stratified generation: argument type (mpf, mpc, int, float, complex, mpq, Fraction) x value family (zero, +-inf, nan, '
        'integers, half-integers, k +- 2^-j, |x|<1/2, 1/2<=|x|<1, powers of two, mantissas longer than the precision, exponents up to '
        '+-10^18) x helper; every value is passed to every applicable helper at a random working precision. A case is non-trivial '
        'when the argument is not a plain generic finite real (it is special, an integer/half-integer/near-integer, a power of two, '
        'complex, rational, or has a huge exponent) or the helper is mag/nint_distance/ldexp/frexp; distinct = distinct (helper, argument, extra argument)')
ASSUMPTIONS = ['exactq integer/rational arithmetic is correct',
               'envelope: an argument whose conversion into the context is inexact (Fraction, and mpq for ldexp/frexp, which have no rational path) '
               'is modelled by its correctly rounded value at the working precision, i.e. the helper is checked as "convert, then decide"; '
               'the decision about the unrounded rational is only recorded as an observation',
               'nint_distance is not called on integers with more than 2*10^5 bits (the result could not be materialised)',
               'truth-valued helpers are compared by truth value; non-bool return objects are recorded as observations']
LEVEL_TEXT = ('exploration: ~4*10^5 (quick) / ~5*10^6 (thorough) helper calls on the real code, every result decided by exact integer '
              'arithmetic from the definitions; generators aim at half-integers, k+-2^-j, powers of two, specials and huge exponents')
LEVEL_NOTE = 'trusted base vf/exactq.py; the nint_distance window [2^(d-2), 2^(d+1)] is fixed from the docstring examples, observed deviation reported'
TECHNIQUE = 'runtime reference-model monitor: exact definitional oracle on every observed helper result'

NSHARDS = 16
VALUES = {'quick': 2200, 'thorough': 30000}
PREDS = ['isnan', 'isinf', 'isfinite', 'isnormal', 'isint', 'isint_g', 'isnpint']
MAXINT_BITS = 200000


def shards(tier, seed):
    return [{'n': VALUES[tier]} for _ in range(NSHARDS)]


def _mp():
    import mpmath
    return mpmath.mp


# ---------------------------------------------------------------------------------------
# exact helpers on model values (Q.Ex or special string)
# ---------------------------------------------------------------------------------------
def is_fin(x):
    return not Q.is_special(x)


def is_zero(x):
    return is_fin(x) and x.n == 0


def is_integer(x):
    if not is_fin(x):
        return False
    if x.n == 0:
        return True
    if x.d == 1:
        n = abs(x.n)
        tz = (n & -n).bit_length() - 1
        return x.e + tz >= 0
    assert x.e == 0
    return x.n % x.d == 0


def pow2(k):
    return Q.Ex(1, 1, k)


def cmp_abs_pow2(x, k):
    """compare |x| with 2^k exactly (x finite, dyadic or rational)"""
    return Q.cmp(Q.absx(x), pow2(k))


def cmp_mod2_pow2(a, b, k):
    """compare a^2 + b^2 with 2^k exactly; a, b finite dyadic with any exponents; None if undecidable by the cheap rules"""
    A, B = Q.absx(a), Q.absx(b)
    if A.n == 0:
        A, B = B, A
    if B.n == 0:
        if A.n == 0:
            return -1
        return Q.cmp(Q.mul(A, A), pow2(k))
    ta = A.e + A.n.bit_length()
    tb = B.e + B.n.bit_length()
    if ta < tb:
        A, B, ta, tb = B, A, tb, ta
    if ta - tb > 30000:
        if A.n.bit_length() > 14000:
            return None
        c = Q.cmp(Q.mul(A, A), pow2(k))
        # A^2 < a^2+b^2 < A^2 (1 + 2^-59998); A^2 has < 28000 mantissa bits, so 2^k - A^2 >= A^2 2^-28000 when A^2 < 2^k
        return 1 if c >= 0 else -1
    S = Q.add(Q.mul(A, A), Q.mul(B, B))
    return Q.cmp(S, pow2(k))


def floor_log2(x):
    """floor(log2 |x|) for finite nonzero dyadic x"""
    assert x.d == 1 and x.n
    return x.e + abs(x.n).bit_length() - 1


# ---------------------------------------------------------------------------------------
# value generation: descriptors are JSON-able; build() turns them into objects and exact models
# ---------------------------------------------------------------------------------------
REAL_FAMILIES = ['zero', 'inf', 'ninf', 'nan', 'int', 'int', 'negint', 'bigint', 'half', 'half', 'near', 'near', 'lthalf', 'halfone',
                 'pow2', 'long', 'hugeexp', 'tinyexp', 'generic', 'generic']


def gen_real(r, p, fam=None):
    fam = fam or r.choice(REAL_FAMILIES)
    s = r.randint(0, 1)
    if fam == 'zero':
        return Q.fzero, fam
    if fam == 'inf':
        return Q.finf, fam
    if fam == 'ninf':
        return Q.fninf, fam
    if fam == 'nan':
        return Q.fnan, fam
    if fam == 'int':
        return Q.canon(s, r.randint(1, r.choice([3, 10, 1000, 1 << 60])), 0), fam
    if fam == 'negint':
        return Q.canon(1, r.randint(1, r.choice([3, 10, 1000, 1 << 60])), 0), fam
    if fam == 'bigint':
        return Q.canon(s, G.mantissa(r, G.mant_bits(r, p)), r.choice([0, 1, 5, p, 300, 5000, 100000])), fam
    if fam == 'half':
        k = r.choice([0, 0, 1, 2, 3, r.randint(0, 100), r.getrandbits(r.choice([8, 60, 200]))])
        return Q.canon(s, 2 * k + 1, -1), fam
    if fam == 'near':
        k = r.choice([0, 1, 2, 5, r.randint(0, 1000), r.getrandbits(r.choice([8, 60, 200]))])
        j = r.choice([1, 2, 3, p - 1, p, p + 1, 2 * p, r.randint(1, 3 * p + 5), 1000])
        j = max(1, j)
        m = (k << j) + r.choice([-1, 1]) * r.choice([1, 1, 1, 3, (1 << (j - 1)) - 1 if j > 1 else 1, (1 << (j - 1)) + 1])
        if m <= 0:
            m = (k << j) + 1
        return Q.canon(s, m, -j), fam
    if fam == 'lthalf':
        b = G.mant_bits(r, p)
        return Q.canon(s, G.mantissa(r, b), -b - r.choice([1, 1, 2, 5, 60, 2000])), fam
    if fam == 'halfone':
        b = G.mant_bits(r, p)
        return Q.canon(s, G.mantissa(r, b), -b), fam
    if fam == 'pow2':
        return Q.canon(s, 1, r.choice([0, 1, -1, -2, 2, 10, -10, p, -p, r.randint(-3000, 3000)])), fam
    if fam == 'long':
        b = r.choice([p + 1, 2 * p, 3 * p + 1, 1000, 5000])
        return Q.canon(s, G.mantissa(r, b), r.choice([0, -1, -2, -b, -b // 2, -b + 1, -b - 1, 7])), fam
    if fam == 'hugeexp':
        return Q.canon(s, G.mantissa(r, G.mant_bits(r, p)), abs(r.choice(G.BIG_EXPS)) + r.randint(-3, 3)), fam
    if fam == 'tinyexp':
        return Q.canon(s, G.mantissa(r, G.mant_bits(r, p)), -abs(r.choice(G.BIG_EXPS)) + r.randint(-3, 3)), fam
    t = G.raw_real(r, p, wild=False, special=0, zero=0)
    return t, 'generic'


def float_of_raw(raw):
    """the raw value as a Python float if exactly representable, else None"""
    import math
    sign, man, exp, bc = raw
    if not man:
        if raw == Q.fzero: return 0.0
        if raw == Q.finf: return math.inf
        if raw == Q.fninf: return -math.inf
        return math.nan
    if bc <= 53 and exp >= -1074 and exp + bc <= 1024:
        v = math.ldexp(man, exp)
        return -v if sign else v
    return None


def gen_value(r, p, i):
    """-> descriptor {'t':..., ...}, class label"""
    t = ['mpf', 'mpf', 'mpf', 'mpc', 'mpc', 'int', 'float', 'complex', 'mpq', 'mpq', 'Fraction'][i % 11]
    if t == 'mpf':
        raw, fam = gen_real(r, p)
        return {'t': 'mpf', 'raw': raw}, fam
    if t == 'mpc':
        re, f1 = gen_real(r, p)
        im, f2 = gen_real(r, p, r.choice(['zero', 'zero', None, None, None]))
        return {'t': 'mpc', 're': re, 'im': im}, f1 + '+' + f2 + 'j'
    if t == 'int':
        raw, fam = gen_real(r, p, r.choice(['zero', 'int', 'negint', 'bigint', 'pow2']))
        sign, man, exp, bc = raw
        if exp < 0 or exp > 100000:
            raw = Q.canon(sign, man, abs(exp) % 300)
            sign, man, exp, bc = raw
        v = man << exp
        return {'t': 'int', 'v': -v if sign else v}, fam
    if t == 'float':
        for _ in range(20):
            raw, fam = gen_real(r, min(p, 53), r.choice(['zero', 'inf', 'ninf', 'nan', 'int', 'negint', 'half', 'near', 'lthalf', 'halfone', 'pow2', 'generic']))
            v = float_of_raw(raw)
            if v is not None:
                return {'t': 'float', 'v': v}, fam
        return {'t': 'float', 'v': -0.0}, 'zero'
    if t == 'complex':
        parts, fams = [], []
        for _ in range(2):
            v = None
            while v is None:
                raw, fam = gen_real(r, 24, r.choice(['zero', 'zero', 'inf', 'nan', 'int', 'negint', 'half', 'near', 'lthalf', 'pow2', 'generic']))
                v = float_of_raw(raw)
            parts.append(v); fams.append(fam)
        return {'t': 'complex', 're': parts[0], 'im': parts[1]}, fams[0] + '+' + fams[1] + 'j'
    # rationals
    fam = r.choice(['zero', 'int', 'negint', 'half', 'near', 'third', 'dyadic', 'generic', 'big', 'pow2'])
    s = r.choice([1, -1])
    if fam == 'zero':
        pq = (0, r.choice([1, 3, 7]))
    elif fam == 'int':
        k = r.randint(1, 1 << r.choice([2, 10, 70])); q = r.choice([1, 2, 3, 10]); pq = (s * k * q, q)
    elif fam == 'negint':
        k = r.randint(1, 1 << r.choice([2, 10, 70])); q = r.choice([1, 2, 3, 10]); pq = (-k * q, q)
    elif fam == 'half':
        pq = (s * (2 * r.randint(0, 1 << r.choice([2, 10, 70])) + 1), 2)
    elif fam == 'near':
        q = r.choice([3, 7, 10, 1000, 10**20, (1 << r.choice([5, 60, 200])) + 1, 1 << r.choice([5, 60, 200])])
        k = r.randint(0, 1 << r.choice([2, 10, 70]))
        pq = (s * (k * q + r.choice([1, -1, q // 2, q // 2 + 1, (q - 1) // 2])), q)
    elif fam == 'third':
        pq = (s * r.randint(1, 100), 3)
    elif fam == 'dyadic':
        pq = (s * (2 * r.randint(0, 1 << 20) + 1), 1 << r.randint(1, 30))
    elif fam == 'pow2':
        k = r.randint(0, 80)
        pq = (s * (1 << k), 1) if r.random() < 0.5 else (s, 1 << k)
    elif fam == 'big':
        pq = (s * r.randint(1, 1 << r.choice([100, 300])), r.randint(1, 1 << r.choice([3, 100, 300])))
    else:
        pq = (s * r.randint(1, 1 << r.choice([3, 20, 64])), r.randint(1, 1 << r.choice([3, 20, 64])))
    return {'t': t, 'p': pq[0], 'q': pq[1]}, fam


def build(mp, d, prec):
    """-> (object, re model, im model, exact_conversion, rational_exact (Ex p/q or None))"""
    t = d['t']
    if t == 'mpf':
        raw = tuple(d['raw'])
        return mp.make_mpf(raw), Q.from_raw(raw), Q.Ex(0), True, None
    if t == 'mpc':
        re, im = tuple(d['re']), tuple(d['im'])
        return mp.make_mpc((re, im)), Q.from_raw(re), Q.from_raw(im), True, None
    if t == 'int':
        return d['v'], Q.Ex(d['v']), Q.Ex(0), True, None
    if t == 'float':
        return d['v'], Q.from_float(d['v']), Q.Ex(0), True, None
    if t == 'complex':
        return complex(d['re'], d['im']), Q.from_float(d['re']), Q.from_float(d['im']), True, None
    p, q = d['p'], d['q']
    g = Fraction(p, q)
    rat = Q.Ex(g.numerator, g.denominator, 0)
    if t == 'mpq':
        from mpmath.rational import mpq
        return mpq(p, q), rat, Q.Ex(0), True, rat
    obj = Fraction(p, q)
    conv = Q.from_raw(Q.round_to(rat, prec, 'n'))
    return obj, conv, Q.Ex(0), Q.fits(rat, prec), rat


def rounded(rat, prec):
    return Q.from_raw(Q.round_to(rat, prec, 'n'))


# ---------------------------------------------------------------------------------------
# the oracle, one function per helper.  Each returns (ok, expected-description) or None when the statement/docs
# do not pin the result (then the observation is only noted)
# ---------------------------------------------------------------------------------------
def truth(fn, re, im):
    fin = is_fin(re) and is_fin(im)
    anynan = re == Q.NAN or im == Q.NAN
    anyinf = re in (Q.PINF, Q.NINF) or im in (Q.PINF, Q.NINF)
    if fn == 'isnan':
        return anynan
    if fn == 'isinf':
        if anyinf and anynan:
            return None          # |inf + nan j|: not pinned by the docs
        return anyinf
    if fn == 'isfinite':
        return fin
    if fn == 'isnormal':
        return fin and not (is_zero(re) and is_zero(im))
    if fn == 'isint':
        return fin and is_integer(re) and is_zero(im)
    if fn == 'isint_g':
        return fin and is_integer(re) and is_integer(im)
    if fn == 'isnpint':
        return fin and is_zero(im) and is_integer(re) and re.sign() <= 0
    raise ValueError(fn)


def is_minf(mp, v):
    return hasattr(v, '_mpf_') and v._mpf_ == Q.fninf


def is_pinf(mp, v):
    return hasattr(v, '_mpf_') and v._mpf_ == Q.finf


def is_pyint(v):
    return isinstance(v, int) and not isinstance(v, bool)


def check_mag(mp, got, re, im):
    """-> (verdict, text)  verdict True/False/None(not pinned / undecided)"""
    anynan = re == Q.NAN or im == Q.NAN
    anyinf = re in (Q.PINF, Q.NINF) or im in (Q.PINF, Q.NINF)
    if anynan:
        if is_zero(im) and re == Q.NAN:
            return (hasattr(got, '_mpf_') and got._mpf_ == Q.fnan), 'nan'
        return None, 'not pinned'
    if anyinf:
        return is_pinf(mp, got), '+inf'
    if is_zero(re) and is_zero(im):
        return is_minf(mp, got), '-inf'
    if not is_pyint(got):
        return False, 'a Python integer m'
    m = got
    if is_zero(im) or is_zero(re):
        x = re if is_zero(im) else im
        up = cmp_abs_pow2(x, m) <= 0
        lo = cmp_abs_pow2(x, m - 3) > 0
    else:
        if re.d != 1 or im.d != 1:
            return None, 'rational complex'
        c1 = cmp_mod2_pow2(re, im, 2 * m)
        c2 = cmp_mod2_pow2(re, im, 2 * (m - 3))
        if c1 is None or c2 is None:
            return None, 'undecided'
        up, lo = c1 <= 0, c2 > 0
    return (up and lo), '|x| <= 2^m and 2^(m-3) < |x|' + ('' if up else ' [bound fails]') + ('' if lo else ' [more than 2 above optimal]')


def check_nint(mp, got, re, im, rec=None, case=None):
    """got = (n, d).  -> (verdict, text)"""
    try:
        n, d = got
    except Exception:
        return False, 'a pair (n, d)'
    if not is_pyint(n):
        return False, 'n a Python integer'
    # nearest integer of the real part
    if re.d == 1:
        if re.n == 0:
            near = (n == 0)
            dr = Q.Ex(0)
        else:
            top = re.e + abs(re.n).bit_length()
            if top < -1:
                near = (n == 0)
                dr = re
            elif re.e >= 0:
                near = (n == (re.n << re.e))
                dr = Q.Ex(0) if near else Q.sub(re, Q.Ex(n))
            else:
                D = re.n - (n << (-re.e))
                near = (2 * abs(D) <= (1 << (-re.e)))
                dr = Q.Ex(D, 1, re.e)
    else:
        fr = Fraction(re.n, re.d) - n
        near = abs(fr) <= Fraction(1, 2)
        dr = Q.Ex(fr.numerator, fr.denominator, 0)
    if not near:
        return False, 'n a nearest integer of Re x (|Re x - n| <= 1/2)'
    exact_int = dr.n == 0 and is_zero(im)
    if exact_int:
        return is_minf(mp, d), 'd = -inf for an integer'
    if is_minf(mp, d):
        return False, 'finite d for a non-integer'
    if not is_pyint(d):
        return False, 'd a Python integer'
    if is_zero(im) or dr.n == 0:
        dist = dr if is_zero(im) else im
        lo = Q.cmp(Q.absx(dist), pow2(d - 2)) >= 0
        hi = Q.cmp(Q.absx(dist), pow2(d + 1)) <= 0
        if dist.d == 1 and rec is not None:
            dev = d - (floor_log2(dist) + 1)
            rec.maximum('nint_distance: max |d - (floor(log2|x-n|)+1)| (real distance)', abs(dev), case)
    else:
        if dr.d != 1 or im.d != 1:
            return None, 'rational complex'
        c1 = cmp_mod2_pow2(dr, im, 2 * d - 5)
        c2 = cmp_mod2_pow2(dr, im, 2 * d + 3)
        if c1 is None or c2 is None:
            return None, 'undecided'
        lo, hi = c1 >= 0, c2 <= 0
    return (lo and hi), '2^(d-2) <= |x-n| <= 2^(d+1)'


def value_class(re, im, fam, t):
    """a-priori input class used in mechanism keys"""
    if not is_fin(re) or not is_fin(im):
        if not is_fin(re):
            return 'nonfinite-re'
        return 'nonfinite-im'
    if t in ('mpc', 'complex') and not is_zero(im):
        return 'complex'
    if is_zero(re):
        return 'zero'
    if is_integer(re):
        return 'integer'
    two = Q.Ex(re.n * 2, re.d, re.e)
    if is_integer(two):
        return 'half-integer'
    if Q.cmp(Q.absx(re), pow2(-1)) < 0:
        return 'below-half'
    return 'non-integer'


def run_value(mp, rec, d, fam, p, r, only=None, extra=None):
    """run every applicable helper on the value described by d at working precision p"""
    old = mp.prec
    mp.prec = p
    try:
        t = d['t']
        x, re, im, exact, rat = build(mp, d, p)
        vcls = value_class(re, im, fam, t)
        iscomplex = t in ('mpc', 'complex')
        plain = (t == 'mpf' and fam == 'generic')
        if not exact:
            rec.cls('inexact-conversion/' + t)

        def viol(fn, what, got, exp, extra_case=None):
            case = {'fn': fn, 'x': d, 'prec': p, 'fam': fam}
            if extra_case:
                case.update(extra_case)
            rec.violation('C39/%s/%s/%s' % (fn, t, vcls), what, case, observed=repr(got), expected=exp)

        def model_for(fn):
            """model parts for this helper: mpq has exact rational paths in everything but ldexp/frexp"""
            if t == 'mpq' and fn in ('ldexp', 'frexp'):
                return rounded(rat, p), Q.Ex(0), Q.fits(rat, p)
            return re, im, exact

        # -- predicates -------------------------------------------------------------
        for fn in PREDS:
            if only and fn != only:
                continue
            mre, mim, ex = model_for(fn)
            exp = truth(fn, mre, mim)
            try:
                if fn == 'isint_g':
                    got = mp.isint(x, gaussian=True)
                elif fn == 'isint' and r.random() < 0.3:
                    got = mp.isint(x, gaussian=False)
                else:
                    got = getattr(mp, fn)(x)
            except Exception as e:
                rec.case((fn, repr(d)), True, cls='%s/%s/raises' % (fn, t))
                viol(fn, '%s raises %s' % (fn, type(e).__name__), repr(e), repr(exp))
                continue
            if exp is None:
                rec.note('not pinned by the docs', {'fn': fn, 'x': d, 'result': repr(got)})
                continue
            rec.case((fn, repr(d)), not plain, cls='%s/%s/%s' % (fn, t, exp))
            if type(got) is not bool:
                rec.note('non-bool return value', {'fn': fn, 'type': t, 'class': vcls, 'returned': repr(got)}, cap=12)
            if bool(got) != exp:
                viol(fn, '%s(%s %s) is %r, definition gives %r' % (fn, t, vcls, got, exp), got, repr(exp))
            elif not exact and rat is not None and fn in ('isint', 'isnpint'):
                tr = truth(fn, rat, Q.Ex(0))
                if tr != exp:
                    rec.note('decided on the value rounded to the working precision (differs for the exact rational)',
                             {'fn': fn, 'x': d, 'prec': p, 'returned': repr(got), 'exact_rational_answer': tr}, cap=6)

        # -- mag ------------------------------------------------------------------------
        if not only or only == 'mag':
            fn = 'mag'
            try:
                got = mp.mag(x)
                ok, text = check_mag(mp, got, re, im)
            except Exception as e:
                got, ok, text = repr(e), False, 'a magnitude'
            if ok is None:
                if text == 'undecided':
                    rec.undecided('mag: modulus comparison undecided', d)
                else:
                    rec.note('not pinned by the docs', {'fn': 'mag', 'x': d, 'result': repr(got)})
            else:
                rec.case((fn, repr(d)), True, cls='mag/%s/%s' % (t, vcls))
                rec.sample({'fn': 'mag', 'x': d, 'prec': p, 'result': repr(got)})
                if not ok:
                    viol(fn, 'mag(%s %s) = %r violates: %s' % (t, vcls, got, text), got, text)
                elif is_pyint(got) and is_fin(re) and is_fin(im):
                    # how far above optimal (observed): optimal m0 has 2^(m0-1) < |x| <= 2^m0
                    for k in (1, 2):
                        if is_zero(im) or is_zero(re):
                            xx = re if is_zero(im) else im
                            c = cmp_abs_pow2(xx, got - k) <= 0
                        elif re.d == 1 and im.d == 1:
                            c = cmp_mod2_pow2(re, im, 2 * (got - k))
                            c = (c is not None and c <= 0)
                        else:
                            c = False
                        if c:
                            rec.maximum('mag: bits above optimal', k, {'x': d})

        # -- nint_distance -----------------------------------------------------------------
        if not only or only == 'nint_distance':
            fn = 'nint_distance'
            feasible = not (is_fin(re) and re.d == 1 and re.n and re.e + abs(re.n).bit_length() > MAXINT_BITS)
            if feasible:
                nonfinite = not is_fin(re) or not is_fin(im)
                case = {'fn': fn, 'x': d, 'prec': p}
                try:
                    got = mp.nint_distance(x)
                    raised = None
                except (ValueError, TypeError, OverflowError) as e:
                    got, raised = repr(e), e
                if nonfinite:
                    rec.case((fn, repr(d)), True, cls='nint_distance/%s/%s' % (t, vcls))
                    if raised is None:
                        # one mechanism whatever the argument type: key by which part is non-finite
                        rec.violation('C39/nint_distance/%s/returns-pair' % vcls,
                                      'nint_distance of a non-finite argument returns %r (no nearest integer exists; the code intends ValueError)' % (got,),
                                      case, observed=repr(got), expected='an exception (ValueError "requires a finite number")')
                elif raised is not None:
                    rec.case((fn, repr(d)), True, cls='nint_distance/%s/raises' % t)
                    viol(fn, 'nint_distance raises %s on a finite argument' % type(raised).__name__, got, '(n, d)')
                else:
                    ok, text = check_nint(mp, got, re, im, rec, case)
                    if ok is None:
                        rec.undecided('nint_distance: ' + text, d)
                    else:
                        rec.case((fn, repr(d)), True, cls='nint_distance/%s/%s' % (t, vcls))
                        if not ok:
                            viol(fn, 'nint_distance(%s %s) = %r violates: %s' % (t, vcls, got, text), got, text)
            else:
                rec.cls('nint_distance/skipped-huge-integer')

        # -- ldexp / frexp (real arguments only) ---------------------------------------------
        if not iscomplex:
            mre, _, ex = model_for('ldexp')
            if not only or only == 'ldexp':
                n = extra if extra is not None else r.choice([0, 1, -1, 10, -3, r.randint(-2000, 2000), 10**18, -10**18, 10**30, -10**30, r.randint(-70, 70)])
                try:
                    got = mp.ldexp(x, n)
                    graw = got._mpf_
                except Exception as e:
                    got = graw = repr(e)
                if Q.is_special(mre):
                    want = Q.raw_of_special(mre)
                elif mre.n == 0:
                    want = Q.fzero
                else:
                    want = Q.exact_raw(Q.Ex(mre.n, 1, mre.e + n))
                rec.case(('ldexp', repr(d), n), True, cls='ldexp/%s/%s' % (t, vcls))
                if graw != want or not Q.is_canonical(graw) or type(got) is not mp.mpf:
                    viol('ldexp', 'ldexp(x, %d) is not exactly x*2^n' % n, graw, want, {'n': n})
            if not only or only == 'frexp':
                try:
                    got = mp.frexp(x)
                    raised = None
                except Exception as e:
                    got, raised = repr(e), e
                if Q.is_special(mre):
                    rec.note('frexp of inf/nan (not pinned by the docs)', {'x': d, 'result': repr(got)}, cap=4)
                else:
                    rec.case(('frexp', repr(d)), True, cls='frexp/%s/%s' % (t, vcls))
                    ok = False
                    text = 'x == y*2^n, 1/2 <= |y| < 1, n int; (0, 0) for zero'
                    if raised is None:
                        try:
                            y, n = got
                            yraw = y._mpf_
                            if mre.n == 0:
                                ok = (yraw == Q.fzero and is_pyint(n) and n == 0)
                            else:
                                Y = Q.from_raw(yraw)
                                ok = (is_pyint(n) and type(y) is mp.mpf and Q.is_canonical(yraw) and is_fin(Y)
                                      and Q.cmp(Q.Ex(Y.n, 1, Y.e + n), mre) == 0
                                      and cmp_abs_pow2(Y, -1) >= 0 and cmp_abs_pow2(Y, 0) < 0)
                        except Exception:
                            ok = False
                    if not ok:
                        viol('frexp', 'frexp(x) = %r violates: %s' % (got, text), got, text)
    finally:
        mp.prec = old


def run_shard(shard, rec):
    mp = _mp()
    r = G.rng(PROP, shard['seed'], shard['shard'])
    from vf.instrument import AnchorCount
    with AnchorCount(rec, ['mpmath.ctx_mp_python:PythonMPContext.mag', 'mpmath.ctx_mp_python:PythonMPContext._mpf_mag',
                           'mpmath.ctx_mp:MPContext.nint_distance', 'mpmath.ctx_mp_python:PythonMPContext.isint',
                           'mpmath.ctx_mp:MPContext.isnpint', 'mpmath.ctx_mp_python:PythonMPContext.isnormal',
                           'mpmath.ctx_mp_python:PythonMPContext.isinf', 'mpmath.ctx_mp:MPContext.isnan',
                           'mpmath.ctx_mp:MPContext.isfinite', 'mpmath.ctx_mp:MPContext.ldexp', 'mpmath.ctx_mp:MPContext.frexp',
                           'mpmath.libmp.libmpf:mpf_frexp', 'mpmath.libmp.libmpf:mpf_shift']):
        # fixed (seed independent) table first: docstring examples and the classic edge values, on shard 0
        if shard['shard'] == 0:
            fixed = [({'t': 'mpf', 'raw': Q.canon(s, m, e)}, fam) for s in (0, 1) for (m, e, fam) in
                     [(1, -1, 'half'), (3, -1, 'half'), (5, -1, 'half'), (7, -1, 'half'), (1, 0, 'int'), (1, -2, 'lthalf'), (3, -2, 'halfone'),
                      (5, 0, 'int'), (11, -2, 'near'), (2**53 + 1, -53, 'near'), (2**53 - 1, -53, 'near'), (1, 10, 'pow2'), (1, -10, 'pow2')]]
            fixed += [({'t': 'mpf', 'raw': t}, f) for t, f in ((Q.fzero, 'zero'), (Q.finf, 'inf'), (Q.fninf, 'ninf'), (Q.fnan, 'nan'))]
            fixed += [({'t': 'mpc', 're': a, 'im': b}, 'table') for a in (Q.fzero, Q.finf, Q.fnan, (0, 5, 0, 3), (1, 3, 0, 2), (0, 5, -1, 3))
                      for b in (Q.fzero, Q.fninf, Q.fnan, (0, 5, 1, 3), (0, 1, -20, 1))]
            fixed += [({'t': 'int', 'v': v}, 'int') for v in (0, 1, -1, 5, -5, 10, 2**64, -2**64)]
            fixed += [({'t': 'float', 'v': v}, 'table') for v in (0.0, -0.0, 0.5, -0.5, 2.5, -2.5, 3.2, 5.00000001, 4.99999999, 0.01, 1e-320,
                                                                 float('inf'), float('-inf'), float('nan'))]
            fixed += [({'t': 'mpq', 'p': a, 'q': b}, 'table') for a, b in ((0, 1), (1, 2), (-1, 2), (7, 2), (-7, 2), (1, 3), (-1, 3), (2, 3), (-4, 2), (10**30, 3))]
            fixed += [({'t': 'Fraction', 'p': a, 'q': b}, 'table') for a, b in ((0, 1), (1, 2), (-7, 2), (1, 3), (10**30, 3), (10**20 + 1, 10**20), (-3, 1))]
            for d, fam in fixed:
                run_value(mp, rec, d, fam, 53, r)
        for i in range(shard['n']):
            p = G.pick_prec(r)
            d, fam = gen_value(r, p, i + shard['shard'])
            run_value(mp, rec, d, fam, p, r)
    rec.event('helper results decided', rec.evals)


def required(agg, tier):
    miss = []
    cl = agg['classes']
    for fn in ('isnan', 'isinf', 'isfinite', 'isnormal', 'isint', 'isint_g', 'isnpint'):
        for v in ('True', 'False'):
            if not any(k.startswith(fn + '/') and k.endswith('/' + v) for k in cl):
                miss.append('%s never expected %s' % (fn, v))
    for fn in ('mag', 'nint_distance', 'ldexp', 'frexp'):
        for t in ('mpf', 'int', 'float', 'mpq', 'Fraction') + (('mpc', 'complex') if fn in ('mag', 'nint_distance') else ()):
            if not any(k.startswith('%s/%s/' % (fn, t)) for k in cl):
                miss.append('%s never observed for %s arguments' % (fn, t))
    for c in ('half-integer', 'integer', 'below-half', 'non-integer', 'zero', 'complex'):
        if not any(k.startswith('nint_distance/') and k.endswith('/' + c) for k in cl):
            miss.append('nint_distance: class %s never observed' % c)
    return miss


def _unjson_value(d):
    from vf.core import unjson_int

    def raw(t):
        return (int(t[0]), unjson_int(t[1]), unjson_int(t[2]), int(t[3]))
    d = dict(d)
    t = d['t']
    if t == 'mpf':
        d['raw'] = raw(d['raw'])
    elif t == 'mpc':
        d['re'], d['im'] = raw(d['re']), raw(d['im'])
    elif t == 'int':
        d['v'] = unjson_int(d['v'])
    elif t == 'float':
        d['v'] = float(d['v'])
    elif t == 'complex':
        d['re'], d['im'] = float(d['re']), float(d['im'])
    else:
        d['p'], d['q'] = unjson_int(d['p']), unjson_int(d['q'])
    return d


def replay(case, rec):
    mp = _mp()
    import random
    from vf.core import unjson_int
    c = case['case']
    fn = c['fn']
    extra = unjson_int(c['n']) if 'n' in c else None
    run_value(mp, rec, _unjson_value(c['x']), c.get('fam', 'replay'), int(c['prec']), random.Random(1), only=fn, extra=extra)
