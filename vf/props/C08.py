"""C08 -- printed numbers round-trip and are nearest decimal approximations.

Observed: repr(x) / eval(repr(x)) / mpf(repr-literal) at the same precision; str(x); nstr(x, n, **options) for mpf and mpc;
printing of +inf, -inf, nan.
Oracle: exact integer arithmetic (vf/exact_strings.nearest_ok: the binary value is compared with the two decimal
half-way points adjacent to the printed literal; twin Fraction implementation on a sample), tuple equality for round trips,
float() and decimal.Decimal() as the parsers the statement names.
"""
import math
import decimal
from vf import exactq as Q
from vf import gens as G
from vf import exact_strings as X

PROP = 'C08'
LEVEL = 'exploration'
RULE = ('seeded stratified generation: value class (random, binary neighbours of decimal half-way points at p and 4p bits and at the '
        'digit-generation width, 4999/5000/9999 tails, next to powers of ten, exact short decimals, long mantissas, huge exponents) x '
        'check kind (repr round trip, nstr, str, options, mpc) x precision 1..3500 x digit count 1..2dps; non-trivial = the value is '
        'not exactly printable in n digits (a decimal rounding decision was made) or a round trip was performed; '
        'distinct = distinct (kind, value, p, n, options)')
ASSUMPTIONS = ['vf/exact_strings.nearest_ok / cmp_raw_dec (exact integer comparison; rigorous enclosure of 5**k beyond |E| = 2*10^5) is correct; '
               'cross-checked on a sample against a Fraction implementation built on exactq.nearest_decimals',
               'values are injected exactly through make_mpf / make_mpc']
SHARD_TIMEOUT = {'quick': 300, 'thorough': 2400}
LEVEL_TEXT = ('exploration: ~6*10^5 (quick) / ~5*10^6 (thorough) printed numbers from the real code, each decided exactly: repr round trip by '
              'tuple equality, nstr/str by exact comparison with the decimal half-way points, options by exact equality of parsed values')
LEVEL_NOTE = 'trusted base: vf/exact_strings.py, vf/exactq.py, CPython float()/Decimal() parsers; values not generated are not covered'
TECHNIQUE = 'runtime reference-model monitor: exact decimal/binary comparison oracle on every printed number'

CASES = {'quick': 28000, 'thorough': 300000}
KINDS = ['repr', 'nstr', 'nstr', 'str', 'opts', 'mpc', 'special', 'nstr']
VCLASSES = ['rand', 'dectie', 'dectie4', 'dectie-width', 'tails', 'pow10', 'exactdec', 'long', 'huge', 'huge-tie', 'rand']
LOG2_10 = math.log(10, 2)


class HarnessError(BaseException):
    """a disagreement inside the oracle: must crash the worker (-> inconclusive), never become a verdict"""


def shards(tier, seed):
    return [{'n': CASES[tier]} for _ in range(16)]


def _mp():
    import mpmath
    return mpmath


# ---------------------------------------------------------------------------------------
# value generators -> raw tuples
# ---------------------------------------------------------------------------------------

def rnd_S(r, n):
    """an n-digit integer (string patterns as in C07.digits)"""
    if n <= 1:
        return r.randint(1, 9)
    k = r.random()
    if k < 0.6:
        return r.randint(10 ** (n - 1), 10 ** n - 1)
    if k < 0.75:
        return 10 ** n - 1                       # 999..9  (+1/2 -> carry into a new digit)
    if k < 0.9:
        return 10 ** (n - 1)                     # 100..0  (uneven spacing below)
    return 10 ** (n - 1) + r.randint(0, 9)


def near_decimal(r, N, E, q):
    """a q-bit binary value next to the decimal N*10**E: one of its two q-bit neighbours, or one step further"""
    lo = X.round_dec(N, E, q, 'f')
    hi = X.round_dec(N, E, q, 'c')
    if lo is None or hi is None:
        return None
    k = r.random()
    if k < 0.45:
        v = lo
    elif k < 0.9:
        v = hi
    else:
        # one more ulp away
        s, m, e, bc = lo if k < 0.95 else hi
        if bc < q:
            m <<= (q - bc); e -= (q - bc)
        m = m - 1 if k < 0.95 else m + 1
        v = Q.canon(s, m, e) if m > 0 else lo
    return v


def gen_value(r, vclass, p, n):
    """returns raw tuple (finite, nonzero mostly)"""
    sign = r.randint(0, 1)
    if vclass == 'rand':
        t = G.raw_real(r, p, wild=False, special=0, zero=0.01, bits=r.choice([None, p, p, max(1, p - 1)]))
        return t
    if vclass in ('dectie', 'dectie4', 'dectie-width', 'huge-tie'):
        S = rnd_S(r, n)
        if vclass == 'huge-tie':
            e = r.choice([1, -1]) * r.choice([1100, 1500, 4000, 10 ** 4, 10 ** 5, 10 ** 6, 10 ** 9, 10 ** 18]) + r.randint(-5, 5)
        else:
            e = r.choice([r.randint(-8, 8), r.randint(-30, 30), r.randint(-330, 330), r.randint(-1000, 1000)])
        if vclass == 'dectie':
            q = p
        elif vclass == 'dectie4':
            q = 4 * p
        elif vclass == 'huge-tie':
            q = r.choice([p, 4 * p, int((n + 3) * LOG2_10) + r.randint(-2, 14)])
        else:
            q = int((n + 3) * LOG2_10) + r.randint(0, 14)       # around the documented digit-generation width
        q = max(q, 2)
        N, E = 10 * S + 5, e - 1
        if r.random() < 0.12:
            N, E = S, e                                           # next to an n-digit decimal itself
        v = near_decimal(r, N, E, q)
        if v is None:
            return None
        return (sign,) + v[1:]
    if vclass == 'tails':
        S = rnd_S(r, n)
        L = r.choice([1, 2, 5, 20, 60])
        tail = r.choice(['4' + '9' * L, '5' + '0' * L, '9' * (L + 1), '5' + '0' * (L - 1) + '1', '0' * L + '1', '49' + '9' * L + '5'])
        N = int(str(S) + tail)
        E = r.choice([r.randint(-8, 8), r.randint(-300, 300)]) - len(tail)
        q = r.choice([p, 2 * p, p + 7, max(2, int((n + len(tail)) * LOG2_10) + r.randint(-3, 12))])
        v = X.round_dec(N, E, q, r.choice('nfc'))
        return (sign,) + v[1:]
    if vclass == 'pow10':
        k = r.choice([r.randint(-25, 25), r.randint(-320, 320), r.choice([1, -1]) * r.randint(1100, 1200)])
        q = r.choice([p, p, 2 * p, p + 3])
        v = near_decimal(r, 1, k, q)
        return (sign,) + v[1:]
    if vclass == 'exactdec':
        k = r.random()
        if k < 0.3:
            m = r.randint(1, 10 ** r.randint(1, 6))
            return Q.canon(sign, m, r.randint(-12, 12))
        if k < 0.6:
            return Q.canon(sign, 5 ** r.randint(0, 25) * r.randint(1, 50), r.randint(-5, 25))
        if k < 0.8:
            return Q.canon(sign, 10 ** r.randint(0, 22), 0)
        return Q.canon(sign, r.randint(1, 999), -r.randint(1, 60))
    if vclass == 'long':
        b = r.choice([2 * p, int(2 * n * LOG2_10) + 5, 1000, 5000 if r.random() < 0.2 else 300, p + 1, int((n + 3) * LOG2_10) + 11])
        m = G.mantissa(r, max(2, b))
        top = r.choice([r.randint(-8, 8), r.randint(-300, 300), r.randint(-3000, 3000)])
        return Q.canon(sign, m, top - m.bit_length())
    if vclass == 'huge':
        b = r.choice([1, 2, p, p, max(1, p - 1), 2 * p])
        m = G.mantissa(r, b)
        top = r.choice([1, -1]) * (r.choice([3490, 3500, 3501, 3502, 3600, 5000, 10 ** 5, 10 ** 6, 10 ** 9 + 7, 10 ** 18, 2 ** 70])
                                   + r.randint(-3, 3))
        return Q.canon(sign, m, top - m.bit_length())
    raise ValueError(vclass)


def pick_n(r, p, mpm):
    dps = max(1, int(round(p / 3.3219280948873626) - 1))
    k = r.random()
    if k < 0.35:
        return r.randint(1, 6)
    if k < 0.6:
        return r.randint(1, max(1, dps))
    if k < 0.75:
        return r.choice([max(1, dps - 1), dps, dps + 1, dps + 2, dps + 3])
    if k < 0.9:
        return r.randint(max(1, dps), 2 * dps + 2)
    return r.choice([15, 16, 17, 30, 50])


# ---------------------------------------------------------------------------------------
# classifiers (mechanism keys), written from the documented switch conditions
# ---------------------------------------------------------------------------------------

def print_path(raw, n):
    """which documented path of to_digits_exp prints raw with n significant digits"""
    sign, man, exp, bc = raw
    bitprec = int((n + 3) * math.log(10, 2)) + 10
    if abs(exp + bc) > 3500:
        return 'huge-exponent-approx-power-of-ten'
    if exp < 0 and bc > bitprec:
        return 'truncation-before-decimal-rounding'
    return 'exact-digits-path'


def digits_needed(p):
    """smallest d such that every p-bit binary value is identified by its nearest d-digit decimal: 10**(d-1) > 2**p"""
    d = 1
    while 10 ** (d - 1) <= (1 << p):
        d += 1
    return d


def roundtrip_key(mpm, p, raws, lits, what):
    """mechanism key of a failed round trip, from conditions known before the failure is looked at: is the documented
    digit count repr_dps(p) below the number of digits a p-bit value needs?  else which print / parse paths were taken"""
    have = mpm.libmp.repr_dps(p)
    if have < digits_needed(p):
        # repr_dps has two documented branches: the 17-digit special case when prec_to_dps(p) == 15, and dps+3 otherwise
        dps = max(1, int(round(int(p) / 3.3219280948873626) - 1))
        return 'C08/repr_dps/too-few-digits/%s' % ('special-case-17-digits' if dps == 15 else 'generic-rule')
    pp = 'huge' if any(abs(t[2] + t[3]) > 3500 for t in raws if t[1]) else 'exact'
    ps = 'approx-branch' if any(parse_path(l) == 'approx-branch' for l in lits) else 'exact-branch'
    return 'C08/%s/print:%s/parse:%s' % (what, pp, ps)


def parse_path(lit):
    from vf.props.C07 import documented_branch
    return documented_branch(lit)[0]


# ---------------------------------------------------------------------------------------
# checks
# ---------------------------------------------------------------------------------------

DEC_EXP_LIMIT = 9 * 10 ** 17


def parseable(rec, s, case, what):
    """(i) float() and Decimal() can parse the literal"""
    try:
        float(s)
    except Exception as e:
        rec.violation('C08/%s/not-parseable-by-float' % what, 'float() rejects the printed literal', case, repr(s)[:200], 'parseable')
        return False
    pk = X.parse_printed(s)
    if pk is not None and abs(pk[1]) + len(str(abs(pk[0]))) > DEC_EXP_LIMIT:
        rec.event('Decimal() not tried: exponent beyond the decimal module limit (observed, not asserted)')
        return True
    try:
        d = decimal.Decimal(s)
    except Exception as e:
        rec.violation('C08/%s/not-parseable-by-Decimal' % what, 'Decimal() rejects the printed literal', case, repr(s)[:200], 'parseable')
        return False
    if pk is not None and d.is_finite():
        # twin parser: Decimal's exact (sign, digits, exponent) must denote the same number as our parser's (S, k)
        sg, dg, ex = d.as_tuple()
        Sd = int(''.join(map(str, dg)) or '0')
        if sg:
            Sd = -Sd
        S, k = pk
        m = min(k, ex)
        if S * 10 ** (k - m) != Sd * 10 ** (ex - m):
            raise HarnessError('harness: parser twins disagree on %r' % s)
    return True


def check_real_print(mpm, rec, raw, s, n, case, what, r=None):
    """(i) + (ii) for one printed real literal s of the finite value raw with digit count n.  Returns parsed (S,k) or None."""
    if not parseable(rec, s, case, what):
        return None
    pk = X.parse_printed(s)
    if pk is None:
        rec.violation('C08/%s/unexpected-shape' % what, 'printed literal is not digits[.digits][e+-digits]', case, repr(s)[:200], None)
        return None
    S, k = pk
    if not raw[1]:
        if S != 0:
            rec.violation('C08/%s/zero' % what, 'zero printed as a non-zero literal', case, s, '0.0')
        return pk
    if S == 0:
        rec.violation('C08/to_digits_exp/' + print_path(raw, n), 'non-zero value printed as zero', case, s[:200], 'a nearest %d-digit decimal' % n)
        return pk
    ok, detail = X.nearest_ok(raw, S, k, n)
    if ok is None:
        rec.undecided('enclosure of 10**k cannot decide the half-way comparison', case)
        return pk
    rec.event('printed literal compared with the decimal half-way points')
    if detail == 'tie':
        rec.event('exact decimal tie (either neighbour accepted)')
    if r is not None and raw[3] < 1500 and abs(raw[2]) < 1500 and n < 400 and r.random() < 0.08:
        twin = X.nearest_ok_fraction(raw, S, k, n)
        rec.event('twin Fraction oracle consulted')
        if twin != ok:
            raise HarnessError('harness: nearest_ok twins disagree on %r %r n=%d' % (raw, s, n))
    if not ok:
        if detail == 'more than n significant digits':
            key = 'C08/to_str/more-than-n-digits'
        else:
            key = 'C08/to_digits_exp/' + print_path(raw, n)
        sev = None
        if key.endswith('huge-exponent-approx-power-of-ten'):
            # severity: 64 + log2(distance beyond the half-way point, in units of the last printed place); the documented
            # algorithm (power of ten and quotient rounded to 3.32(n+3)+10 bits) bounds it a priori by 3*2^-19 units -> <= 46
            ex = X.excess_units(raw, S, k, n)
            sev = max(0, 64 + int(math.floor(math.log(ex, 2)))) if ex > 0 else 0
            rec.maximum('huge-exponent path: log2(excess beyond half a unit)+64', sev, {'raw': raw, 'n': n, 'printed': s[:80]})
        rec.violation(key, '%s: printed literal is not a nearest %d-digit decimal (%s)' % (what, n, detail), case, s[:300],
                      'value within half a unit in the last place of the printed literal', severity=sev)
    return pk


def norm(pk):
    S, k = pk
    if S == 0:
        return (0, 0)
    while S % 10 == 0:
        S //= 10
        k += 1
    return (S, k)


def exactly_printable(raw, n):
    """True iff the value has at most n significant decimal digits (cheap sufficient test for 'trivial')"""
    sign, man, exp, bc = raw
    if not man:
        return True
    if exp >= 0:
        if exp > 80:
            return False
        v = int(man) << exp
        return len(str(v).rstrip('0')) <= n
    if -exp > 80:
        return False
    v = int(man) * 5 ** (-exp)
    return len(str(v).rstrip('0')) <= n


def case_of(kind, raw, p, n=None, opts=None, **kw):
    c = {'kind': kind, 'raw': raw, 'prec': p}
    if n is not None:
        c['n'] = n
    if opts:
        c['opts'] = {k: (repr(v) if isinstance(v, float) or not isinstance(v, (int, bool)) else v) for k, v in opts.items()}
    c.update(kw)
    return c


def do_repr(mpm, rec, r, raw, p, vclass):
    """x at precision p (<= p mantissa bits): mpf(literal of repr) and eval(repr) give back x exactly"""
    mp = mpm.mp
    sign, man, exp, bc = raw
    if bc > p:
        raw = Q.round_to(Q.from_raw(raw), p, 'n')
    case = case_of('repr', raw, p)
    old = mp.prec
    mp.prec = p
    try:
        x = mp.make_mpf(raw)
        s = repr(x)
        ok_shape = s.startswith("mpf('") and s.endswith("')")
        back1 = back2 = None
        if ok_shape:
            lit = s[5:-2]
            back1 = mp.mpf(lit)._mpf_
            back2 = eval(s, {'mpf': mp.mpf, 'mpc': mp.mpc})._mpf_
    finally:
        mp.prec = old
    pp = 'huge' if abs(raw[2] + raw[3]) > 3500 else 'exact'
    rec.case(('repr', raw[:3], p), True, cls='repr/%s/print:%s' % (vclass, pp))
    rec.cls('roundtrip-prec/%s' % (p if p <= 128 else '>128'))
    rec.sample(dict(case, repr=s[:80]))
    if not ok_shape:
        rec.violation('C08/repr/shape', "repr is not mpf('...')", case, s[:200], "mpf('<literal>')")
        return
    rec.event('repr round trips compared')
    if back1 != raw or back2 != raw:
        key = roundtrip_key(mpm, p, [raw], [lit], 'repr-roundtrip')
        rec.violation(key, 'parsing repr(x) at the same precision does not give back x', case,
                      {'repr': s[:200], 'mpf(literal)': back1, 'eval': back2}, raw)
        return
    # the repr literal is also a printed literal: parseable
    parseable(rec, lit, case, 'repr')


def do_nstr(mpm, rec, r, raw, p, n, vclass, via):
    mp = mpm.mp
    case = case_of(via, raw, p, n)
    old = mp.prec
    mp.prec = p
    try:
        x = mp.make_mpf(raw)
        if via == 'str':
            n = mp._str_digits
            case['n'] = n
            s = str(x)
        elif via == 'to_str':
            s = mpm.libmp.to_str(raw, n)
        else:
            s = mp.nstr(x, n)
    finally:
        mp.prec = old
    rec.case((via, raw[:3], n), not exactly_printable(raw, n), cls='%s/%s/%s' % (via, vclass, print_path(raw, n)))
    rec.sample(dict(case, printed=s[:80]))
    check_real_print(mpm, rec, raw, s, n, case, via, r)


def gen_opts(r, mpm, moderate):
    o = {}
    k = r.random()
    if r.random() < 0.5:
        o['strip_zeros'] = r.choice([True, False])
    if r.random() < 0.4:
        o['show_zero_exponent'] = r.choice([True, False])
    if k < 0.25 and moderate:
        inf = r.choice([float('inf'), mpm.mp.inf])
        o['min_fixed'] = -inf
        o['max_fixed'] = inf
    elif k < 0.45:
        o['min_fixed'] = 0
        o['max_fixed'] = 0
    elif k < 0.7:
        o['min_fixed'] = r.randint(-25, 3)
        o['max_fixed'] = r.randint(-3, 40)
    elif k < 0.8 and moderate:
        o['min_fixed'] = -r.choice([10, 100, 1000])
    elif k < 0.9 and moderate:
        o['max_fixed'] = r.choice([10, 100, 1000])
    if not o:
        o['strip_zeros'] = False
    return o


def do_opts(mpm, rec, r, raw, p, n, vclass):
    mp = mpm.mp
    moderate = abs(raw[2] + raw[3]) < 4000
    opts = gen_opts(r, mpm, moderate)
    case = case_of('opts', raw, p, n, opts)
    x = mp.make_mpf(raw)
    s0 = mp.nstr(x, n)
    s1 = mp.nstr(x, n, **opts)
    rec.case(('opts', raw[:3], n, sorted(case.get('opts', {}).items())), True,
             cls='opts/%s/%s' % (vclass, '+'.join(sorted(opts))))
    rec.sample(dict(case, plain=s0[:60], with_options=s1[:60]))
    if not parseable(rec, s1, case, 'nstr-options'):
        return
    a, b = X.parse_printed(s0), X.parse_printed(s1)
    if a is None or b is None:
        rec.violation('C08/nstr-options/unexpected-shape', 'printed literal is not digits[.digits][e+-digits]', case, [s0[:200], s1[:200]], None)
        return
    rec.event('option outputs compared with the plain output')
    if norm(a) != norm(b):
        rec.violation('C08/nstr-options/value-changed', 'formatting options changed the printed value', case,
                      {'plain': s0[:200], 'with options': s1[:200]}, 'same parsed value')
        return
    # and the option output itself has at most n significant digits
    if raw[1] and len(str(abs(norm(b)[0]))) > n:
        rec.violation('C08/to_str/more-than-n-digits', 'option output has more than n significant digits', case, s1[:200], None)


def split_complex(s):
    """'(a + bj)' / '(a - bj)' -> (a, sign, b) strings"""
    if not (s.startswith('(') and s.endswith('j)')):
        return None
    body = s[1:-2]
    for sep, sg in ((' + ', ''), (' - ', '-')):
        if sep in body:
            a, b = body.split(sep, 1)
            return a, sg, b
    return None


def do_mpc(mpm, rec, r, raw_re, raw_im, p, n, vclass):
    mp = mpm.mp
    old = mp.prec
    mp.prec = p
    rre = Q.round_to(Q.from_raw(raw_re), p, 'n')
    rim = Q.round_to(Q.from_raw(raw_im), p, 'n')
    case = case_of('mpc', raw_re, p, n, raw_im=raw_im)
    try:
        z = mp.make_mpc((rre, rim))
        rs = repr(z)
        back = eval(rs, {'mpf': mp.mpf, 'mpc': mp.mpc})._mpc_
        zz = mp.make_mpc((raw_re, raw_im))
        if r.random() < 0.5:
            s = mp.nstr(zz, n)
            what = 'nstr-mpc'
        else:
            s = str(zz)
            n = mp._str_digits
            what = 'str-mpc'
            case['n'] = n
    finally:
        mp.prec = old
    rec.case(('mpc', raw_re[:3], raw_im[:3], p, n), True, cls='mpc/%s/%s' % (vclass, what))
    rec.cls('roundtrip-prec/%s' % (p if p <= 128 else '>128'))
    rec.event('repr round trips compared')
    if back != (rre, rim):
        import re as _re
        key = roundtrip_key(mpm, p, [rre, rim], _re.findall(r"'([^']*)'", rs), 'repr-roundtrip-mpc')
        rec.violation(key, 'eval(repr(z)) at the same precision does not give back z', case,
                      {'repr': rs[:300], 'eval': back}, (rre, rim))
    parts = split_complex(s)
    if parts is None:
        rec.violation('C08/%s/unexpected-shape' % what, 'complex not printed as (a +- bj)', case, s[:200], None)
        return
    a, sg, b = parts
    check_real_print(mpm, rec, raw_re, a, n, dict(case, component='re'), what, r)
    imag = raw_im
    if sg == '-':
        # the printed literal is |im| preceded by ' - '
        imag = (1 - raw_im[0],) + tuple(raw_im[1:]) if raw_im[1] else raw_im
        if raw_im[1] and not raw_im[0]:
            rec.violation('C08/%s/sign' % what, 'positive imaginary part printed with a minus sign', case, s[:200], None)
            return
    elif raw_im[1] and raw_im[0] and not b.startswith('-'):
        rec.violation('C08/%s/sign' % what, 'negative imaginary part printed without a minus sign', case, s[:200], None)
        return
    check_real_print(mpm, rec, imag, b, n, dict(case, component='im'), what, r)


def do_special(mpm, rec, r, p, n):
    mp = mpm.mp
    raw = r.choice([Q.finf, Q.fninf, Q.fnan, Q.fzero])
    want = {Q.finf: '+inf', Q.fninf: '-inf', Q.fnan: 'nan', Q.fzero: '0.0'}[raw]
    x = mp.make_mpf(raw)
    opts = gen_opts(r, mpm, True) if r.random() < 0.5 else {}
    outs = {'nstr': mp.nstr(x, n, **opts), 'str': str(x), 'repr': repr(x), 'to_str': mpm.libmp.to_str(raw, n)}
    case = case_of('special', raw, p, n, opts)
    rec.case(('special', raw, n, sorted(case.get('opts', {}).items())), True, cls='special/' + want)
    rec.event('special values printed')
    for k, s in outs.items():
        if raw == Q.fzero:
            if not parseable(rec, s if k != 'repr' else s[5:-2], case, 'zero'):
                continue
            pk = X.parse_printed(s if k != 'repr' else s[5:-2])
            if pk is None or pk[0] != 0:
                rec.violation('C08/zero/' + k, 'zero not printed as a zero literal', case, s, '0.0')
            continue
        exp_s = want if k != 'repr' else "mpf('%s')" % want
        if s != exp_s:
            rec.violation('C08/special/' + k, 'special value not printed as +inf/-inf/nan', case, s, exp_s)
        else:
            lit = want
            try:
                float(lit); decimal.Decimal(lit)
            except Exception as e:
                rec.violation('C08/special/not-parseable', 'float()/Decimal() reject the special literal', case, lit, None)


# ---------------------------------------------------------------------------------------
def run_case(mpm, rec, r, i, shard_no=0):
    kind = KINDS[i % len(KINDS)]
    vclass = VCLASSES[(i // len(KINDS)) % len(VCLASSES)]
    p = G.pick_prec(r, big=(r.random() < 0.15))
    if r.random() < 0.35:
        p = r.choice([53, 53, 24, 64, 113])
    n = pick_n(r, p, mpm)
    if p > 700 and vclass in ('dectie4', 'long'):
        p = r.choice([53, 100, 333])
        n = pick_n(r, p, mpm)
    blk = i // (len(KINDS) * len(VCLASSES))
    if kind in ('repr', 'mpc') and blk % 4 != 3:
        # round trips: every precision 1..128 in turn (the digit-count rule changes with the precision)
        p = 1 + (blk + 9 * shard_no) % 128
        n = pick_n(r, p, mpm)
    if kind == 'special':
        do_special(mpm, rec, r, p, n)
        return
    if kind == 'str':
        n = max(1, int(round(p / 3.3219280948873626) - 1))       # the digit count str() will use; generators aim at it
    raw = gen_value(r, vclass, p, n)
    if raw is None:
        rec.undecided('generator: enclosure could not produce the neighbours of a decimal tie')
        return
    try:
        _dispatch(mpm, rec, r, kind, raw, p, n, vclass)
    except Exception as e:
        # the library raised while printing / re-parsing a finite number
        rec.case((kind, raw[:3], p, n, 'raised'), True, cls='%s/%s/raised' % (kind, vclass))
        rec.violation('C08/%s/exception/%s' % (kind, print_path(raw, n)), 'printing or re-parsing raised %s' % type(e).__name__,
                      case_of(kind, raw, p, n), repr(e)[:300], 'a literal')


def _dispatch(mpm, rec, r, kind, raw, p, n, vclass):
    if kind == 'repr':
        do_repr(mpm, rec, r, raw, p, vclass)
    elif kind == 'nstr':
        do_nstr(mpm, rec, r, raw, p, n, vclass, r.choice(['nstr', 'nstr', 'to_str']))
    elif kind == 'str':
        do_nstr(mpm, rec, r, raw, p, n, vclass, 'str')
    elif kind == 'opts':
        do_opts(mpm, rec, r, raw, p, n, vclass)
    elif kind == 'mpc':
        other = gen_value(r, r.choice(['rand', 'exactdec', 'dectie', 'huge']), p, n) or Q.fzero
        if r.random() < 0.1:
            other = Q.fzero
        if r.random() < 0.5:
            do_mpc(mpm, rec, r, raw, other, p, n, vclass)
        else:
            do_mpc(mpm, rec, r, other, raw, p, n, vclass)


def run_shard(shard, rec):
    mpm = _mp()
    r = G.rng(PROP, shard['seed'], shard['shard'])
    from vf.instrument import AnchorCount
    with AnchorCount(rec, ['mpmath.libmp.libmpf:to_digits_exp', 'mpmath.libmp.libmpf:to_str', 'mpmath.libmp.libmpf:repr_dps',
                           'mpmath.libmp.libmpc:mpc_to_str', 'mpmath.libmp.libmpf:from_str',
                           r'mpmath.libmp.libmpf:to_digits_exp@mpf_pow_int\(ften']):
        for i in range(shard['n']):
            run_case(mpm, rec, r, i, shard['shard'])
    rec.event('printed numbers observed', rec.evals)


def required(agg, tier):
    miss = []
    cl = agg['classes']
    for k in ('repr/', 'nstr/', 'to_str/', 'str/', 'opts/', 'mpc/', 'special/'):
        if not any(c.startswith(k) for c in cl):
            miss.append('no %s case observed' % k)
    for v in set(VCLASSES):
        if not any(c.split('/')[1:2] == [v] for c in cl):
            miss.append('value class %s never observed' % v)
    for q in range(1, 129):
        if not cl.get('roundtrip-prec/%d' % q):
            miss.append('no round trip at precision %d' % q)
    for path in ('huge-exponent-approx-power-of-ten', 'truncation-before-decimal-rounding', 'exact-digits-path'):
        if not any(c.endswith('/' + path) for c in cl):
            miss.append('printing path %s never observed' % path)
    ev = agg['events']
    for e in ('repr round trips compared', 'printed literal compared with the decimal half-way points',
              'option outputs compared with the plain output', 'special values printed', 'twin Fraction oracle consulted'):
        if not ev.get(e):
            miss.append('monitor saw nothing: ' + e)
    for a in ('mpmath.libmp.libmpf:to_digits_exp', 'mpmath.libmp.libmpf:to_str'):
        if a in agg['anchors'] and not agg['anchors'][a]:
            miss.append('anchor %s never reached' % a)
    return miss


def replay(case, rec):
    import random
    from vf.core import unjson_int
    mpm = _mp()
    c = case['case']

    def raw(t):
        return (int(t[0]), unjson_int(t[1]), unjson_int(t[2]), int(t[3]))
    kind = c['kind']
    r = random.Random(0)
    if kind == 'repr':
        do_repr(mpm, rec, r, raw(c['raw']), c['prec'], 'replay')
    elif kind in ('nstr', 'to_str', 'str'):
        do_nstr(mpm, rec, r, raw(c['raw']), c['prec'], c.get('n', 1), 'replay', kind)
    elif kind == 'mpc':
        class R0(object):
            def __init__(self, v): self.v = v
            def random(self): return self.v
        for v in (0.1, 0.9):
            do_mpc(mpm, rec, R0(v), raw(c['raw']), raw(c['raw_im']), c['prec'], c['n'], 'replay')
    else:
        rec.undecided('replay of %s cases re-runs the seeded shard instead' % kind)
