"""C17 -- mathematical constants are accurate at every precision and history.

Observed  : mp.<const>(prec=p, rounding=m) for all five modes, +mp.<const> at context precision p, the interval
            constants iv.<const> (floor/ceiling evaluation) -- at EVERY p in 1..P, in descending order (memo shifts),
            ascending order (recomputation at every growth step) and with the memo reset before every request.
Oracle    : independent integer algorithms of this module (fixed-point Python ints with explicit error bounds):
            pi (Machin), e (sum 1/k!), ln2 / ln10 (atanh series), phi (isqrt), degree (pi/180)  -> correct rounding,
            decidable because the enclosure is refined until both ends round to the same p-bit value;
            euler (harmonic sum - psi asymptotics), catalan, apery (central binomial series), khinchin (zeta series,
            own exp) -> <= 1 ulp and directed results on the correct side;
            glaisher, twinprime, mertens -> consensus (release 1.3.0 at two precisions + tree at 3P+300, all in a
            separate interpreter), tier marked 'consensus' in the evidence.
History   : histories of precision requests (ascending, descending, random, repeated, interleaved, aborted by
            failpoints) in the worker; every value compared bit-for-bit with evaluations in new interpreters
            (vf.history): all probes in two different orders + a sample of probe sets each in its own interpreter.
"""
import math, time
from fractions import Fraction
from vf import exactq as Q
from vf import gens as G
from vf import history as H

PROP = 'C17'
LEVEL = 'exploration'
NEEDS_REF = True
RULE = ('sweep: every (constant, p in 1..P, rounding mode, route, request order); a case is non-trivial always (every '
        'constant is irrational, every evaluation rounds); distinct = distinct (constant, p, mode, route, pass). '
        'history: seeded histories of precision requests; case = one step value compared with new-interpreter values; '
        'distinct = distinct (history id, step)')
ASSUMPTIONS = ['the integer algorithms of vf/props/C17.py (Machin pi, series for e / atanh / central-binomial sums / psi '
               'asymptotics / zeta series with tail bounds as commented there) and exactq.round_to are correct; they were '
               'cross-checked against release 1.3.0 at three precisions (selftest)',
               'glaisher, twinprime, mertens: reference = value on which release 1.3.0 (two precisions) and the tree at '
               '3P+300 bits agree to 2^-(P+32): consensus tier, not rigorous',
               'twinprime is covered up to p = 300 (quick) / 700 (thorough), mertens up to 600 / 1500, glaisher up to 1200 / 3000: one '
               'evaluation of twinprime at 4000 bits costs 450 s and the consensus reference needs the tree at 3P+300 bits',
               'memo reset between requests (third pass) is emulated by setting memo_prec = -1 on the constant_memo '
               'closures found at run time; new-interpreter evaluations are real']
LEVEL_TEXT = ('exploration: every precision 1..1200 (quick) / 1..4000 (thorough) x 5 rounding modes x 3 call routes x 3 '
              'request orders for 13 constants decided by independent integer enclosures (6 correctly rounded, 4 within '
              '1 ulp) or consensus (3); plus seeded request histories with injected aborts compared bit-for-bit with '
              'evaluations in new interpreters')
LEVEL_NOTE = ('trusted base: integer series code in C17.py + exactq; consensus tier for glaisher/twinprime/mertens; '
              'precisions above P and histories not generated are not covered')
TECHNIQUE = 'runtime reference-model monitor over exhaustive precision sweeps + history replay against fresh processes'
SHARD_TIMEOUT = {'quick': 600, 'thorough': 2400}

CR = ['pi', 'e', 'ln2', 'ln10', 'phi', 'degree']
ULP_OWN = ['euler', 'catalan', 'apery', 'khinchin']
ULP_CONS = ['glaisher', 'twinprime', 'mertens']
ALL = CR + ULP_OWN + ULP_CONS
IV_NAMES = ['pi', 'e', 'ln2', 'ln10', 'phi', 'euler', 'catalan', 'glaisher', 'khinchin', 'twinprime']
PMAX = {'quick': 1200, 'thorough': 4000}
PCAP = {'quick': {'twinprime': 300, 'mertens': 600}, 'thorough': {'twinprime': 700, 'mertens': 1500, 'glaisher': 3000}}
MODES = ('n', 'f', 'c', 'd', 'u')


# =======================================================================================
# Independent integer oracles.  Every function returns (lo, hi): integers with
#       lo <= constant * 2^W <= hi          (rigorous; each bound is derived in the comments)
# =======================================================================================

def _atan_inv(q, W):
    """atan(1/q) = sum_{k>=0} (-1)^k / ((2k+1) q^(2k+1)), q >= 2 integer.
    Every term is floor-divided: true term in [fl, fl+1).  Alternating with decreasing terms => the remainder after
    stopping is bounded in magnitude by the first omitted term, which is < 1 unit when its floor is 0."""
    one = 1 << W
    pw = q
    q2 = q * q
    pos = neg = 0
    npos = nneg = 0
    k = 0
    while True:
        t = one // ((2 * k + 1) * pw)
        if t == 0:
            break
        if k & 1:
            neg += t; nneg += 1
        else:
            pos += t; npos += 1
        pw *= q2
        k += 1
    # pos_true in [pos, pos+npos], neg_true in [neg, neg+nneg], |remainder| < 1
    return pos - neg - nneg - 1, pos + npos - neg + 1


def _atanh_inv(q, W):
    """atanh(1/q) = sum_{k>=0} 1 / ((2k+1) q^(2k+1)), q >= 3.  All terms positive; the remainder after N terms is
    < term_N / (1 - q^-2) <= 9/8 term_N < 2 units once floor(term_N) == 0."""
    one = 1 << W
    pw = q
    q2 = q * q
    s = n = 0
    k = 0
    while True:
        t = one // ((2 * k + 1) * pw)
        if t == 0:
            break
        s += t; n += 1
        pw *= q2
        k += 1
    return s, s + n + 2


def o_pi(W):
    """Machin: pi = 16 atan(1/5) - 4 atan(1/239)"""
    a_lo, a_hi = _atan_inv(5, W)
    b_lo, b_hi = _atan_inv(239, W)
    return 16 * a_lo - 4 * b_hi, 16 * a_hi - 4 * b_lo


def o_e(W):
    """e = sum_{k>=0} 1/k!; floor terms (error < 1 each); remainder after k = N is < 2/(N+1)! < 2 units when
    floor(2^W/(N+1)!) == 0."""
    one = 1 << W
    f = 1
    s = n = 0
    k = 0
    while True:
        t = one // f
        if t == 0:
            break
        s += t; n += 1
        k += 1
        f *= k
    return s, s + n + 2


def o_ln2(W):
    lo, hi = _atanh_inv(3, W)           # ln 2 = 2 atanh(1/3)
    return 2 * lo, 2 * hi


def o_ln10(W):
    """ln 10 = 3 ln 2 + ln(5/4) = 6 atanh(1/3) + 2 atanh(1/9)"""
    a_lo, a_hi = _atanh_inv(3, W)
    b_lo, b_hi = _atanh_inv(9, W)
    return 6 * a_lo + 2 * b_lo, 6 * a_hi + 2 * b_hi


def o_phi(W):
    """phi = (1 + sqrt 5)/2;  isqrt(5 * 4^W) <= sqrt5 * 2^W < isqrt + 1"""
    s = math.isqrt(5 << (2 * W))
    one = 1 << W
    return (one + s) >> 1, (one + s + 2) >> 1


def o_degree(W):
    lo, hi = o_pi(W)
    return lo // 180, -((-hi) // 180)


# ---- small interval helpers on non-negative fixed-point enclosures -----------------------------

def _imul(a, b, W):
    """product of two non-negative enclosures at scale 2^-W"""
    return (a[0] * b[0]) >> W, -((-(a[1] * b[1])) >> W)


def _idiv(a, b, W):
    """a / b for non-negative a and positive b"""
    return (a[0] << W) // b[1], -((-(a[1] << W)) // b[0])


def _isqrt_int(n, W):
    """sqrt(n) for a positive integer n"""
    s = math.isqrt(n << (2 * W))
    return s, s + 1


def o_apery(W):
    """zeta(3) = (5/2) sum_{k>=1} (-1)^(k-1) / (k^3 C(2k,k))   (alternating, strictly decreasing terms).
    Floor terms; |remainder| < first omitted term < 1 unit."""
    one = 1 << W
    c = 2                    # C(2k,k) for k = 1
    pos = neg = npos = nneg = 0
    k = 1
    while True:
        t = one // (k * k * k * c)
        if t == 0:
            break
        if k & 1:
            pos += t; npos += 1
        else:
            neg += t; nneg += 1
        c = c * 2 * (2 * k + 1) // (k + 1)          # exact: C(2k+2,k+1) = C(2k,k) * 2(2k+1)/(k+1)
        k += 1
    lo, hi = pos - neg - nneg - 1, pos + npos - neg + 1
    return (5 * lo) >> 1, -((-5 * hi) >> 1)


def o_catalan(W):
    """G = (pi sqrt3 / 12) T + (3/8) U,   T = sum_{k>=0} 1/((2k+1) 3^k)  [ (2/sqrt3) T = 2 atanh(1/sqrt3) = ln(2+sqrt3) ],
    U = sum_{k>=0} 1/((2k+1)^2 C(2k,k)).
    T: term ratio < 1/3  => remainder < 1.5 term_N < 2 units;   U: term ratio < 1/4 => remainder < (4/3) term_N < 2."""
    Wi = W + 16
    one = 1 << Wi
    s = n = 0
    pw = 1
    k = 0
    while True:
        t = one // ((2 * k + 1) * pw)
        if t == 0:
            break
        s += t; n += 1
        pw *= 3
        k += 1
    T = (s, s + n + 2)
    s = n = 0
    c = 1
    k = 0
    while True:
        t = one // ((2 * k + 1) ** 2 * c)
        if t == 0:
            break
        s += t; n += 1
        c = c * 2 * (2 * k + 1) // (k + 1)
        k += 1
    U = (s, s + n + 2)
    pi = o_pi(Wi)
    r3 = _isqrt_int(3, Wi)
    a = _imul(_imul(pi, r3, Wi), T, Wi)
    lo = a[0] // 12 + (3 * U[0]) // 8
    hi = -((-a[1]) // 12) + -((-3 * U[1]) // 8)
    return lo >> 16, -((-hi) >> 16)


def tangent_numbers(n):
    """T_1..T_n (1, 2, 16, 272, ...) by the Knuth-Buckholtz recurrence (exact integers); returns list with T[k]."""
    T = [0] * (n + 1)
    T[1] = 1
    for k in range(2, n + 1):
        T[k] = (k - 1) * T[k - 1]
    for k in range(2, n + 1):
        for j in range(k, n + 1):
            T[j] = (j - k) * T[j - 1] + (j - k + 2) * T[j]
    return T


def abs_bernoulli_even(T, k):
    """|B_2k| = 2k T_k / (4^k (4^k - 1)) as an exact Fraction"""
    return Fraction(2 * k * T[k], (1 << (2 * k)) * ((1 << (2 * k)) - 1))


def o_euler(W):
    """gamma = H_{N-1} - psi(N),  psi(N) = ln N - 1/(2N) - sum_{k=1}^{M} B_2k/(2k N^2k) - R_M,
    |R_M| <= |B_{2M+2}| / ((2M+2) N^(2M+2))  (real positive argument: remainder bounded by the first omitted term).
    N = 2^m (ln N = m ln 2 from o_ln2) with N >= W/8 + 64 so that the smallest term e^(-2 pi N) is far below 2^-W."""
    Wi = W + 32
    one = 1 << Wi
    m = max(4, (W // 8 + 64 - 1).bit_length())
    N = 1 << m
    # harmonic number H_{N-1}: floor terms
    s = 0
    for k in range(1, N):
        s += one // k
    Hn = (s, s + N - 1)
    ln2 = o_ln2(Wi)
    lnN = (m * ln2[0], m * ln2[1])
    half = (one // (2 * N), one // (2 * N) + 1)
    # Bernoulli series: terms b_k = |B_2k| / (2k N^2k), signs (-1)^(k-1)
    est = int(0.12 * W) + 40
    T = tangent_numbers(est)
    pos = neg = npos = nneg = 0
    k = 1
    last = None
    while True:
        if k > est:
            est *= 2
            T = tangent_numbers(est)
        # b_k = T_k / (4^k (4^k-1) N^2k)
        den = (1 << (2 * k)) * ((1 << (2 * k)) - 1) << (2 * k * m)
        t = (T[k] << Wi) // den
        if last is not None and t >= last and t > 0:
            raise ArithmeticError('psi asymptotic series started to diverge before reaching 2^-W')
        if t == 0:
            break                       # first omitted term < 1 unit  => |R| < 1
        if k & 1:
            pos += t; npos += 1
        else:
            neg += t; nneg += 1
        last = t
        k += 1
    # sum_k B_2k/(2k N^2k) = pos_true - neg_true
    B_lo, B_hi = pos - neg - nneg - 1, pos + npos - neg + 1
    # psi = lnN - half - Bsum ;   gamma = Hn - lnN + half + Bsum
    lo = Hn[0] - lnN[1] + half[0] + B_lo
    hi = Hn[1] - lnN[0] + half[1] + B_hi
    return lo >> 32, -((-hi) >> 32)


def _iexp(x, W):
    """exp of a non-negative enclosure x (scale 2^-W, x < 4): argument halving r times, Taylor with positive terms
    (remainder after the term < 1 unit: since y < 2^-r the ratio of consecutive terms is < 1/2 => remainder < 2 units),
    then r squarings in interval arithmetic."""
    r = 24
    y = (x[0] >> r, -((-x[1]) >> r))
    one = 1 << W
    res = []
    for yy, up in ((y[0], False), (y[1], True)):
        s = one
        t = one
        k = 1
        n = 0
        while True:
            t = (t * yy) >> W
            if up:
                t += 1
            t = t // k + (1 if up else 0)
            if t <= (1 if up else 0):
                break
            s += t
            k += 1
            n += 1
        res.append(s + (k + 4 if up else 0))
    v = (res[0], res[1])
    for _ in range(r):
        v = _imul(v, v, W)
    return v


def o_khinchin(W):
    """ln K0 = (1/ln 2) sum_{n>=1} (zeta(2n)-1)/n * A_n,   A_n = sum_{k=1}^{2n-1} (-1)^(k+1)/k  in (ln 2, 1].
    zeta(2n) - 1:  n < n0 from |B_2n| (2 pi)^2n / (2 (2n)!) with pi powers in interval arithmetic,
                   n >= n0 by direct summation sum_{m=2}^{M} m^-2n + tail, tail < M^(1-2n)/(2n-1).
    Series tail: 0 < zeta(2n)-1 <= 2*4^-n (n >= 2), A_n <= 1  =>  sum_{n>=Nmax} <= (8/(3 Nmax)) 4^-Nmax."""
    Wi = W + 96
    one = 1 << Wi
    n0 = 60 if W < 2000 else 150
    Nmax = Wi // 2 + 8
    T = tangent_numbers(n0)
    pi = o_pi(Wi)
    pi2 = _imul(pi, pi, Wi)
    fourpi2 = (4 * pi2[0], 4 * pi2[1])
    pw = (one, one)
    fact = 1
    S_lo = S_hi = 0
    # A_n as exact-ish enclosure: accumulate with floor terms
    a_pos = a_neg = 0        # sums of floors of 1/k for odd / even k
    a_npos = a_nneg = 0
    kk = 0
    for n in range(1, Nmax):
        # extend A_n to k = 2n-1
        while kk < 2 * n - 1:
            kk += 1
            if kk & 1:
                a_pos += one // kk; a_npos += 1
            else:
                a_neg += one // kk; a_nneg += 1
        A = (a_pos - a_neg - a_nneg, a_pos + a_npos - a_neg)
        if n < n0:
            pw = _imul(pw, fourpi2, Wi)             # (2 pi)^(2n)
            fact *= (2 * n - 1) * (2 * n)           # (2n)!
            # zeta(2n) = |B_2n| (2pi)^2n / (2 (2n)!) ,  |B_2n| = 2n T_n/(4^n(4^n-1))
            num = 2 * n * T[n]
            den = (1 << (2 * n)) * ((1 << (2 * n)) - 1) * 2 * fact
            z_lo = (pw[0] * num) // den
            z_hi = -((-(pw[1] * num)) // den)
            zm1 = (z_lo - one, z_hi - one)
            if zm1[0] < 0:
                zm1 = (0, zm1[1])
        else:
            s = cnt = 0
            m = 2
            while True:
                t = one // (m ** (2 * n))
                if t == 0:
                    break
                s += t; cnt += 1
                m += 1
            # omitted: sum_{j>=m} j^-2n < (m-1)^(1-2n)/(2n-1) <= m^-2n * m * (m/(m-1))^(2n-1) / (2n-1)  -- bounded crudely:
            # since floor(2^Wi m^-2n) == 0 the first omitted term is < 1 unit and terms decay at least like (m/(m+1))^2n;
            # sum_{j>=m} j^-2n <= m^-2n + integral_m^inf x^-2n dx = m^-2n (1 + m/(2n-1)) < 1 + m/(2n-1) units
            tail = 2 + m // (2 * n - 1)
            zm1 = (s, s + cnt + tail)
        term = _imul(zm1, A, Wi)
        S_lo += term[0] // n
        S_hi += -((-term[1]) // n)
    # tail of the outer series: (8/(3 Nmax)) 4^-Nmax  < 1 unit because 4^-Nmax < 2^-Wi
    S_hi += 1
    ln2 = o_ln2(Wi)
    x = _idiv((S_lo, S_hi), ln2, Wi)
    K = _iexp(x, Wi)
    return K[0] >> 96, -((-K[1]) >> 96)


ORACLES = {'pi': o_pi, 'e': o_e, 'ln2': o_ln2, 'ln10': o_ln10, 'phi': o_phi, 'degree': o_degree,
           'apery': o_apery, 'catalan': o_catalan, 'euler': o_euler, 'khinchin': o_khinchin}


def enclosure(name, W):
    """(lo, hi) at scale 2^-W, a few units wide: the series are run with 24 extra bits and shifted down"""
    lo, hi = ORACLES[name](W + 24)
    return lo >> 24, -((-hi) >> 24)


def selftest(precs=(90, 700, 1500)):
    """cross-check of the integer oracles against release 1.3.0 (returns list of problems)"""
    from vf import refmodel
    rmp = refmodel.ref().mp
    bad = []
    old = rmp.prec
    try:
        for W in precs:
            rmp.prec = W + 80
            for name in ORACLES:
                lo, hi = enclosure(name, W)
                x = int(rmp.floor(rmp.ldexp(+getattr(rmp, name), W)))
                if not (lo - 1 <= x <= hi) or hi - lo > 8:
                    bad.append((name, W, hi - lo, x - lo))
    finally:
        rmp.prec = old
    return bad


# =======================================================================================
# reference objects and verdicts
# =======================================================================================

class Ref(object):
    """enclosure lo <= c 2^W <= hi of a positive constant; tier 'integer-enclosure' or 'consensus'"""

    def __init__(self, name, W, lo, hi, tier):
        self.name, self.W, self.lo, self.hi, self.tier = name, W, lo, hi, tier
        self.top = lo.bit_length() - 1 - W            # exponent of the leading bit of c
        self.samebin = (hi.bit_length() == lo.bit_length())

    def cr(self, p, mode):
        a = Q.round_to(Q.Ex(self.lo, 1, -self.W), p, mode)
        b = Q.round_to(Q.Ex(self.hi, 1, -self.W), p, mode)
        return a if a == b else None

    def ulp(self, raw, p, mode):
        """-> (verdict 'held'|'violated'|'undecided', what, error in ulps (float))
        |v - c| <= 1 ulp with ulp = 2^(max(top(c), top(v)) - p + 1)  (the lenient reading at binade boundaries);
        for mode f: v <= c, for mode c: v >= c."""
        s, m, e, bc = raw
        if s or not m or not self.samebin:
            return ('violated' if (s or not m) else 'undecided'), 'sign/zero', float('inf')
        tv = e + bc - 1
        ue = max(tv, self.top) - p + 1
        S = max(self.W, -e, -ue)
        V = m << (e + S)
        LO = self.lo << (S - self.W)
        HI = self.hi << (S - self.W)
        U = 1 << (ue + S)
        err = max(abs(V - LO), abs(V - HI))
        errf = err / U if err < (U << 40) else float('inf')
        if V - HI > U or LO - V > U:
            return 'violated', 'more than 1 ulp from the constant', errf
        if mode == 'f' and V > HI:
            return 'violated', 'floor-rounded value above the constant', errf
        if mode == 'c' and V < LO:
            return 'violated', 'ceiling-rounded value below the constant', errf
        ok = (V - LO <= U and HI - V <= U)
        if mode == 'f':
            ok = ok and V <= LO
        if mode == 'c':
            ok = ok and V >= HI
        return ('held' if ok else 'undecided'), '', errf

    def side(self, raw):
        """-1 below, +1 above, 0 undecided (for notes on modes d/u)"""
        s, m, e, bc = raw
        S = max(self.W, -e)
        V = m << (e + S)
        if V <= self.lo << (S - self.W):
            return -1
        if V >= self.hi << (S - self.W):
            return 1
        return 0


def ref_consensus_probe(probe):
    """evaluated in a separate interpreter: release at P+64 and 2P+200 bits, tree at 3P+300 bits"""
    import mpmath
    from vf import refmodel
    rmp = refmodel.ref().mp
    name, P = probe['c'], probe['P']
    r_lo = getattr(rmp, name)(prec=P + 64)
    r_hi = getattr(rmp, name)(prec=2 * P + 200)
    t_hi = getattr(mpmath.mp, name)(prec=3 * P + 300)
    return [r_lo, r_hi, t_hi]


def _raw_fixed(raw, W):
    s, m, e, bc = raw
    assert not s and m
    return (m << (e + W)) if e + W >= 0 else (m >> -(e + W))


def make_ref(name, P, rec, timeout=1200):
    """reference enclosure good for every p <= P"""
    W = P + 64
    if name in ORACLES:
        lo, hi = enclosure(name, W)
        return Ref(name, W, lo, hi, 'integer-enclosure')
    res = H.fresh_isolated('vf.props.C17:ref_consensus_probe', [[{'c': name, 'P': P}]], timeout=timeout)[0]
    rec.event('consensus reference computed in a separate interpreter')
    if isinstance(res, tuple) or H.is_exc(res[0]):
        rec.note('consensus-reference-failure', {'c': name, 'P': P, 'why': str(res)[:300]})
        return None
    r_lo, r_hi, t_hi = [H.dec_raw(x) for x in res[0][1:]]
    a, b, c = _raw_fixed(r_lo, W + 8), _raw_fixed(r_hi, W + 8), _raw_fixed(t_hi, W + 8)
    tol = (b >> (P + 32)) + 1
    if abs(a - b) > tol or abs(c - b) > tol:
        rec.note('consensus-reference-conflict', {'c': name, 'P': P, 'R1lo-R1hi (in tolerances)': min(abs(a - b) // tol, 10**9),
                                                  'tree-R1hi (in tolerances)': min(abs(c - b) // tol, 10**9)})
        return None
    rad = tol + 2
    return Ref(name, W, (b - rad) >> 8, ((b + rad) >> 8) + 1, 'consensus')


# =======================================================================================
# evaluation routes (the real code)
# =======================================================================================

def _libs():
    import mpmath
    return mpmath.mp, mpmath.iv


def eval_probe(probe):
    """one evaluation; returns an mpf (call / pos) or an interval mpf (iv)"""
    mp, iv = _libs()
    name, p, mode, route = probe['c'], probe['p'], probe.get('m', 'n'), probe.get('r', 'call')
    if route == 'call':
        return getattr(mp, name)(prec=p, rounding=mode)
    if route == 'pos':
        old = mp.prec
        mp.prec = p
        try:
            return +getattr(mp, name)
        finally:
            mp.prec = old
    if route == 'iv':
        old = iv.prec
        iv.prec = p
        try:
            return iv.make_mpf(getattr(iv, name)._mpi_)
        finally:
            iv.prec = old
    raise ValueError(route)


def memo_functions():
    """the inner functions (carrying memo_prec / memo_val) of all constant_memo wrappers, found at run time"""
    import importlib, types
    out = []
    for mn in ('mpmath.libmp.libelefun', 'mpmath.libmp.gammazeta'):
        mod = importlib.import_module(mn)
        for k, v in vars(mod).items():
            if isinstance(v, types.FunctionType) and v.__closure__:
                for cell in v.__closure__:
                    try:
                        f = cell.cell_contents
                    except ValueError:
                        continue
                    if isinstance(f, types.FunctionType) and hasattr(f, 'memo_prec') and f not in out:
                        out.append(f)
    return out


def reset_memos(fs):
    for f in fs:
        f.memo_prec = -1
        f.memo_val = None


# =======================================================================================
# sweep shards
# =======================================================================================

def classify(name, route, mode, what):
    grp = 'correct-rounding' if name in CR else 'one-ulp'
    return 'C17/%s/%s/%s' % (grp, name, 'directed-side' if 'rounded value' in what else 'value')


def check_value(rec, ref, name, p, mode, route, pas, raw, stats):
    ident = (name, p, mode, route, pas)
    case = {'kind': 'sweep', 'c': name, 'p': p, 'm': mode, 'r': route, 'pass': pas, 'tier': ref.tier}
    rec.case(ident, True, cls='%s/%s/%s/%s' % (name, pas, route, mode))
    if name in CR:
        want = ref.cr(p, mode)
        rr = ref
        while want is None and rr.tier == 'integer-enclosure' and rr.W < 8 * ref.W:
            # the enclosure straddles a rounding boundary: refine it (twice the bits) until it excludes the boundary
            if getattr(rr, 'deeper', None) is None:
                lo, hi = enclosure(name, 2 * rr.W)
                rr.deeper = Ref(name, 2 * rr.W, lo, hi, rr.tier)
                rec.event('enclosure refinements')
            rr = rr.deeper
            want = rr.cr(p, mode)
        if want is None:
            stats['refine'].append((p, mode))
            rec.undecided('enclosure does not exclude the rounding boundary (refinement capped)', case)
            return
        if tuple(raw) != want:
            rec.violation('C17/correct-rounding/%s' % name, '%s not correctly rounded at prec %d mode %s (%s, %s pass)'
                          % (name, p, mode, route, pas), case, observed=raw, expected=want)
        return
    verdict, what, err = ref.ulp(tuple(raw), p, mode)
    if err == err and err != float('inf'):
        rec.maximum('error in ulps: ' + name, err, case)
    if verdict == 'violated':
        key = 'C17/one-ulp/%s/%s' % (name, 'directed-side' if 'rounded value' in what else 'value')
        rec.violation(key, '%s: %s (prec %d mode %s, %s, %s pass, oracle tier %s)' % (name, what, p, mode, route, pas, ref.tier),
                      case, observed=raw, expected={'enclosure_scale': ref.W, 'lo': ref.lo, 'hi': ref.hi}, severity=err)
    elif verdict == 'undecided':
        rec.undecided('value within the enclosure width of the 1-ulp / side boundary', case)
    elif mode in ('d', 'u'):
        sd = ref.side(tuple(raw))
        if (mode == 'd' and sd > 0) or (mode == 'u' and sd < 0):
            rec.note('modes d/u on the other side (observed, not asserted)', case)


def sweep_constant(rec, name, P, ref, passes, reset_ps, fs, budget=None):
    mp, iv = _libs()
    stats = {'refine': []}
    routes = ['call', 'pos'] + (['iv'] if name in IV_NAMES else [])
    t_cap = time.time() + budget if budget else None
    for pas in passes:
        if pas == 'asc':
            ps = range(1, P + 1)
        elif pas == 'desc':
            ps = range(P, 0, -1)
        else:
            ps = reset_ps
        if fs and pas in ('asc', 'desc'):
            reset_memos(fs)                       # every pass starts from an empty memo
        for ip, p in enumerate(ps):
            if pas == 'reset' and t_cap and ip >= 8 and time.time() > t_cap:
                rec.note('memo-reset sample cut short by the time cap', {'c': name, 'done': ip, 'of': len(ps)})
                break
            for route in routes:
                modes = MODES if route == 'call' else (('n',) if route == 'pos' else ('iv',))
                for mode in modes:
                    if pas == 'reset':
                        reset_memos(fs)
                    probe = {'c': name, 'p': p, 'm': mode, 'r': route}
                    try:
                        v = eval_probe(probe)
                    except Exception as e:
                        rec.case((name, p, mode, route, pas), True, cls='%s/%s/%s/%s' % (name, pas, route, mode))
                        rec.violation('C17/exception/%s' % name, '%s raised %s at prec %d (%s, %s pass)'
                                      % (name, type(e).__name__, p, route, pas),
                                      {'kind': 'sweep', 'c': name, 'p': p, 'm': mode, 'r': route, 'pass': pas},
                                      observed=repr(e)[:200], expected='a value')
                        continue
                    if route == 'iv':
                        a, b = v._mpi_
                        check_value(rec, ref, name, p, 'f', 'iv', pas, a, stats)
                        check_value(rec, ref, name, p, 'c', 'iv', pas, b, stats)
                    else:
                        check_value(rec, ref, name, p, mode, route, pas, v._mpf_, stats)
    return stats


class FixedTap(object):
    """Observed, NOT asserted (the statement speaks about the mpf values only): how far the fixed-point values handed out
    by the constant_memo wrappers are from floor(c 2^prec).  The maxima go to the evidence; they make visible what the
    20 guard bits of def_mpf_constant hide from the mpf level (e.g. a memo without head-room, fewer guard bits inside a
    fixed-point routine, a rounding instead of a truncating memo shift)."""
    NAMES = {'pi_fixed': 'pi', 'e_fixed': 'e', 'ln2_fixed': 'ln2', 'ln10_fixed': 'ln10', 'phi_fixed': 'phi',
             'euler_fixed': 'euler', 'catalan_fixed': 'catalan', 'apery_fixed': 'apery', 'khinchin_fixed': 'khinchin'}

    def __init__(self, rec, refs):
        from vf import instrument as I
        self.rec, self.refs = rec, refs
        self.open = {}
        g = I.resolve('mpmath.libmp.libelefun:pi_fixed')
        self.tap = I.ReturnTap({g.__code__: 'g'} if g is not None else {}, self.on_return, self.on_start)
        self.n = 0

    def __enter__(self):
        self.tap.install()
        return self

    def __exit__(self, *a):
        self.tap.uninstall()
        self.rec.event('fixed-point values observed at the constant_memo wrapper', self.n)
        return False

    def on_start(self, name, code, loc):
        import sys
        f = loc.get('f')
        self.open[id(sys._getframe(2))] = (getattr(f, '__name__', None), loc.get('prec'))

    def on_return(self, name, code, ret):
        import sys
        info = self.open.pop(id(sys._getframe(2)), None)
        if not info:
            return
        cname = self.NAMES.get(info[0])
        ref = self.refs.get(cname)
        prec = info[1]
        if ref is None or not isinstance(ret, int) or not isinstance(prec, int) or prec > ref.W - 8:
            return
        self.n += 1
        sh = ref.W - prec
        fl = ref.lo >> sh
        if fl != (ref.hi >> sh):
            return
        dev = abs(ret - fl)
        self.rec.maximum('observed, not asserted: |%s_fixed(prec) - floor(%s 2^prec)| in units' % (cname, cname), dev, {'prec': prec})
        if dev:
            self.rec.event('observed, not asserted: fixed-point value that is not the true floor')


ANCHORS = ['mpmath.libmp.libelefun:pi_fixed',                                  # the shared constant_memo wrapper g
           r'mpmath.libmp.libelefun:pi_fixed@return f\.memo_val >> \(memo_prec-prec\)',     # memo hit
           r'mpmath.libmp.libelefun:pi_fixed@f\.memo_val = f\(newprec',                     # memo miss (recomputation)
           'mpmath.libmp.libelefun:mpf_pi',                                    # the shared def_mpf_constant body
           r'mpmath.libmp.libelefun:mpf_pi@v \+= 1',                           # ceiling adjustment
           'mpmath.ctx_iv:ivmpf_constant._get_mpi_']

SWEEP_GROUPS = [['pi', 'e', 'ln2'], ['ln10', 'phi', 'degree'], ['euler'], ['catalan', 'apery'],
                ['khinchin'], ['glaisher'], ['mertens'], ['twinprime']]
CHEAP = CR + ['euler', 'catalan', 'apery']
N_HISTORY_SHARDS = 8


def shards(tier, seed):
    out = [{'kind': 'sweep', 'names': g} for g in SWEEP_GROUPS]
    out += [{'kind': 'history', 'idx': i} for i in range(N_HISTORY_SHARDS)]
    return out


def run_sweep(shard, rec):
    from vf.instrument import AnchorCount
    tier = shard['tier']
    r = G.rng(PROP, shard['seed'], shard['shard'])
    fs = memo_functions()
    if not fs:
        rec.note('memo reset unavailable', 'no constant_memo closure with memo_prec found; reset pass skipped')
    fixed_refs = {}
    with AnchorCount(rec, ANCHORS), FixedTap(rec, fixed_refs):
        for name in shard['names']:
            P = min(PMAX[tier], PCAP[tier].get(name, 10**9))
            t0 = time.time()
            ref = make_ref(name, P, rec)
            rec.note('reference', {'c': name, 'P': P, 'tier': ref.tier if ref else None, 'seconds': round(time.time() - t0, 2),
                                   'enclosure_width_units_at_P+64_bits': (ref.hi - ref.lo) if ref else None})
            if ref is None:
                rec.undecided('no consensus reference for ' + name, {'c': name, 'P': P})
                continue
            if ref.tier == 'integer-enclosure':
                fixed_refs[name] = ref
                if name == 'degree':
                    fixed_refs['pi'] = make_ref('pi', P, rec)
            if name in CHEAP:
                reset_ps = list(range(1, P + 1))
            else:
                # memo-reset pass on a seeded sample (one evaluation at P costs seconds to minutes)
                n = 24 if tier == 'quick' else 40
                cap = P if name != 'twinprime' else min(P, 500)
                reset_ps = sorted(set([1, 2, 3, 24, 53, 64] + [r.randint(4, cap) for _ in range(n)]))
            passes = ['asc', 'desc'] + (['reset'] if fs else [])
            st = sweep_constant(rec, name, P, ref, passes, reset_ps, fs,
                                budget=None if name in CHEAP else 0.25 * SHARD_TIMEOUT[tier])
            rec.event('constants swept (every p in 1..P)')
            rec.note('sweep', {'c': name, 'P': P, 'seconds': round(time.time() - t0, 2), 'oracle': ref.tier})
    rec.event('values compared with the reference', rec.evals)


# =======================================================================================
# history shards
# =======================================================================================

PATTERNS = ['asc', 'desc', 'random', 'repeated', 'interleaved', 'zigzag', 'aborts']
HIST_PCAP = {'khinchin': 500, 'glaisher': 500, 'mertens': 400, 'twinprime': 160}
_fp_codes = None


def failpoint_codes():
    global _fp_codes
    if _fp_codes is None:
        _fp_codes = H.module_codes(['mpmath.libmp.libelefun', 'mpmath.libmp.gammazeta', 'mpmath.libmp.libintmath'])
    return _fp_codes


def run_step(step):
    """history step executor (also used inside new interpreters for clean-state histories)"""
    if 'abort' in step:
        st = H.aborted_call(failpoint_codes(), step['abort'], lambda: eval_probe(step))
        return ['abort-step', st[0], str(st[1])]
    return eval_probe(step)


def gen_history(r, P, hid):
    pat = PATTERNS[hid % len(PATTERNS)]
    n = r.choice([5, 8, 12, 20, 40, 80, 200]) if r.random() < 0.8 else r.randint(5, 200)
    k = 1 if pat in ('asc', 'desc', 'repeated') and r.random() < 0.5 else r.randint(2, 4)
    pool = CHEAP if r.random() < 0.75 else ALL
    names = [r.choice(pool) for _ in range(k)]

    def cap(nm):
        return min(P, HIST_PCAP.get(nm, P))

    def rp(nm):
        x = r.random()
        c = cap(nm)
        if x < 0.3:
            return r.randint(1, min(c, 70))
        if x < 0.5:
            return min(c, r.choice(G.PRECS_CORE + G.PRECS_THRESH))
        return r.randint(1, c)

    def rm():
        return r.choice(MODES)

    def rroute(nm):
        x = r.random()
        if x < 0.7:
            return 'call'
        if x < 0.85 or nm not in IV_NAMES:
            return 'pos'
        return 'iv'
    steps = []
    if pat in ('asc', 'desc'):
        ps = sorted(rp(names[0]) for _ in range(n))
        if pat == 'desc':
            ps.reverse()
        for i, p in enumerate(ps):
            nm = names[i % len(names)]
            steps.append({'c': nm, 'p': min(p, cap(nm)), 'm': rm(), 'r': rroute(nm)})
    elif pat == 'repeated':
        base = [rp(names[0]) for _ in range(r.randint(1, 3))]
        for i in range(n):
            nm = names[i % len(names)]
            steps.append({'c': nm, 'p': min(r.choice(base), cap(nm)), 'm': rm(), 'r': rroute(nm)})
    elif pat == 'zigzag':
        lo, hi = r.randint(1, 40), None
        for i in range(n):
            nm = names[i % len(names)]
            c = cap(nm)
            p = r.randint(1, min(60, c)) if i & 1 else r.randint(max(1, c // 2), c)
            steps.append({'c': nm, 'p': p, 'm': rm(), 'r': rroute(nm)})
    else:
        for i in range(n):
            nm = r.choice(names)
            steps.append({'c': nm, 'p': rp(nm), 'm': rm(), 'r': rroute(nm)})
    if pat == 'aborts' or r.random() < 0.25:
        # aborted computations: a request above everything seen so far (forces recomputation), killed at its k-th call
        top = {}
        out = []
        for s in steps:
            if r.random() < (0.3 if pat == 'aborts' else 0.08):
                nm = s['c']
                p = min(cap(nm), max(top.get(nm, 0), s['p']) + r.choice([1, 7, 40, 200]))
                out.append({'abort': r.choice([1, 2, 3, 5, 8, 13, 30, 80, 300]), 'c': nm, 'p': p, 'm': rm(), 'r': 'call'})
            out.append(s)
            top[s['c']] = max(top.get(s['c'], 0), s['p'])
        steps = out
    for s in steps:
        if s['r'] == 'pos':
            s['m'] = 'n'
        elif s['r'] == 'iv':
            s['m'] = 'iv'
    return pat, steps


def _pkey(s):
    return (s['c'], s['p'], s['m'], s['r'])


def run_history_shard(shard, rec):
    from vf.instrument import AnchorCount
    tier = shard['tier']
    P = PMAX[tier]
    r = G.rng(PROP, shard['seed'], shard['shard'])
    n_hist = 46 if tier == 'quick' else 220
    n_iso = 20 if tier == 'quick' else 120
    n_clean = 6 if tier == 'quick' else 30
    t_cap = time.time() + 0.6 * SHARD_TIMEOUT[tier]
    hists = []
    for h in range(n_hist):
        pat, steps = gen_history(r, P, h + shard['idx'])
        hists.append((pat, steps))
    # ---- the histories, in this process, one after another --------------------------------------
    results = []
    tm = {}
    t0 = time.time()
    with AnchorCount(rec, ANCHORS):
        for pat, steps in hists:
            results.append(H.run_steps(run_step, steps))
    tm['histories'] = round(time.time() - t0, 2); t0 = time.time()
    rec.event('histories executed in the worker', len(hists))
    # ---- the same requests in new interpreters ---------------------------------------------------
    distinct = {}
    for pat, steps in hists:
        for s in steps:
            if 'abort' not in s:
                distinct.setdefault(_pkey(s), {'c': s['c'], 'p': s['p'], 'm': s['m'], 'r': s['r']})
    keys = sorted(distinct)
    # probe sets = all requests for one (constant, precision); ascending and descending precision order
    by_cp = {}
    for k in keys:
        by_cp.setdefault((k[1], k[0]), []).append(k)
    cps = sorted(by_cp)
    sets = [[distinct[k] for k in by_cp[cp]] for cp in cps]
    per_order, dis = H.fresh_batched('vf.props.C17:eval_probe', sets, timeout=900)
    rec.event('new interpreters spawned', len(per_order))
    tm['two-orders'] = round(time.time() - t0, 2); t0 = time.time()
    fresh = []
    for od in per_order:
        if isinstance(od, tuple):
            rec.undecided('new interpreter failed: ' + od[1][:80])
            fresh.append(None)
            continue
        m = {}
        for i, cp in enumerate(cps):
            for k, v in zip(by_cp[cp], od[i]):
                m[k] = v
        fresh.append(m)
    for (i, j, x, y) in dis:
        k = by_cp[cps[i]][j]
        rec.violation('C17/history/%s/fresh-order' % k[0],
                      'two new interpreters evaluating the same requests in ascending / descending precision order disagree',
                      {'kind': 'fresh-order', 'probe': distinct[k]}, observed=x, expected=y)
    # isolated: one interpreter per probe set
    iso = {}
    pick = list(range(len(cps)))
    r.shuffle(pick)
    # prefer cheap sets for the isolated sample, but always include a few of every constant seen
    pick = pick[:n_iso]
    iso_res = []
    for i in pick:
        if time.time() > t_cap:
            rec.note('isolated interpreters cut short by the time cap', len(iso_res))
            break
        iso_res += H.fresh_isolated('vf.props.C17:eval_probe', [sets[i]], timeout=300)
    pick = pick[:len(iso_res)]
    rec.event('new interpreters spawned', len(pick))
    rec.event('probe sets evaluated each in its own interpreter', len(pick))
    tm['isolated'] = round(time.time() - t0, 2); t0 = time.time()
    for i, res in zip(pick, iso_res):
        if isinstance(res, tuple):
            rec.undecided('new interpreter failed: ' + res[1][:80])
            continue
        for k, v in zip(by_cp[cps[i]], res):
            iso[k] = v
    # ---- CR oracle for the cheap group (so that "equal but wrong" cannot pass) ----------------------
    refs = {}
    # ---- compare -----------------------------------------------------------------------------------
    for hid, ((pat, steps), res) in enumerate(zip(hists, results)):
        aborted_before = False
        for si, (s, v) in enumerate(zip(steps, res)):
            if 'abort' in s:
                rec.cls('abort-step/' + str(v[2] if isinstance(v, list) and len(v) > 2 else v))
                if isinstance(v, list) and len(v) > 2 and v[2] == 'aborted':
                    rec.event('computations aborted by a failpoint')
                    aborted_before = True
                continue
            k = _pkey(s)
            rec.case((shard['seed'], shard['shard'], hid, si), True, cls='history/%s/%s' % (pat, s['c']))
            case = {'kind': 'history', 'pattern': pat, 'step': si, 'probe': distinct[k], 'steps': steps[:si + 1]}
            others = [('new interpreter, ascending order', fresh[0].get(k) if fresh[0] else None),
                      ('new interpreter, descending order', fresh[1].get(k) if len(fresh) > 1 and fresh[1] else None),
                      ('own interpreter', iso.get(k))]
            seen = False
            for label, w in others:
                if w is None:
                    continue
                seen = True
                if w != v:
                    kind = 'after-abort' if aborted_before else 'hist-vs-fresh'
                    rec.violation('C17/history/%s/%s' % (s['c'], kind),
                                  'value after a history of requests differs from the value in a %s' % label,
                                  case, observed=v, expected=w)
                    break
            if not seen:
                rec.undecided('no new-interpreter value for this request', case)
            else:
                rec.event('history values compared bit-for-bit')
            if k in iso:
                rec.event('history values compared with an isolated evaluation')
    tm['compare'] = round(time.time() - t0, 2); t0 = time.time()
    # ---- clean-state histories: history + read-back in a new interpreter, compared with the worker --------
    for hid in range(min(n_clean, len(hists))):
        if hid >= 3 and time.time() > t_cap:
            rec.note('clean-state histories cut short by the time cap', hid)
            break
        pat, steps = hists[-1 - hid]
        probes = [s for s in steps if 'abort' not in s][:40]
        out = H.fresh_history('vf.props.C17:run_step', steps, 'vf.props.C17:eval_probe', probes, timeout=300)
        rec.event('new interpreters spawned')
        if out[0] == 'ERR':
            rec.undecided('new interpreter failed: ' + out[1][:80])
            continue
        hres, pres = out
        rec.event('clean-state histories executed in a new interpreter')
        for si, (s, v, w) in enumerate(zip(steps, hres, results[-1 - hid])):
            if 'abort' in s:
                continue
            rec.case((shard['seed'], shard['shard'], 'clean', hid, si), True, cls='history-clean/%s/%s' % (pat, s['c']))
            if v != w:
                rec.violation('C17/history/%s/hist-vs-fresh' % s['c'],
                              'the same history gives different values from a clean state and after earlier histories',
                              {'kind': 'history', 'pattern': pat, 'step': si, 'probe': s, 'steps': steps[:si + 1]},
                              observed=w, expected=v)
        for s, v in zip(probes, pres):
            k = _pkey(s)
            w = fresh[0].get(k) if fresh[0] else None
            if w is not None and v != w:
                rec.violation('C17/history/%s/hist-vs-fresh' % s['c'], 'read-back after a clean-state history differs from a new interpreter',
                              {'kind': 'history', 'pattern': pat, 'probe': s, 'steps': steps}, observed=v, expected=w)
    tm['clean-state'] = round(time.time() - t0, 2)
    rec.note('history shard phase seconds', tm)


def run_shard(shard, rec):
    if shard['shard'] == 0:
        bad = selftest()
        rec.event('oracle selftest comparisons against release 1.3.0', 30)
        if bad:
            rec.note('oracle-selftest-mismatch', bad)
            rec.undecided('integer oracle disagrees with release 1.3.0 (oracle bug suspected)', bad)
    if shard['kind'] == 'sweep':
        run_sweep(shard, rec)
    else:
        run_history_shard(shard, rec)


def required(agg, tier):
    miss = []
    cl = agg['classes']
    no_reset = 'memo reset unavailable' in agg.get('notes', {})      # refactored memo: behavioural passes stay required
    for name in ALL:
        for pas in (('asc', 'desc') if no_reset else ('asc', 'desc', 'reset')):
            if not any(k.startswith('%s/%s/' % (name, pas)) for k in cl):
                miss.append('constant %s never observed in the %s pass' % (name, pas))
    for name in IV_NAMES:
        if not any(k.startswith(name + '/') and '/iv/' in k for k in cl):
            miss.append('interval constant %s never observed' % name)
    if not any(k.startswith('history/') for k in cl):
        miss.append('no history value compared')
    ev = agg['events']
    for e in ('new interpreters spawned', 'history values compared bit-for-bit', 'computations aborted by a failpoint',
              'probe sets evaluated each in its own interpreter', 'clean-state histories executed in a new interpreter'):
        if not ev.get(e):
            miss.append('monitor event never seen: ' + e)
    an = agg['anchors']
    for a in ANCHORS:
        if an.get('unresolved:' + a):
            continue
        if not an.get(a):
            miss.append('anchor never reached: ' + a)
    return miss


def replay(case, rec):
    c = case['case']
    if c.get('kind') == 'sweep':
        name, p = c['c'], c['p']
        ref = make_ref(name, max(p, 64), rec)
        if ref is None:
            rec.undecided('no reference')
            return
        fs = memo_functions()
        if c['pass'] == 'desc':
            eval_probe({'c': name, 'p': max(p, 64) * 2, 'm': 'n', 'r': 'call'})
        v = eval_probe({'c': name, 'p': p, 'm': c['m'] if c['r'] != 'iv' else 'iv', 'r': c['r']})
        stats = {'refine': []}
        if c['r'] == 'iv':
            check_value(rec, ref, name, p, 'f', 'iv', c['pass'], v._mpi_[0], stats)
            check_value(rec, ref, name, p, 'c', 'iv', c['pass'], v._mpi_[1], stats)
        else:
            check_value(rec, ref, name, p, c['m'], c['r'], c['pass'], v._mpf_, stats)
    elif c.get('kind') == 'history':
        steps = c['steps']
        res = H.run_steps(run_step, steps)
        probe = c['probe']
        w = H.fresh_isolated('vf.props.C17:eval_probe', [[probe]])[0]
        rec.case(('replay', str(probe)), True, cls='history/replay')
        if isinstance(w, tuple):
            rec.undecided('new interpreter failed')
        elif res[-1] != w[0]:
            rec.violation('C17/history/%s/hist-vs-fresh' % probe['c'], 'value after the recorded history differs from a new interpreter',
                          c, observed=res[-1], expected=w[0])
    else:
        probe = c['probe']
        a = H.fresh_batched('vf.props.C17:eval_probe', [[probe]])
        rec.undecided('fresh-order cases are re-run by the seeded shard')
