"""C09 -- conversion to and from machine floats is exact or correctly rounded.

Observed: mpf(f), mp.convert(f), libmp.from_float(f), mpc(c), mpc(f1, f2), mp.convert(c) for doubles built from raw 64-bit
patterns; float(x), complex(x), complex(z), libmp.to_float(raw), libmp.mpc_to_complex for mpf/mpc values of any bit length.
Oracle: float.hex()/struct bit patterns -> exact rational (no mpmath), and CPython's correctly rounded int/int true division
(exactq.to_float_ref) with an independent integer round-half-even twin (float_ref_twin)."""
import math
import struct
from vf import exactq as Q
from vf import gens as G

PROP = 'C09'
LEVEL = 'exploration'
RULE = ('seeded stratified generation: doubles from raw 64-bit patterns (every exponent field class, subnormals, +-0, inf, nan); mpf values '
        'with 1..2000-bit mantissas on/next to ties of the 53-bit grid, around 2^-1022, 2^1023..2^1024, the overflow boundary '
        '2^1024-2^970, beyond 2^1024; non-trivial for float->mpf = any finite non-zero double; for mpf->float = the value does not fit '
        'in 53 bits or lies at/after the overflow boundary; distinct = distinct (direction, value, route)')
ASSUMPTIONS = ['struct/float.hex give the exact bit pattern of a double; CPython int/int true division is correctly rounded (cross-checked '
               'by an integer round-half-even twin on every to-float case)',
               'mpf/mpc values are injected exactly through make_mpf/make_mpc']
SHARD_TIMEOUT = {'quick': 300, 'thorough': 2400}
LEVEL_TEXT = ('exploration: ~6*10^5 (quick) / ~10^7 (thorough) conversions on the real code; float->mpf compared exactly with the rational '
              'decoded from the bit pattern; mpf->float compared bit-for-bit with the correctly rounded double inside the normal range and '
              'with +-inf at/after the overflow boundary')
LEVEL_NOTE = ('trusted base: struct, CPython true division, vf/exactq.py; results in the subnormal range and values strictly between DBL_MAX '
              'and the overflow rounding boundary are observed but not asserted (outside the statement)')
TECHNIQUE = 'runtime reference-model monitor: exact rational oracle on every observed float conversion'

CASES = {'quick': 40000, 'thorough': 700000}
KINDS = ['from/pattern', 'from/special', 'from/complex', 'to/tie', 'to/rand', 'to/overflow', 'to/subnormal', 'to/complex', 'to/edge']
DBL_MAX_MAN = (1 << 53) - 1          # DBL_MAX = (2^53-1) * 2^971
OVF_NUM, OVF_EXP = (1 << 54) - 1, 970   # rounding boundary 2^1024 - 2^970 = (2^54-1) * 2^970


class HarnessError(BaseException):
    """a disagreement inside the oracle: must crash the worker (-> inconclusive), never become a verdict"""


def shards(tier, seed):
    return [{'n': CASES[tier]} for _ in range(16)]


def _mp():
    import mpmath
    return mpmath


def bits_of(f):
    return struct.unpack('<Q', struct.pack('<d', f))[0]


def float_of(bits):
    return struct.unpack('<d', struct.pack('<Q', bits))[0]


def exact_of_bits(bits):
    """exact value of a double from its bit pattern (independent of frexp): Ex or special string"""
    s = bits >> 63
    e = (bits >> 52) & 0x7ff
    f = bits & ((1 << 52) - 1)
    if e == 0x7ff:
        if f:
            return Q.NAN
        return Q.NINF if s else Q.PINF
    if e == 0:
        m, ex = f, -1074
    else:
        m, ex = f | (1 << 52), e - 1075
    return Q.Ex(-m if s else m, 1, ex)


def float_ref_twin(x):
    """integer round-half-even to 53 bits, assembled as a bit pattern (normal range only); None outside"""
    n, e = abs(x.n), x.e
    if n == 0:
        return 0.0
    bl = n.bit_length()
    top = bl + e                       # 2^(top-1) <= |x| < 2^top
    if top < -1021 or top > 1024:
        return None
    sh = bl - 53
    if sh > 0:
        q, rem = n >> sh, n & ((1 << sh) - 1)
        half = 1 << (sh - 1)
        if rem > half or (rem == half and (q & 1)):
            q += 1
        ee = e + sh
        if q == 1 << 53:
            q >>= 1
            ee += 1
    else:
        q, ee = n << (-sh), e + sh
    # q has 53 bits, value q * 2^ee, biased exponent = ee + 1075
    be = ee + 1075
    if be >= 0x7ff:
        return math.inf if x.n > 0 else -math.inf
    if be < 1:
        return None
    bits = (be << 52) | (q & ((1 << 52) - 1))
    if x.n < 0:
        bits |= 1 << 63
    return float_of(bits)


def same_float(a, b):
    if a != a or b != b:
        return a != a and b != b
    return a == b


# ---------------------------------------------------------------------------------------
def gen_bits(r):
    k = r.random()
    if k < 0.35:
        return r.getrandbits(64)
    s = r.getrandbits(1) << 63
    if k < 0.5:
        e = r.choice([0, 1, 2, 0x3fe, 0x3ff, 0x400, 0x7fd, 0x7fe, 52, 53, 1023 + 52, 1023 + 53, 1075, 1076])
    elif k < 0.6:
        e = 0                                   # subnormal
    else:
        e = r.randint(0, 0x7fe)
    fk = r.random()
    if fk < 0.4:
        f = r.getrandbits(52)
    elif fk < 0.5:
        f = 0
    elif fk < 0.6:
        f = (1 << 52) - 1
    elif fk < 0.7:
        f = 1
    elif fk < 0.8:
        f = 1 << r.randrange(52)
    else:
        f = r.getrandbits(52) & ~((1 << r.randrange(52)) - 1)
    return s | (e << 52) | f


def check_from(mpm, rec, r, bits, route):
    mp = mpm.mp
    f = float_of(bits)
    ex = exact_of_bits(bits)
    want = Q.raw_of_special(ex) if Q.is_special(ex) else Q.exact_raw(ex)
    case = {'kind': 'from', 'bits': '0x%016x' % bits, 'route': route}
    p = None
    if route == 'mpf':
        got = mp.mpf(f)._mpf_
    elif route == 'mpf-prec':
        p = r.choice([53, 54, 64, 100, 1000])
        got = mp.mpf(f, prec=p)._mpf_
    elif route == 'mpf-ctx':
        p = r.choice([53, 60, 113, 400])
        old = mp.prec
        mp.prec = p
        try:
            got = mp.mpf(f)._mpf_
        finally:
            mp.prec = old
    elif route == 'convert':
        p = r.choice([1, 10, 24, 53, 200])
        old = mp.prec
        mp.prec = p
        try:
            got = mp.convert(f)._mpf_
        finally:
            mp.prec = old
    elif route == 'from_float':
        p = r.choice([53, 64, 200])
        got = mpm.libmp.from_float(f, p, r.choice(G.MODES))
    elif route == 'binop':
        # value entering arithmetic: f + 0 at high precision must be the exact double
        old = mp.prec
        mp.prec = 1200
        try:
            got = (mp.mpf(0) + f)._mpf_ if f == f and abs(f) != math.inf else mp.mpf(f)._mpf_
        finally:
            mp.prec = old
    else:
        raise ValueError(route)
    if p is not None:
        case['prec'] = p
    cls = 'special' if Q.is_special(ex) else ('zero' if ex.n == 0 else ('subnormal' if (bits >> 52) & 0x7ff == 0 else 'normal'))
    rec.case(('from', bits, route, p), cls in ('normal', 'subnormal', 'special'), cls='from/%s/%s' % (route, cls))
    rec.sample(dict(case, value=repr(f)))
    rec.event('float->mpf results compared exactly')
    if got != want:
        rec.violation('C09/from_float/%s/%s' % (route, cls), 'mpf of a Python float does not represent exactly the same value', case, got, want)


def check_from_complex(mpm, rec, r, b1, b2, route):
    mp = mpm.mp
    c = complex(float_of(b1), float_of(b2))
    w = []
    for b in (b1, b2):
        ex = exact_of_bits(b)
        w.append(Q.raw_of_special(ex) if Q.is_special(ex) else Q.exact_raw(ex))
    case = {'kind': 'from-complex', 'bits': ['0x%016x' % b1, '0x%016x' % b2], 'route': route}
    if route == 'mpc(c)':
        got = mp.mpc(c)._mpc_
    elif route == 'mpc(f,f)':
        got = mp.mpc(c.real, c.imag)._mpc_
    elif route == 'convert':
        old = mp.prec
        mp.prec = r.choice([10, 53, 200])
        try:
            got = mp.convert(c)._mpc_
        finally:
            mp.prec = old
    else:
        old = mp.prec
        mp.prec = r.choice([53, 64, 333])
        try:
            got = mp.mpc(c)._mpc_
        finally:
            mp.prec = old
    rec.case(('fromc', b1, b2, route), True, cls='from-complex/' + route)
    rec.event('float->mpf results compared exactly', 2)
    if tuple(got) != tuple(w):
        rec.violation('C09/from_complex/' + route, 'mpc of a Python complex does not represent exactly the same value', case, got, tuple(w))


# -- to float ---------------------------------------------------------------------------

def gen_to(r, kind):
    sign = r.randint(0, 1)
    if kind == 'to/tie':
        # 53-bit grid ties and near ties with long mantissas, anywhere in the normal range
        m = G.mantissa(r, 53)
        man = (m << 1) | 1
        k = r.choice([0, 0, 1, 2, 10, 11, 12, 40, 64, 500, 1900])
        if k:
            man = (man << k) + r.choice([-1, 1])
        top = r.choice([r.randint(-1021, 1024), r.randint(-60, 60), -1021, -1020, 1023, 1024, 0, 1])
        return Q.canon(sign, man, top - man.bit_length())
    if kind == 'to/rand':
        b = r.choice([1, 2, 52, 53, 54, 55, 63, 64, 65, 100, 106, 107, r.randint(1, 2000)])
        man = G.mantissa(r, b)
        top = r.choice([r.randint(-1021, 1024), r.randint(-100, 100)])
        return Q.canon(sign, man, top - man.bit_length())
    if kind == 'to/overflow':
        k = r.random()
        if k < 0.25:
            # around the boundary (2^54-1)*2^970: boundary, boundary +- tiny, DBL_MAX, DBL_MAX + tiny, 2^1024 -+ tiny
            j = r.choice([0, 1, 2, 10, 60, 1000])
            man = (OVF_NUM << j) + (r.choice([-1, 0, 1]) if j else 0)
            return Q.canon(sign, man, OVF_EXP - j)
        if k < 0.4:
            j = r.choice([0, 1, 2, 10, 60, 1000])
            man = (DBL_MAX_MAN << j) + (r.choice([0, 1, -1]) if j else 0)
            return Q.canon(sign, man, 971 - j)
        if k < 0.55:
            j = r.choice([1, 2, 54, 55, 100, 1000])
            man = (1 << j) + r.choice([-1, 0, 1])
            return Q.canon(sign, man, 1024 - j)
        if k < 0.8:
            b = r.choice([1, 2, 53, 54, 100, r.randint(1, 600)])
            man = G.mantissa(r, b)
            top = r.choice([1024, 1025, 1025, 1026, 1030, 1100, 2000, 10 ** 6, 10 ** 18])
            return Q.canon(sign, man, top - man.bit_length())
        # all-ones mantissas of various lengths just below 2^1024 (round up to overflow)
        b = r.choice([53, 54, 55, 64, 100, 500])
        return Q.canon(sign, (1 << b) - 1, 1024 - b)
    if kind == 'to/subnormal':
        b = r.choice([1, 2, 10, 52, 53, 54, 100])
        man = G.mantissa(r, b)
        top = r.choice([-1021, -1022, -1023, -1030, -1073, -1074, -1075, -1076, -1100, -2000, -10 ** 6, -10 ** 18,
                        r.randint(-1080, -1020)])
        return Q.canon(sign, man, top - man.bit_length())
    if kind == 'to/edge':
        k = r.choice(['min-normal', 'pow2', 'carry'])
        if k == 'min-normal':
            j = r.choice([0, 1, 53, 54, 60, 200])
            man = (1 << j) + (r.choice([0, 1, -1]) if j else 0)
            return Q.canon(sign, man, -1022 - j)
        if k == 'pow2':
            return Q.canon(sign, 1, r.randint(-1022, 1023))
        # all ones: rounding carries into the next binade
        b = r.choice([54, 55, 64, 107, 300])
        top = r.choice([r.randint(-1021, 1023), -1021, 1023, 1])
        return Q.canon(sign, (1 << b) - 1, top - b)
    raise ValueError(kind)


def expected_float(raw):
    """(status, value): status 'asserted' with the required double, 'either' with the pair (DBL_MAX, inf) allowed, or 'note'"""
    sign, man, exp, bc = raw
    top = exp + bc                   # 2^(top-1) <= |x| < 2^top
    x = Q.from_raw(raw)
    sgn = -1.0 if sign else 1.0
    if top < -1021:
        return 'note', None          # below the normal range: not asserted
    if top > 1024:
        return 'asserted', sgn * math.inf
    if top == 1024:
        # compare |x| with DBL_MAX and with the rounding boundary
        a = Q.Ex(man, 1, exp)
        c_b = Q.cmp(a, Q.Ex(OVF_NUM, 1, OVF_EXP))
        c_m = Q.cmp(a, Q.Ex(DBL_MAX_MAN, 1, 971))
        if c_m <= 0:
            pass                     # normal
        elif c_b >= 0:
            return 'asserted', sgn * math.inf      # ties-to-even at the boundary goes to 2^1024 = overflow
        else:
            return 'either', (sgn * float_of(0x7fefffffffffffff), sgn * math.inf)
    ref = Q.to_float_ref(x)
    twin = float_ref_twin(x)
    if twin is None or twin != ref:
        raise HarnessError('harness: float reference twins disagree on %r: %r %r' % (raw, ref, twin))
    return 'asserted', ref


def check_to(mpm, rec, r, raw, route, kind):
    mp = mpm.mp
    case = {'kind': 'to', 'raw': raw, 'route': route}
    x = mp.make_mpf(raw)
    if route == 'float':
        got = float(x)
    elif route == 'float-lowprec':
        old = mp.prec
        mp.prec = r.choice([1, 10, 53, 60])        # the working precision must not matter
        try:
            got = float(x)
        finally:
            mp.prec = old
    elif route == 'to_float-n':
        # libmp.to_float's own default is round_fast (truncation); the statement is about nearest, which float() requests
        got = mpm.libmp.to_float(raw, rnd='n')
    elif route == 'to_float-strict':
        try:
            got = mpm.libmp.to_float(raw, strict=True, rnd='n')
        except OverflowError:
            got = math.inf if not raw[0] else -math.inf
    elif route == 'complex(x)':
        z = complex(x)
        got = z.real
        if z.imag != 0:
            rec.violation('C09/to_float/complex-of-real', 'complex(mpf) has a non-zero imaginary part', case, z, None)
    elif route == '__float__':
        got = x.__float__()
    else:
        raise ValueError(route)
    status, want = expected_float(raw)
    sign, man, exp, bc = raw
    nontrivial = bc > 53 or exp + bc > 1023
    reg = 'subnormal-or-below' if status == 'note' else ('overflow' if exp + bc > 1024 else ('top-binade' if exp + bc == 1024 else 'normal'))
    rec.case(('to', raw[:3], route), nontrivial, cls='%s/%s/%s' % (kind, route, reg))
    rec.sample(dict(case, got=repr(got)))
    if status == 'note':
        rec.event('mpf->float below the normal range (observed, not asserted)')
        ref = Q.to_float_ref(Q.from_raw(raw))
        if not same_float(got, ref):
            rec.event('below the normal range: differs from the correctly rounded double (observed, not asserted)')
            rec.note('subnormal double rounding', {'raw': raw, 'got': repr(got), 'correctly rounded': repr(ref)}, cap=5)
        return
    rec.event('mpf->float results compared with the correctly rounded double')
    if status == 'either':
        rec.event('value strictly between DBL_MAX and the overflow boundary: DBL_MAX or inf accepted')
        if got not in want:
            rec.violation('C09/to_float/between-max-and-boundary', 'neither the largest double nor infinity', case, repr(got), repr(want))
        return
    if type(got) is not float or not same_float(got, want):
        key = 'C09/to_float/%s/%s' % (reg, 'long-mantissa' if bc > 53 else 'short-mantissa')
        rec.violation(key, 'float(x) is not the nearest double (ties to even) / not infinity beyond the largest double', case,
                      '%r (bits %s)' % (got, hex(bits_of(got)) if type(got) is float else '?'), '%r (bits %s)' % (want, hex(bits_of(want))))


def check_to_complex(mpm, rec, r, raw_re, raw_im, route):
    mp = mpm.mp
    case = {'kind': 'to-complex', 'raw': raw_re, 'raw_im': raw_im, 'route': route}
    z = mp.make_mpc((raw_re, raw_im))
    if route == 'complex(z)':
        got = complex(z)
    elif route == 'mpc_to_complex':
        got = mpm.libmp.mpc_to_complex((raw_re, raw_im), rnd='n')
    else:
        old = mp.prec
        mp.prec = r.choice([1, 24, 53, 100])
        try:
            got = complex(z)
        finally:
            mp.prec = old
    rec.case(('toc', raw_re[:3], raw_im[:3], route), True, cls='to/complex/' + route)
    for name, raw, g in (('re', raw_re, got.real), ('im', raw_im, got.imag)):
        if not raw[1]:
            if g != 0.0:
                rec.violation('C09/to_complex/zero', 'zero component converted to non-zero', case, repr(got), None)
            continue
        status, want = expected_float(raw)
        if status == 'note':
            rec.event('mpf->float below the normal range (observed, not asserted)')
            continue
        rec.event('mpf->float results compared with the correctly rounded double')
        if status == 'either':
            ok = g in want
        else:
            ok = same_float(g, want)
        if not ok:
            rec.violation('C09/to_complex/' + name, 'complex(z) component is not the nearest double / infinity', dict(case, component=name),
                          repr(got), repr(want))


# ---------------------------------------------------------------------------------------
FROM_ROUTES = ['mpf', 'mpf-prec', 'mpf-ctx', 'convert', 'from_float', 'binop']
TO_ROUTES = ['float', 'float-lowprec', 'to_float-strict', 'to_float-n', 'complex(x)', '__float__']


def run_case(mpm, rec, r, i):
    kind = KINDS[i % len(KINDS)]
    try:
        _dispatch(mpm, rec, r, i, kind)
    except Exception as e:
        rec.case((kind, i, 'raised'), True, cls=kind + '/raised')
        rec.violation('C09/%s/exception' % kind, 'conversion raised %s' % type(e).__name__, {'kind': 'raised', 'class': kind},
                      repr(e)[:300], 'a value')


def _dispatch(mpm, rec, r, i, kind):
    j = i // len(KINDS)
    if kind == 'from/pattern':
        check_from(mpm, rec, r, gen_bits(r), FROM_ROUTES[j % len(FROM_ROUTES)])
    elif kind == 'from/special':
        bits = r.choice([0, 1 << 63, 0x7ff0000000000000, 0xfff0000000000000, 0x7ff8000000000000, 0xfff8000000000001, 1, (1 << 63) | 1,
                         0x000fffffffffffff, 0x0010000000000000, 0x7fefffffffffffff, 0xffefffffffffffff, 0x3ff0000000000000])
        check_from(mpm, rec, r, bits, FROM_ROUTES[j % len(FROM_ROUTES)])
    elif kind == 'from/complex':
        check_from_complex(mpm, rec, r, gen_bits(r), gen_bits(r), ['mpc(c)', 'mpc(f,f)', 'convert', 'mpc-ctx'][j % 4])
    elif kind == 'to/complex':
        a = gen_to(r, r.choice(['to/tie', 'to/rand', 'to/overflow', 'to/edge']))
        b = gen_to(r, r.choice(['to/tie', 'to/rand', 'to/overflow', 'to/edge'])) if r.random() < 0.9 else Q.fzero
        check_to_complex(mpm, rec, r, a, b, ['complex(z)', 'mpc_to_complex', 'complex(z)-ctx'][j % 3])
    else:
        check_to(mpm, rec, r, gen_to(r, kind), TO_ROUTES[j % len(TO_ROUTES)], kind)


def run_shard(shard, rec):
    mpm = _mp()
    r = G.rng(PROP, shard['seed'], shard['shard'])
    from vf.instrument import AnchorCount
    with AnchorCount(rec, ['mpmath.libmp.libmpf:from_float', 'mpmath.libmp.libmpf:to_float', 'mpmath.libmp.libmpc:mpc_to_complex']):
        for i in range(shard['n']):
            run_case(mpm, rec, r, i + shard['shard'] * 5)
    rec.event('conversions observed', rec.evals)


def required(agg, tier):
    miss = []
    cl = agg['classes']
    for k in ('from/', 'from-complex/', 'to/tie/', 'to/rand/', 'to/overflow/', 'to/edge/', 'to/complex/', 'to/subnormal/'):
        if not any(c.startswith(k) for c in cl):
            miss.append('no %s case observed' % k)
    for reg in ('normal', 'top-binade', 'overflow'):
        if not any(c.endswith('/' + reg) for c in cl if c.startswith('to/')):
            miss.append('no mpf->float case in regime %s' % reg)
    for reg in ('normal', 'subnormal', 'special', 'zero'):
        if not any(c.endswith('/' + reg) for c in cl if c.startswith('from/')):
            miss.append('no float->mpf case of class %s' % reg)
    ev = agg['events']
    for e in ('float->mpf results compared exactly', 'mpf->float results compared with the correctly rounded double'):
        if not ev.get(e):
            miss.append('monitor saw nothing: ' + e)
    for a in ('mpmath.libmp.libmpf:from_float', 'mpmath.libmp.libmpf:to_float'):
        if a in agg['anchors'] and not agg['anchors'][a]:
            miss.append('anchor %s never reached' % a)
    return miss


def replay(case, rec):
    import random
    from vf.core import unjson_int
    mpm = _mp()
    c = case['case']
    r = random.Random(0)

    def raw(t):
        return (int(t[0]), unjson_int(t[1]), unjson_int(t[2]), int(t[3]))
    k = c['kind']
    if k == 'from':
        check_from(mpm, rec, r, int(c['bits'], 16), c['route'])
    elif k == 'from-complex':
        check_from_complex(mpm, rec, r, int(c['bits'][0], 16), int(c['bits'][1], 16), c['route'])
    elif k == 'to':
        check_to(mpm, rec, r, raw(c['raw']), c['route'], 'replay')
    elif k == 'to-complex':
        check_to_complex(mpm, rec, r, raw(c['raw']), raw(c['raw_im']), c['route'])
    else:
        rec.undecided('unknown replay case kind')
