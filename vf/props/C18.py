"""C18 -- gamma-family accuracy: relative error (in modulus) below 2^(8-p) away from poles; rgamma exactly zero at the
poles and gamma raising there.

Observed: value returned by the public function at precision p for exactly built dyadic arguments.
Oracle: three-source consensus (vf.specfun_j.consensus3): release 1.3.0 at two precisions, the tree at 3p+300 bits, and
for adjudicated cells a defining relation evaluated in the reference library.
Regimes (cells fixed a priori, key = C18/<function>/<label>) are aimed at the switch conditions of
libmp/gammazeta.py: small-integer cache (n < 150), exact factorial (n*mag < 10 wp), half-integers, |x| < 2^-wp,
Taylor (n < max(100, 0.2 wp)) vs Stirling (with/without argument reduction), reflection (x < 0), loggamma near 1 and 2
and beyond 2^wp, mpc_gamma: |z| < 2^-8, |Im| < 2^-10 and < 2^-wp, reflection, loggamma branch bookkeeping;
mpf_psi0/mpc_psi0: x < 2^-5, reflection (x <= -8), log-only (x > 2^wp), recurrence (x < 0.11 wp + 2)."""
import math
from vf import specfun as S
from vf import specfun_j as J
from vf.specfun import args, real_in, complex_in, near, integer, half_integer, choice
from vf.specfun_j import (Cell, cell, real_p, around, near_c, near_p, near_any, cplx, polar, uniform, ints, const,
                          args_p, dy, fl)
from vf.catalog import R, C, I, raw_rand, canon

PROP = 'C18'
LEVEL = 'exploration'
NEEDS_REF = True
RULE = ('stratified cells (function x argument regime fixed a priori, aimed at the algorithm switch points of the source) x '
        'precision list 10..1000 (quick: <= 400); concrete arguments from the seeded rng; non-trivial = a finite reference '
        'value exists on which two sources agree and the result was compared; distinct = (function, regime, args, prec)')
ASSUMPTIONS = ['consensus reference: two of {mpmath 1.3.0 at p+64 and 2p+200 bits, the tree at 3p+300 bits, a defining '
               'relation in the reference library (adjudicated cells only)} agree to 2^-(p+32)',
               'arguments are injected exactly (raw mantissa/exponent) in the tree and in the reference library']
LEVEL_TEXT = ('exploration: every (function, regime) cell of the table is evaluated a fixed number of times per tier at '
              'precisions 10..400 (quick) / 10..1000 (thorough); each result is compared with a consensus reference; '
              'poles: rgamma == 0 exactly and gamma raises, checked exactly for integers 0..-N, huge negative integers, '
              'int/mpf/mpc argument types')
LEVEL_NOTE = ('trusted base: release mpmath 1.3.0 + the tree at 3p+300 bits agreeing to 2^-(p+32); a defect that is identical '
              'in both and at every precision is not seen; inputs outside the listed cells are not covered')
TECHNIQUE = 'runtime reference-model monitor: consensus accuracy oracle on every observed special-function value'
SHARD_TIMEOUT = {'quick': 1800, 'thorough': 21600}     # wall watchdog only; the shards stop on their own CPU budget
NSHARDS = 16

# high-precision special points, value = n / 2^256
Z = {
    'gamma_min': 0x1762d86356be3f6e1a9c8865e0a4f06b1535f48637884c0e9f183c220ffee24d5,
    'psi_zero_neg1': -0x810b9582f71300966b82202dffae0af5021a42a72a15e76f0c7341dec6fb3807,
    'psi_zero_neg2': -0x192d0cbc289d4a12262d144a30e3ebeec2e41697ab4d99b825e1099662c4d87aa,
    'psi_zero_neg3': -0x29c5833ecf3cb38e119990bac2e596d9e32e367deb50bbc0a1cf799a3b6309b11,
    'loggamma_negzero': -0x274ff92c01f0d82abec9f315f1a0712c334804d9a79cb5d46094d457f3b57dfdd,
    'harmonic_zero_neg': -0x1913e1876d59fb5848372b350493db49c73a1596bc3b5fd2c34d4b73620f1e9e4,
}


def wp_gamma(p):
    return p + 25


def pole_near(nlo, nhi, kmin=4, kmax=40, pk=None, im=None):
    """-n +- 2^-k for n in [nlo, nhi].  ENVELOPE ("away from poles"): the distance to the pole is at least 4 units of
    2^-p relative to max(1, |pole|), i.e. k <= p - 2 - bitlength(nhi): an argument closer than that rounds to the pole
    itself at the working precision.  Fixed before looking at any result."""
    cap = lambda p: max(kmin, p - 2 - int(nhi).bit_length())
    if pk is None:
        f = lambda p: (kmin, min(kmax, cap(p)))
    else:
        f = lambda p: (pk(p)[0], min(pk(p)[1], cap(p)))
    return near_any(list(range(-nhi, -nlo + 1)), pk=f, im=im)


def gamma_like(types):
    """regimes common to gamma / rgamma (/ factorial with shifted poles)"""
    return [
        Cell('int-cache', args(integer(1, 149))),
        Cell('int-exact-factorial', args(integer(150, 700))),
        cell('int-large', ints(1000, 1001, 4096, 10**4, 10**5, 10**6, 2 * 10**6 + 1)),
        Cell('half-int', args(half_integer(-160, 160))),
        Cell('half-int-large', args(half_integer(-3000, 3000))),
        Cell('pos-taylor', args(real_in(-3, 6, 0))),
        cell('pos-switch-100', around(100, 3)),
        cell('pos-switch-stirling', around(lambda p: max(100, 0.2 * wp_gamma(p)), 4)),
        Cell('pos-stirling', args(real_in(7, 20, 0))),
        Cell('pos-huge', args(real_in(21, 40, 0))),
        Cell('neg-taylor', args(real_in(-3, 6, 1))),
        cell('neg-switch-100', around(100, 3, sign=-1)),
        Cell('neg-stirling-reflection', args(real_in(7, 14, 1))),
        cell('tiny-switch', real_p(lambda p: (-p - 27, -p - 15))),
        cell('tiny', real_p(lambda p: (-3 * p - 100, -p - 40))),
        Cell('small', args(real_in(-30, -3))),
        cell('near-pole-small', pole_near(0, 6, pk=lambda p: (4, p + 40))),
        cell('near-pole-taylor', pole_near(7, 99, pk=lambda p: (4, p + 10))),
        cell('near-pole-stirling', pole_near(100, 3000, pk=lambda p: (4, p + 10))),
        cell('near-minimum', near_c(Z['gamma_min'], 256, 3, 60)),
        Cell('complex', args(complex_in(-3, 5))),
        Cell('complex-left', args(lambda r, b: C(raw_rand(r, b, -2, 6, 1), raw_rand(r, b, -3, 5)))),
        cell('complex-tiny', cplx(real_p(lambda p: (-p - 30, -6)), real_p(lambda p: (-p - 30, -6)))),
        cell('complex-tiny-switch', cplx(real_p(lambda p: (-p - 24, -p - 16)), real_p(lambda p: (-p - 40, -p - 16)))),
        cell('complex-im-small', cplx(real_in(-2, 7), real_p(lambda p: (-p - 19, -9)))),
        cell('complex-im-tiny', cplx(real_in(-2, 7), real_p(lambda p: (-2 * p - 60, -p - 21)))),
        cell('complex-near-pole', pole_near(0, 120, 4, 40, im=lambda p: (-min(40, max(5, p - 10)), -4))),
        Cell('complex-large', args(complex_in(6, 13))),
        Cell('complex-im-large', args(lambda r, b: C(raw_rand(r, b, -2, 4), raw_rand(r, b, 5, 12))), cost=2),
        Cell('imaginary-axis', args(lambda r, b: C((0, 0, 0, 0), raw_rand(r, b, -6, 8)))),
    ]


def _gp(num, den):
    """gammaprod with a fixed shape; arguments a..., b... flat"""
    def f(mp, *a):
        return mp.gammaprod(list(a[:num]), list(a[num:num + den]))
    return f


def _psi_m(mp, m, z):
    return mp.psi(m, z)


def _beta_sum_near(exact):
    """beta(x, y) with x + y = -n +- 2^-k next to a non-positive integer (pole of the denominator gamma -> zero of beta).
    exact=True: x + y is representable in 2p bits (the precision at which beta forms the sum); exact=False: it is not
    (k > 2p), so the sum rounds to the integer itself"""
    def g(r, b, p):
        from vf import exactq as Q
        xb = min(30, max(4, p - 2))
        x = fl(r.uniform(-6.5, 4.5), xb)
        n = -r.randint(0, 8)
        if exact:
            k = r.randint(min(xb + 1, 2 * p - 7), 2 * p - 6)
        else:
            k = r.randint(2 * p + 1, 2 * p + 40)
        ex = Q.add(Q.sub(Q.Ex(n), Q.from_raw(x)), Q.from_raw(dy(r.choice([-1, 1]), k)))    # y = n - x +- 2^-k exactly
        return [R(x), R(Q.exact_raw(ex))]
    return g


def _raised(name, extra):
    """R3 for cells where release 1.3.0 is not self-consistent at p+64 bits because of a known cancellation: the
    defining formula evaluated in the reference library with extra(args) additional bits"""
    def f(mp, *a):
        with mp.extraprec(int(extra(mp, *a))):
            return getattr(mp, name)(*a) if isinstance(name, str) else name(mp, *a)
    return f


def _fac2_def(mp, x):
    return 2 ** (x / 2) * (mp.pi / 2) ** ((mp.cospi(x) - 1) / 4) * mp.gamma(x / 2 + 1)


def _psi_safe(mp, z):
    """digamma through the reflection formula for Re z < 0 (mpc_psi0 of release 1.3.0 and of the tree does not
    terminate for some non-real z with negative real part); sinpi/cospi reduce the argument exactly"""
    if mp.im(z) != 0 and mp.re(z) < 0:
        return mp.digamma(1 - z) - mp.pi * mp.cospi(z) / mp.sinpi(z)
    return mp.digamma(z)


def _harmonic_def(mp, x):
    return _psi_safe(mp, 1 + x) + mp.euler


_psi_oracle = _raised(_psi_safe, lambda mp, z: 40)
_harm_oracle = _raised(_harmonic_def, lambda mp, x: max(0, -mp.mag(x)) + 40)
_fac2_oracle = _raised(_fac2_def, lambda mp, x: 5 * abs(mp.im(x)) + 60)


small_int = integer(-8, 12)
pos_real = real_in(-3, 5, 0)
any_real = real_in(-3, 5)

TABLE = {
    'gamma': gamma_like(0),
    'rgamma': gamma_like(2),
    'factorial': [
        Cell('int', args(integer(0, 400))),
        cell('int-large', ints(1000, 4095, 10**4, 10**5, 10**6)),
        Cell('real', args(real_in(-3, 8))),
        Cell('pos-huge', args(real_in(21, 40, 0))),
        cell('switch-100', around(99, 3)),
        cell('tiny', real_p(lambda p: (-2 * p - 60, -p - 12))),
        cell('near-pole', pole_near(1, 120, pk=lambda p: (4, p + 10))),
        Cell('half-int', args(half_integer(-200, 200))),
        Cell('complex', args(complex_in(-3, 6))),
        cell('complex-tiny', cplx(real_p(lambda p: (-p - 40, -6)), real_p(lambda p: (-p - 40, -6)))),
    ],
    'loggamma': [
        Cell('int', args(integer(1, 600))),
        Cell('pos-real', args(real_in(-3, 8, 0))),
        cell('pos-switch-100', around(100, 3)),
        Cell('pos-stirling', args(real_in(7, 30, 0))),
        cell('huge-switch', real_p(lambda p: (p + 16, p + 26), 0)),
        cell('huge', real_p(lambda p: (p + 30, 3 * p + 200), 0)),
        cell('tiny', real_p(lambda p: (-2 * p - 60, -p - 12), 0)),
        cell('near-1', near_p(1, lambda p: (3, 10))),
        cell('near-1-close', near_p(1, lambda p: (11, p + 18))),
        cell('near-1-closest', near_p(1, lambda p: (p + 19, 2 * p + 60))),
        cell('near-2', near_p(2, lambda p: (3, 10))),
        cell('near-2-close', near_p(2, lambda p: (11, p + 18))),
        cell('near-2-closest', near_p(2, lambda p: (p + 19, 2 * p + 60))),
        Cell('neg-real', args(real_in(-3, 6, 1))),
        Cell('neg-real-large', args(real_in(7, 14, 1))),
        cell('neg-near-pole', pole_near(0, 200, pk=lambda p: (4, p + 10))),
        cell('neg-near-zero-of-log|gamma|', near_c(Z['loggamma_negzero'], 256, 4, 26)),
        Cell('complex', args(complex_in(-3, 6))),
        Cell('complex-left', args(lambda r, b: C(raw_rand(r, b, -2, 7, 1), raw_rand(r, b, -3, 6)))),
        cell('cut-above', cplx(real_in(-3, 8, 1), real_p(lambda p: (-p - 19, -4), 0))),
        cell('cut-below', cplx(real_in(-3, 8, 1), real_p(lambda p: (-p - 19, -4), 1))),
        cell('cut-im-tiny', cplx(real_in(-3, 8, 1), real_p(lambda p: (-2 * p - 60, -p - 21)))),
        cell('right-im-tiny', cplx(real_in(-3, 8, 0), real_p(lambda p: (-2 * p - 60, -p - 21)))),
        cell('complex-near-1', near_p(1, lambda p: (4, 2 * p + 50), cplx=(-300, -4)), n=(14, 110)),
        cell('complex-near-1-im-p', cplx(near_p(1, lambda p: (11, 2 * p + 50)), real_p(lambda p: (-2 * p - 50, -11)))),
        cell('complex-near-2-im-p', cplx(near_p(2, lambda p: (11, 2 * p + 50)), real_p(lambda p: (-2 * p - 50, -11)))),
        cell('complex-near-minus-1-2', cplx(near_any([-1, -2], pk=lambda p: (11, 2 * p + 50)), real_p(lambda p: (-2 * p - 50, -11)))),
        cell('complex-small-|z|<=1/2', polar(0.004, 0.5)),
        cell('complex-|z|-around-1/2', polar(0.4, 0.7)),
        Cell('complex-large', args(complex_in(7, 30))),
        cell('complex-huge-switch', cplx(real_p(lambda p: (p + 14, p + 27)), real_p(lambda p: (p + 10, p + 30)))),
        cell('complex-huge-left', cplx(real_p(lambda p: (p + 14, p + 40), 1), real_p(lambda p: (p - 5, p + 45)))),
        Cell('imaginary-axis', args(lambda r, b: C((0, 0, 0, 0), raw_rand(r, b, -6, 12)))),
    ],
    'fac2': [
        Cell('int-odd-even', args(integer(0, 300))),
        cell('neg-odd-int', ints(-1, -3, -5, -7, -9, -15, -21, -51, -101)),
        Cell('real', args(real_in(-3, 7))),
        cell('tiny', real_p(lambda p: (-2 * p - 40, -8))),
        cell('near-pole-neg-even', near_any([-2, -4, -6, -8, -20, -50], pk=lambda p: (4, max(4, p - 8)))),
        Cell('complex', args(complex_in(-3, 1))),
        Cell('complex-im-2..8', args(lambda r, b: C(raw_rand(r, b, -2, 4), raw_rand(r, b, 1, 3))), oracle=_fac2_oracle),
        Cell('complex-im-8..64', args(lambda r, b: C(raw_rand(r, b, -2, 4), raw_rand(r, b, 3, 6))), cost=2, oracle=_fac2_oracle),
    ],
    'beta': [
        Cell('pos', args(pos_real, pos_real)),
        Cell('int', args(integer(1, 60), integer(1, 60))),
        Cell('real', args(any_real, any_real)),
        Cell('large', args(real_in(6, 14, 0), real_in(-2, 14, 0))),
        cell('tiny', real_p(lambda p: (-2 * p - 20, -8)), real_in(-3, 3)),
        cell('near-pole', pole_near(0, 8, pk=lambda p: (4, p + 8)), real_in(-2, 3)),
        Cell('sum-near-nonpos-int', _beta_sum_near(True), pgen=True),
        Cell('sum-within-2^-2p-of-nonpos-int', _beta_sum_near(False), pgen=True),
        Cell('neg-int-sum-cancel', args(lambda r, b: R(canon(r.randint(0, 1), 2 * r.randint(0, 20) + 1, -1)),
                                        lambda r, b: I(-r.randint(0, 9)))),
        Cell('complex', args(complex_in(-3, 4), complex_in(-3, 4))),
        Cell('complex-real', args(complex_in(-3, 4), any_real)),
    ],
    'binomial': [
        Cell('int', args(integer(0, 300), integer(0, 300))),
        Cell('int-large', args(integer(10**3, 10**6), integer(0, 2000))),
        Cell('neg-int-n', args(integer(-40, -1), integer(0, 30))),
        Cell('neg-int-k', args(integer(-30, 30), integer(-30, -1))),
        Cell('real', args(any_real, any_real)),
        Cell('real-n-int-k', args(real_in(-3, 10), integer(0, 60))),
        cell('tiny-k', real_in(-3, 6), real_p(lambda p: (-2 * p - 20, -8))),
        cell('near-neg-int-n', pole_near(1, 12, pk=lambda p: (4, p + 8)), real_in(-3, 3)),
        Cell('half', args(half_integer(-40, 40), half_integer(-40, 40))),
        Cell('complex', args(complex_in(-3, 4), complex_in(-3, 4))),
    ],
    'rf': [
        Cell('real-int', args(any_real, integer(0, 80))),
        Cell('int-int', args(integer(-30, 60), integer(0, 60))),
        Cell('neg-int-cancel', args(integer(-40, -1), integer(-10, 60))),
        Cell('real-real', args(any_real, any_real)),
        Cell('large', args(real_in(6, 16, 0), real_in(-2, 10))),
        cell('near-neg-int', pole_near(0, 12, pk=lambda p: (4, p + 8)), integer(0, 20)),
        cell('tiny-n', real_in(-3, 6), real_p(lambda p: (-2 * p - 20, -8))),
        Cell('complex', args(complex_in(-3, 4), complex_in(-3, 3))),
        Cell('complex-int', args(complex_in(-3, 5), integer(0, 40))),
    ],
    'ff': [
        Cell('real-int', args(any_real, integer(0, 80))),
        Cell('int-int', args(integer(-30, 60), integer(0, 60))),
        Cell('int-int-n>x', args(integer(0, 30), integer(31, 80))),
        Cell('real-real', args(any_real, any_real)),
        Cell('large', args(real_in(6, 16, 0), real_in(-2, 10))),
        cell('near-neg-int', pole_near(1, 12, pk=lambda p: (4, p + 8)), integer(0, 20)),
        cell('tiny-n', real_in(-3, 6), real_p(lambda p: (-2 * p - 20, -8))),
        Cell('complex', args(complex_in(-3, 4), complex_in(-3, 3))),
        Cell('complex-int', args(complex_in(-3, 5), integer(0, 40))),
    ],
    'gammaprod': [
        Cell('2/1-real', args(any_real, any_real, any_real), fn=_gp(2, 1)),
        Cell('1/2-real', args(any_real, any_real, any_real), fn=_gp(1, 2)),
        Cell('2/2-pos', args(pos_real, pos_real, pos_real, pos_real), fn=_gp(2, 2)),
        Cell('3/0-int', args(integer(1, 40), integer(1, 40), integer(1, 40)), fn=_gp(3, 0)),
        Cell('0/2-real', args(any_real, any_real), fn=_gp(0, 2)),
        Cell('poles-cancel-1/1', args(integer(-30, 0), integer(-30, 0)), fn=_gp(1, 1)),
        Cell('poles-cancel-2/2', args(integer(-12, 0), any_real, integer(-12, 0), any_real), fn=_gp(2, 2)),
        Cell('poles-cancel-2/2-all', args(integer(-12, 0), integer(-12, 0), integer(-12, 0), integer(-12, 0)), fn=_gp(2, 2)),
        Cell('pole-in-denominator-zero', args(any_real, integer(-12, 0)), fn=_gp(1, 1)),
        cell('near-poles-1/1', pole_near(0, 12, pk=lambda p: (4, p + 8)), pole_near(0, 12, pk=lambda p: (4, p + 8)), fn=_gp(1, 1)),
        Cell('2/1-complex', args(complex_in(-3, 4), complex_in(-3, 4), complex_in(-3, 4)), fn=_gp(2, 1)),
        Cell('large-ratio', args(real_in(8, 16, 0), real_in(8, 16, 0)), fn=_gp(1, 1)),
    ],
    'digamma': [
        Cell('int', args(integer(1, 2000))),
        Cell('pos', args(real_in(-4, 5, 0))),
        cell('recurrence-switch', around(lambda p: 0.11 * (p + 10) + 2, 2.5)),
        Cell('pos-large', args(real_in(5, 20, 0))),
        cell('log-only-switch', real_p(lambda p: (p + 6, p + 16), 0)),
        cell('log-only', real_p(lambda p: (p + 17, 3 * p + 100), 0)),
        Cell('small', args(real_in(-40, -4))),
        cell('small-switch', around(1.0 / 32, 1.0 / 128)),
        cell('tiny', real_p(lambda p: (-2 * p - 50, -p - 5))),
        Cell('neg', args(real_in(-3, 3, 1))),
        cell('reflection-switch', around(8, 0.6, sign=-1)),
        Cell('neg-reflection', args(real_in(4, 14, 1))),
        cell('near-pole', pole_near(0, 7, pk=lambda p: (4, p + 10))),
        cell('near-pole-reflection', pole_near(8, 3000, pk=lambda p: (4, p + 10))),
        cell('near-positive-zero', near_c(Z['gamma_min'], 256, 4, 26)),
        cell('near-negative-zero', lambda r, b, p: near_c(r.choice([Z['psi_zero_neg1'], Z['psi_zero_neg2'], Z['psi_zero_neg3']]),
                                                          256, 4, 26)(r, b, p)),
        Cell('half-int', args(half_integer(-100, 400))),
        Cell('complex', args(complex_in(-3, 5)), oracle=_psi_oracle, tmax=3),
        Cell('complex-left', args(lambda r, b: C(raw_rand(r, b, 3, 10, 1), raw_rand(r, b, -3, 6))), oracle=_psi_oracle, tmax=3),
        cell('complex-re-in-(-8,-7)', cplx(uniform(-7.999, -7.001), real_in(-6, 3)), n=(10, 40), oracle=_psi_oracle, tmax=3),
        cell('complex-reflection-side', cplx(uniform(-8.6, -8.0), real_in(-6, 3)), oracle=_psi_oracle, tmax=3),
        cell('complex-im-tiny', cplx(real_in(-2, 6), real_p(lambda p: (-2 * p - 40, -p + 5))), oracle=_psi_oracle, tmax=3),
        cell('complex-near-pole', pole_near(0, 40, 4, 40, im=lambda p: (-min(40, max(5, p - 10)), -4)), oracle=_psi_oracle, tmax=3),
        Cell('complex-large', args(complex_in(6, 20))),
        cell('complex-log-only-switch', cplx(real_p(lambda p: (p + 14, p + 27), 0), real_in(-3, 20))),
        Cell('complex-im-large', args(lambda r, b: C(raw_rand(r, b, -2, 4), raw_rand(r, b, 5, 14)))),
    ],
    'polygamma': [
        Cell('m1-3-pos', args(integer(1, 3), real_in(-4, 6, 0)), fn=_psi_m),
        Cell('m1-3-neg', args(integer(1, 3), real_in(-3, 7, 1)), fn=_psi_m, cost=2),
        Cell('m4-12', args(integer(4, 12), real_in(-3, 6)), fn=_psi_m, cost=2),
        Cell('m-large', args(choice(20, 33, 50, 100), real_in(-2, 6, 0)), fn=_psi_m, cost=2),
        cell('recurrence-switch', integer(1, 4), around(lambda p: 0.4 * (p + 20) + 8, 8), fn=_psi_m, cost=2),
        Cell('x-large', args(integer(1, 6), real_in(7, 20, 0)), fn=_psi_m),
        cell('x-huge', integer(1, 4), real_p(lambda p: (p, 2 * p + 40), 0), fn=_psi_m),
        cell('tiny', integer(1, 4), real_p(lambda p: (-p - 30, -6)), fn=_psi_m, cost=2),
        cell('near-pole', integer(1, 4), pole_near(0, 30, pk=lambda p: (4, p + 8)), fn=_psi_m, cost=2),
        Cell('int', args(integer(1, 8), integer(1, 300)), fn=_psi_m),
        Cell('complex', args(integer(1, 5), complex_in(-3, 5)), fn=_psi_m, cost=2),
        Cell('complex-left', args(integer(1, 3), lambda r, b: C(raw_rand(r, b, 2, 8, 1), raw_rand(r, b, -3, 5))), fn=_psi_m, cost=2),
        Cell('m0-is-digamma', args(const(I(0)), real_in(-3, 8)), fn=_psi_m),
    ],
    'harmonic': [
        Cell('int', args(integer(1, 3000))),
        Cell('pos', args(real_in(-3, 6, 0))),
        Cell('pos-large', args(real_in(6, 30, 0))),
        Cell('small-2^-4..2^-12', args(real_in(-12, -4))),
        Cell('small-2^-12..2^-40', args(real_in(-40, -12)), oracle=_harm_oracle),
        cell('small-2^-40..2^-p', real_p(lambda p: (min(-p - 2, -44), -40)), oracle=_harm_oracle),
        cell('tiny', real_p(lambda p: (-2 * p - 50, -p - 2)), oracle=_harm_oracle),
        Cell('neg', args(real_in(-2, 3, 1))),
        Cell('neg-reflection', args(real_in(4, 12, 1))),
        cell('near-pole', pole_near(1, 40, pk=lambda p: (4, p + 8))),
        cell('near-negative-zero', near_c(Z['harmonic_zero_neg'], 256, 4, 26)),
        Cell('complex', args(complex_in(-3, 5)), oracle=_harm_oracle, tmax=3),
        Cell('complex-small', args(complex_in(-40, -4)), oracle=_harm_oracle, tmax=3),
        Cell('complex-large', args(complex_in(6, 20))),
    ],
    'barnesg': [
        Cell('int', args(integer(1, 40)), cost=2),
        Cell('real-small', args(real_in(-4, 2)), cost=3),
        Cell('real-2..32', args(real_in(2, 5, 0)), cost=3),
        Cell('real-large', args(real_in(6, 12, 0)), cost=3),
        Cell('neg', args(real_in(1, 5, 1)), cost=3),
        cell('near-zero-at-nonpos-int', pole_near(0, 12, 4, 30), cost=3),
        cell('reflection-switch', around(lambda p: int((p + 10) / 3.33) + 1, 3, sign=-1), cost=3),
        Cell('complex', args(complex_in(-2, 4)), cost=3),
        cell('tiny', real_p(lambda p: (-p - 20, -6)), cost=3),
    ],
    'superfac': [
        Cell('int', args(integer(0, 40)), cost=2),
        Cell('real', args(real_in(-3, 3)), cost=3),
        Cell('real-8..64', args(real_in(3, 6, 0)), cost=3),
        Cell('real-large', args(real_in(6, 12, 0)), cost=3),
        Cell('complex', args(complex_in(-2, 4)), cost=3),
        cell('tiny', real_p(lambda p: (-p - 20, -6)), cost=3),
    ],
    'hyperfac': [
        Cell('int', args(integer(0, 40)), cost=2),
        Cell('neg-int', args(integer(-30, -1)), cost=2),
        Cell('real', args(real_in(-3, 3)), cost=3),
        Cell('real-8..64', args(real_in(3, 6, 0)), cost=3),
        Cell('real-large', args(real_in(6, 12, 0)), cost=3),
        Cell('complex', args(complex_in(-2, 4)), cost=3),
        cell('tiny', real_p(lambda p: (-p - 20, -6)), cost=3),
    ],
}
def shards(tier, seed):
    # the gamma family is cheap: three times the default number of evaluations per cell
    return [{'nshards': NSHARDS, 'budget_s': 330 if tier == 'quick' else 2700, 'scale': 3.0} for _ in range(NSHARDS)]


# ---- exact special clauses -------------------------------------------------------------------------------

POLES = list(range(0, -41, -1)) + [-100, -149, -150, -151, -1000, -4096, -10**6, -(2**70), -(10**30), -(2**200), -(3 << 500)]


def check_poles(rec, r, tier):
    """rgamma is exactly zero at the poles 0, -1, -2, ... and gamma raises there (all argument types, all precisions)"""
    import mpmath
    mp = mpmath.mp
    precs = [10, 15, 53, 100, 333, 400, 1000] if tier == 'quick' else S.PRECS_LIGHT + [2500, 3500]
    old = mp.prec
    try:
        for n in POLES:
            for p in precs:
                mp.prec = p
                forms = [('int', n), ('mpf', mp.mpf(n)), ('mpc', mp.mpc(n, 0))]
                if abs(n) < 2**53:
                    forms.append(('float', float(n)))
                for tname, x in forms:
                    case = {'function': 'rgamma', 'regime': 'exact-pole', 'n': n, 'type': tname, 'prec': p}
                    rec.case(('rgamma-pole', n, tname, p), True, 'rgamma/exact-pole')
                    try:
                        v = mp.rgamma(x)
                        ok = (v == 0) and (getattr(v, '_mpf_', None) == (0, 0, 0, 0) or
                                           getattr(v, '_mpc_', None) == ((0, 0, 0, 0), (0, 0, 0, 0)))
                        obs = repr(v)
                    except Exception as e:
                        ok, obs = False, repr(e)
                    if not ok:
                        rec.violation('C18/rgamma/pole-not-exact-zero', 'rgamma at a pole is not exactly zero', case, obs, '0')
                    case = {'function': 'gamma', 'regime': 'pole-raises', 'n': n, 'type': tname, 'prec': p}
                    rec.case(('gamma-pole', n, tname, p), True, 'gamma/pole-raises')
                    try:
                        v = mp.gamma(x)
                        rec.violation('C18/gamma/pole-does-not-raise', 'gamma at a pole returned a value instead of raising',
                                      case, repr(v), 'exception')
                    except Exception as e:
                        rec.cls('gamma/pole-raises/' + type(e).__name__)
    finally:
        mp.prec = old
    rec.event('exact pole checks (rgamma == 0, gamma raises)', len(POLES))


def run_shard(shard, rec):
    if shard['shard'] == 0:
        from vf import gens as G
        check_poles(rec, G.rng(PROP, shard['seed'], 'poles'), shard.get('tier', 'quick'))
    J.run(PROP, TABLE, shard, rec)


_req = J.required_cells(TABLE)


def required(agg, tier):
    miss = _req(agg, tier)
    if not agg['classes'].get('rgamma/exact-pole') or not agg['classes'].get('gamma/pole-raises'):
        miss.append('exact pole clauses never exercised')
    return miss


def replay(case, rec):
    J.replay(PROP, TABLE, case, rec)
