"""C18 -- gamma-family accuracy (relative error in modulus below 2^(8-p)).  Exemplar for the specfun engine;
the table is extended by the C18 builder."""
from vf import specfun as S
from vf.specfun import Regime, args, real_in, complex_in, near, integer, half_integer

PROP = 'C18'
LEVEL = 'exploration'
NEEDS_REF = True
RULE = ('stratified cells (function x argument regime fixed a priori) x precision list; concrete arguments from the seeded rng; '
        'non-trivial = a finite reference value exists and the result was compared; distinct = (function, regime, args, prec)')
ASSUMPTIONS = ['consensus reference: mpmath 1.3.0 at p+64 and 2p+200 bits and the tree at 3p+300 bits agree to 2^-(p+32)']
SHARD_TIMEOUT = {'quick': 400, 'thorough': 3000}
CASES = {'quick': 120, 'thorough': 2500}

TABLE = {
    'gamma': [Regime('pos-real', args(real_in(-3, 6, 0))), Regime('neg-real', args(real_in(-3, 5, 1))),
              Regime('complex', args(complex_in(-3, 5))), Regime('near-pole', args(near(-3, 1, 4, 40))),
              Regime('tiny', args(real_in(-60, -20)))],
    'rgamma': [Regime('real', args(real_in(-3, 6))), Regime('complex', args(complex_in(-3, 5)))],
    'loggamma': [Regime('pos-real', args(real_in(-3, 8, 0))), Regime('complex', args(complex_in(-3, 6))),
                 Regime('near-neg-axis', args(complex_in(0, 5, -30, -10)))],
}


def shards(tier, seed):
    return [{'n': CASES[tier], 'nshards': 16} for _ in range(16)]


def run_shard(shard, rec):
    S.run(PROP, TABLE, shard, rec, shard['n'])


required = S.required_functions(TABLE)


def replay(case, rec):
    S.replay(PROP, TABLE, case, rec)
