"""C40 -- pickling and copying preserve values exactly.

Observed: the objects produced by pickle.loads(pickle.dumps(x, protocol)) for protocols 0..5, copy.copy(x),
copy.deepcopy(x) (and matrix.copy()) for mpf, mpc and matrix values of the global mp context; for matrices also
the state of the original and of the copy after mutating either of them (history: [LU_decomp], copy, mutate copy,
mutate original).
Oracle: exact -- same type, == (whenever the value equals itself, i.e. no nan inside), identical raw tuples
including bc and the Python types of the four fields, identical stored entry dictionary for matrices, and independence:
mutating the copy leaves the original (entries and its _LU cache object) untouched and vice versa."""
import copy
import pickle
from vf import exactq as Q
from vf import gens as G

PROP = 'C40'
LEVEL = 'exploration'
RULE = ('seeded stratified generation: kind (mpf, mpc, matrix) x value family (zero, +-inf, nan, 1-bit .. 50000-bit mantissas incl. all-ones and '
        '2^k+1 patterns, exponents up to +-10^18, negative values, mpc mixes with zero/special parts, matrices 1x1..5x5 with int/mpf/mpc/zero/'
        'special entries, with and without a populated LU cache) x operation (pickle protocols 0-5, copy.copy, copy.deepcopy, matrix.copy, pickle of a '
        'container holding the value twice). A case is non-trivial unless the value is a finite real with a mantissa below 16 bits and |exponent| < 64; '
        'distinct = distinct (operation, value)')
ASSUMPTIONS = ['only values of the global mp context are in the quantifier (pickling a value of a cloned context raises PicklingError today: recorded as an observation)',
               'nan never compares equal to itself, so == is asserted only for values that equal themselves; the raw representation is asserted always',
               'values are injected exactly through make_mpf / make_mpc; results read from ._mpf_ / ._mpc_ / the matrix entry dictionary']
LEVEL_TEXT = ('exploration: ~1.5*10^5 (quick) / ~1.8*10^6 (thorough) round trips and copies of generated values on the real code, each compared '
              'field by field with the original; matrix copies additionally mutated to observe independence')
LEVEL_NOTE = 'exact comparison, no oracle arithmetic needed; values not generated are not covered'
TECHNIQUE = 'runtime monitor of round-trip results and post-mutation states (exact comparison with the original object state)'

NSHARDS = 16
VALUES = {'quick': 1000, 'thorough': 12000}
PROTOCOLS = [0, 1, 2, 3, 4, 5]


def shards(tier, seed):
    return [{'n': VALUES[tier]} for _ in range(NSHARDS)]


def _mp():
    import mpmath
    return mpmath.mp


# ---------------------------------------------------------------------------------------
# generation
# ---------------------------------------------------------------------------------------
REAL_FAMILIES = ['zero', 'inf', 'ninf', 'nan', 'one-bit', 'tiny-mant', 'short', 'short', 'hexedge', 'ones', 'pow2p1', 'long', 'long', 'verylong', 'hugeexp', 'negexp']


def gen_real(r, fam=None):
    fam = fam or r.choice(REAL_FAMILIES)
    s = r.randint(0, 1)
    if fam == 'zero': return Q.fzero, fam
    if fam == 'inf': return Q.finf, fam
    if fam == 'ninf': return Q.fninf, fam
    if fam == 'nan': return Q.fnan, fam
    if fam == 'one-bit':
        return Q.canon(s, 1, r.choice([0, 1, -1, 5, -1074, 1023, r.randint(-5000, 5000)])), fam
    if fam == 'tiny-mant':
        return Q.canon(s, r.choice([3, 5, 7, 9, 11, 13, 15]), r.randint(-60, 60)), fam
    if fam == 'short':
        return Q.canon(s, G.mantissa(r, r.randint(2, 64)), r.randint(-1100, 1100)), fam
    if fam == 'hexedge':
        # mantissa lengths around multiples of 4 bits (hex digit boundaries), leading hex digit 1 / f, embedded zero digits
        b = 4 * r.randint(1, 40) + r.choice([-1, 0, 1])
        m = G.mantissa(r, max(1, b), r.choice(['pow2p1', 'ones', 'sparse', 'rand']))
        return Q.canon(s, m, r.randint(-100, 100)), fam
    if fam == 'ones':
        return Q.canon(s, (1 << r.choice([2, 8, 53, 64, 1000, r.randint(2, 3000)])) - 1, r.randint(-100, 100)), fam
    if fam == 'pow2p1':
        return Q.canon(s, (1 << r.choice([1, 4, 52, 63, 64, 999, r.randint(1, 3000)])) + 1, r.randint(-100, 100)), fam
    if fam == 'long':
        return Q.canon(s, G.mantissa(r, r.choice([65, 100, 333, 1000, 4300 * 4, r.randint(65, 6000)])), G.exponent(r, 53)), fam
    if fam == 'verylong':
        return Q.canon(s, G.mantissa(r, r.choice([20000, 50000, r.randint(6000, 50000)])), G.exponent(r, 53, wild=False)), fam
    if fam == 'hugeexp':
        return Q.canon(s, G.mantissa(r, r.randint(1, 200)), r.choice(G.BIG_EXPS) + r.randint(-3, 3)), fam
    return Q.canon(s, G.mantissa(r, r.randint(1, 200)), -r.randint(1, 10**6)), 'negexp'


def trivial_raw(t):
    sign, man, exp, bc = t
    return bool(man) and bc < 16 and abs(exp) < 64


def gen_value(r, i):
    """-> JSON-able descriptor, family label"""
    k = ['mpf', 'mpf', 'mpc', 'mpf', 'mpc', 'matrix'][i % 6]
    if k == 'mpf':
        raw, fam = gen_real(r)
        return {'k': 'mpf', 'raw': raw}, fam
    if k == 'mpc':
        re, f1 = gen_real(r)
        im, f2 = gen_real(r)
        return {'k': 'mpc', 're': re, 'im': im}, f1 + '+' + f2 + 'j'
    rows, cols = r.choice([(1, 1), (1, 3), (3, 1), (2, 2), (2, 3), (3, 3), (4, 4), (5, 5), (3, 2)])
    ents = []
    kinds = set()
    for a in range(rows):
        for b in range(cols):
            e = r.choice(['zero', 'int', 'int', 'mpf', 'mpf', 'mpf', 'mpc', 'mpc', 'special'])
            if e == 'zero':
                ents.append(['int', 0])
            elif e == 'int':
                ents.append(['int', r.choice([1, -1, 2, 7, r.randint(-10**6, 10**6), r.getrandbits(r.choice([8, 70, 300]))])])
            elif e == 'mpf':
                ents.append(['mpf', gen_real(r, r.choice(['short', 'short', 'long', 'ones', 'tiny-mant', 'hugeexp', 'hexedge']))[0]])
            elif e == 'mpc':
                ents.append(['mpc', gen_real(r, r.choice(['short', 'zero', 'long', 'tiny-mant']))[0], gen_real(r, r.choice(['short', 'long', 'one-bit', 'inf']))[0]])
            else:
                ents.append(['mpf', gen_real(r, r.choice(['inf', 'ninf', 'nan']))[0]])
            kinds.add(e)
    lu = (rows == cols) and r.random() < 0.5
    return {'k': 'matrix', 'rows': rows, 'cols': cols, 'entries': ents, 'lu': lu}, 'matrix%dx%d%s' % (rows, cols, '+LU' if lu else '')


def build(mp, d):
    k = d['k']
    if k == 'mpf':
        return mp.make_mpf(tuple(d['raw']))
    if k == 'mpc':
        return mp.make_mpc((tuple(d['re']), tuple(d['im'])))
    A = mp.matrix(d['rows'], d['cols'])
    it = iter(d['entries'])
    for a in range(d['rows']):
        for b in range(d['cols']):
            e = next(it)
            if e[0] == 'int':
                A[a, b] = e[1]
            elif e[0] == 'mpf':
                A[a, b] = mp.make_mpf(tuple(e[1]))
            else:
                A[a, b] = mp.make_mpc((tuple(e[1]), tuple(e[2])))
    if d.get('lu'):
        try:
            mp.LU_decomp(A)
        except Exception:
            pass
    return A


# ---------------------------------------------------------------------------------------
# exact state snapshots
# ---------------------------------------------------------------------------------------
def rawsig(t):
    """raw tuple + the Python types of its fields"""
    return (tuple(t), tuple(type(f).__name__ for f in t))


def snap_scalar(x):
    if hasattr(x, '_mpf_'):
        return ('mpf', type(x), rawsig(x._mpf_))
    if hasattr(x, '_mpc_'):
        re, im = x._mpc_
        return ('mpc', type(x), rawsig(re), rawsig(im), type(x._mpc_).__name__)
    return ('other', type(x), repr(x))


def snap_matrix(A, with_lu=True):
    data = A._matrix__data
    items = tuple(sorted((k, snap_scalar(v)) for k, v in data.items()))
    lu = None
    if with_lu and A._LU is not None:
        L, p = A._LU
        lu = (snap_matrix(L, False), tuple(p))
    return ('matrix', type(A), A.rows, A.cols, items, lu)


def self_equal(x):
    try:
        return bool(x == x)
    except Exception:
        return False


def has_nan(d):
    def isn(t):
        return tuple(t) == Q.fnan
    if d['k'] == 'mpf':
        return isn(d['raw'])
    if d['k'] == 'mpc':
        return isn(d['re']) or isn(d['im'])
    return any((e[0] == 'mpf' and isn(e[1])) or (e[0] == 'mpc' and (isn(e[1]) or isn(e[2]))) for e in d['entries'])


OPS = ['pickle0', 'pickle1', 'pickle2', 'pickle3', 'pickle4', 'pickle5', 'copy', 'deepcopy', 'container']


class _default_int_str_limit(object):
    """Run the pickling under CPython's DEFAULT int<->str digit limit (4300), as a user process would: the harness lifts
    that limit in its workers for its own bookkeeping, which would hide a pickling scheme that writes huge mantissas
    as decimal text (text protocols 0/1 then raise ValueError for mantissas above ~14 300 bits)."""

    def __enter__(self):
        import sys
        self.old = sys.get_int_max_str_digits() if hasattr(sys, 'get_int_max_str_digits') else None
        if self.old is not None:
            sys.set_int_max_str_digits(4300)

    def __exit__(self, *a):
        import sys
        if self.old is not None:
            sys.set_int_max_str_digits(self.old)
        return False


def apply(op, x):
    with _default_int_str_limit():
        return _apply(op, x)


def _apply(op, x):
    if op.startswith('pickle'):
        proto = int(op[6:])
        return pickle.loads(pickle.dumps(x, proto))
    if op == 'copy':
        return copy.copy(x)
    if op == 'deepcopy':
        return copy.deepcopy(x)
    if op == 'method':
        return x.copy()
    if op == 'container':
        proto = 4
        c = pickle.loads(pickle.dumps([x, (x,), {'k': x}], proto))
        if not (c[0] is c[1][0] or snap(c[0]) == snap(c[1][0])) or snap(c[0]) != snap(c[2]['k']):
            raise AssertionError('container members differ after round trip')
        return c[0]
    raise ValueError(op)


def snap(x):
    return snap_matrix(x) if hasattr(x, '_matrix__data') else snap_scalar(x)


def opgroup(op):
    return 'pickle' if op.startswith('pickle') or op == 'container' else ('matrix.copy' if op == 'method' else op)


def run_one(mp, rec, d, fam, op):
    kind = d['k']
    x = build(mp, d)
    before = snap(x)
    case = {'op': op, 'x': d, 'fam': fam}
    if kind == 'matrix':
        nontrivial = True
    elif kind == 'mpf':
        nontrivial = not trivial_raw(tuple(d['raw']))
    else:
        nontrivial = not (trivial_raw(tuple(d['re'])) and trivial_raw(tuple(d['im'])))
    famc = fam if kind == 'mpf' else ('mix' if kind == 'mpc' else fam)
    rec.case((op, repr(d)), nontrivial, cls='%s/%s/%s' % (kind, op, famc if kind != 'mpc' else 'mix'))
    if kind == 'mpc':
        rec.cls('mpc-parts/' + fam)
    rec.sample({'op': op, 'kind': kind, 'fam': fam})
    key = 'C40/%s/%s/' % (kind, opgroup(op))
    try:
        y = apply(op, x)
    except Exception as e:
        rec.violation(key + 'raises-' + type(e).__name__, '%s of a %s raises %s: %s' % (op, kind, type(e).__name__, str(e)[:200]), case,
                      observed=repr(e)[:300], expected='an equal object of the same type')
        return
    after_x = snap(x)
    if after_x != before:
        rec.violation(key + 'original-changed', '%s changed the original %s' % (op, kind), case, observed=repr(after_x)[:300], expected=repr(before)[:300])
        return
    got = snap(y)
    if type(y) is not type(x):
        rec.violation(key + 'type', '%s of a %s gives type %r instead of %r' % (op, kind, type(y), type(x)), case, observed=repr(type(y)), expected=repr(type(x)))
        return
    # representation: raw tuples (and for matrices the stored dictionary) identical.  The LU cache of a matrix is
    # compared separately (a shallow copy is documented to start with an empty cache).
    if kind == 'matrix':
        same = got[:5] == before[:5]
    else:
        same = got == before
    if not same:
        rec.violation(key + 'representation', '%s of a %s does not reproduce the raw representation' % (op, kind), case,
                      observed=repr(got)[:400], expected=repr(before)[:400])
        return
    if not has_nan(d):
        try:
            eq = (y == x) and not (y != x)
        except Exception as e:
            eq = repr(e)
        if eq is not True:
            rec.violation(key + 'not-equal', '%s of a %s does not compare equal to the original' % (op, kind), case, observed=repr(eq), expected='True')
            return
    if kind != 'matrix':
        return
    # ---- matrices: cache and independence history -------------------------------------------------------
    rec.event('matrix copies followed by mutation histories')
    if x._LU is not None:
        rec.event('matrix copies taken with a populated LU cache')
        if y._LU is not None:
            if y._LU is x._LU or y._LU[0] is x._LU[0]:
                rec.violation(key + 'shares-LU', '%s shares the LU cache object with the original' % op, case, observed='same object', expected='independent or empty cache')
                return
            if got[5] != before[5]:
                rec.violation(key + 'LU-differs', '%s carries an LU cache that differs from the original cache' % op, case,
                              observed=repr(got[5])[:300], expected=repr(before[5])[:300])
                return
    if y._matrix__data is x._matrix__data:
        rec.violation(key + 'independence', '%s shares the entry dictionary with the original' % op, case, observed='same dict', expected='independent storage')
        return
    lu_obj = x._LU
    # mutate the copy: every stored cell and one empty cell
    r0, c0 = d['rows'] - 1, d['cols'] - 1
    y[0, 0] = y[0, 0] + 1
    y[r0, c0] = mp.make_mpf((0, 12345, -3, 14))
    if snap(x) != before or x._LU is not lu_obj:
        rec.violation(key + 'independence', 'mutating the result of %s changed the original matrix (or its LU cache)' % op, case,
                      observed=repr(snap(x))[:400], expected=repr(before)[:400])
        return
    if y._LU is not None:
        rec.violation(key + 'stale-LU', 'the copy keeps its LU cache after being mutated', case, observed='cache kept', expected='cache cleared')
        return
    after_y = snap(y)
    # mutate the original: the copy must not follow
    x[0, 0] = mp.make_mpf((1, 777, 5, 10))
    x[r0, c0] = 0
    if snap(y) != after_y:
        rec.violation(key + 'independence', 'mutating the original changed the result of %s' % op, case, observed=repr(snap(y))[:400], expected=repr(after_y)[:400])


def run_value(mp, rec, d, fam, only=None):
    ops = list(OPS)
    if d['k'] == 'matrix':
        ops.append('method')
    for op in ops:
        if only and op != only:
            continue
        run_one(mp, rec, d, fam, op)


def run_shard(shard, rec):
    mp = _mp()
    r = G.rng(PROP, shard['seed'], shard['shard'])
    from vf.instrument import AnchorCount
    with AnchorCount(rec, ['mpmath.libmp.libmpf:to_pickable', 'mpmath.libmp.libmpf:from_pickable',
                           'mpmath.ctx_mp_python:_mpf.__getstate__', 'mpmath.ctx_mp_python:_mpf.__setstate__',
                           'mpmath.ctx_mp_python:_mpc.__getstate__', 'mpmath.ctx_mp_python:_mpc.__setstate__',
                           'mpmath.matrices.matrices:_matrix.copy']):
        if shard['shard'] == 0:
            # fixed table: the four special values, zero, and hex-digit edge mantissas, every operation
            for raw, fam in [(Q.fzero, 'zero'), (Q.finf, 'inf'), (Q.fninf, 'ninf'), (Q.fnan, 'nan'), ((0, 1, 0, 1), 'one-bit'), ((1, 15, 0, 4), 'tiny-mant'),
                             ((0, 17, -4, 5), 'hexedge'), ((1, (1 << 50000) - 1, -7, 50000), 'verylong'), ((0, (1 << 49999) + 1, 10**18, 50000), 'verylong')]:
                run_value(mp, rec, {'k': 'mpf', 'raw': raw}, fam)
            for re in (Q.fzero, Q.finf, Q.fnan, (1, 5, -1, 3)):
                for im in (Q.fzero, Q.fninf, Q.fnan, (0, 3, 0, 2)):
                    run_value(mp, rec, {'k': 'mpc', 're': re, 'im': im}, 'table')
        for i in range(shard['n']):
            d, fam = gen_value(r, i + shard['shard'])
            run_value(mp, rec, d, fam)
    rec.event('round trips / copies compared with the original', rec.evals)
    if shard['shard'] == 0:
        try:
            c = mp.clone()
            pickle.dumps(c.mpf(3))
            rec.note('pickling a value of a cloned context', 'works')
        except Exception as e:
            rec.note('pickling a value of a cloned context', 'raises %s: %s (outside the quantifier: only values of the global mp context)' % (type(e).__name__, str(e)[:120]))


def required(agg, tier):
    miss = []
    cl = agg['classes']
    for kind in ('mpf', 'mpc', 'matrix'):
        for op in OPS + (['method'] if kind == 'matrix' else []):
            if not any(k.startswith('%s/%s/' % (kind, op)) for k in cl):
                miss.append('%s never observed for %s' % (op, kind))
    for fam in ('zero', 'inf', 'ninf', 'nan', 'verylong', 'hugeexp', 'long'):
        if not any(k.startswith('mpf/pickle2/' + fam) for k in cl):
            miss.append('family %s never pickled' % fam)
    ev = agg['events']
    if not ev.get('matrix copies followed by mutation histories'):
        miss.append('no matrix copy reached the mutation history (independence not observed)')
    if not ev.get('matrix copies taken with a populated LU cache'):
        miss.append('no matrix copy with a populated LU cache observed')
    an = agg['anchors']
    for a in ('mpmath.libmp.libmpf:to_pickable', 'mpmath.libmp.libmpf:from_pickable'):
        if a in an and not an[a]:
            miss.append('anchor %s never reached' % a)
    return miss


def _unjson(d):
    from vf.core import unjson_int

    def raw(t):
        return (int(t[0]), unjson_int(t[1]), unjson_int(t[2]), int(t[3]))
    d = dict(d)
    if d['k'] == 'mpf':
        d['raw'] = raw(d['raw'])
    elif d['k'] == 'mpc':
        d['re'], d['im'] = raw(d['re']), raw(d['im'])
    else:
        ents = []
        for e in d['entries']:
            if e[0] == 'int':
                ents.append(['int', unjson_int(e[1])])
            elif e[0] == 'mpf':
                ents.append(['mpf', raw(e[1])])
            else:
                ents.append(['mpc', raw(e[1]), raw(e[2])])
        d['entries'] = ents
    return d


def replay(case, rec):
    mp = _mp()
    c = case['case']
    run_value(mp, rec, _unjson(c['x']), c.get('fam', 'replay'), only=c['op'])
