"""C28 -- numerical differentiation, Taylor and Pade results are accurate.

Observed: results of diff (orders 0..10, h=, addprec=, relative=, direction= (real and complex), singular=, method='step'|'quad',
radius=), partial derivatives (tuples), diffs (finite n and the endless generator), diffun, taylor, difference, differint of
x^k, pade(a, L, M).
Oracle: polynomials and rational functions: exact derivatives / Taylor coefficients in Fraction (power-series division);
P(x) e^{kx} {1, cos, sin}(wx+phi): Leibniz formula evaluated with the reference release at 2p+200 / 2p+264 bits;
difference(): exact binomial sum; differint: Gamma closed form (reference) or exact rational for integer orders;
pade: exact series multiplication  q*a - p = O(x^{L+M+1})  on the returned coefficients, scaled tolerance.
Tolerance |v - V| <= 2^(10-p) max(1,|V|).
"""
import math, time
from fractions import Fraction as F
from vf import gens as G
from vf import calcq as Q

PROP = 'C28'
LEVEL = 'exploration'
NEEDS_REF = True
RULE = ('seeded generation inside a fixed list of cells (function family x entry point x option set x order x point kind x precision class); '
        'a case is non-trivial when it is inside the envelope and order > 0 (or a Pade / difference with at least 2 terms); '
        'distinct = distinct (entry point, function parameters, point, order, options, precision)')
ASSUMPTIONS = ['vf.calcq exact Fraction / Gaussian-rational arithmetic and the power-series division are correct',
               'mpmath 1.3.0 exp / cos / sin / gamma at 2p+200 bits are accurate to 2^-(p+60) (second evaluation at 2p+264 bits must agree)',
               'envelope: polynomials, P(x)e^{kx}cos/sin(wx+phi) with |k|,|w| <= 8, rational functions at distance >= 1/2 from their poles; '
               'smoothness max(|f^(n+1)|,|f^(n+2)|) <= 2^10 max(1,|f^(n)|) at the point; user-chosen h only where the difference formula is exact '
               '(polynomial degree <= n) or h <= 2^-(p/2+12) central; method=quad only while n! max|f| / r^n <= 2^10 max(1,|f^(n)|) on the contour']
_TS = float(__import__('os').environ.get('VERIF_DEV_TIMEOUT_SCALE', '1'))     # development only (overloaded machine)
SHARD_TIMEOUT = {'quick': int(420 * _TS), 'thorough': int(3000 * _TS)}
LEVEL_TEXT = ('exploration: ~6*10^3 (quick) / ~8*10^4 (thorough) derivative / Taylor / Pade / difference computations of the real code '
              'decided against exact rational or reference closed forms')
LEVEL_NOTE = ('trusted base: vf/calcq.py, Fraction arithmetic, reference release 1.3.0 for exp/cos/sin/gamma closed forms at 2p+200 bits; '
              'functions / points / option combinations not generated are not covered')
TECHNIQUE = 'runtime monitoring: closed-form oracle on every observed result of the differentiation entry points; exact residual monitor for pade'

import os
DEV_SCALE = float(os.environ.get('VERIF_DEV_SCALE', '1'))      # development only (mutant sweeps on a busy machine); 1 in every registered command
TOL = 10
SMOOTH = 10       # log2 of the admitted growth of the next two derivatives relative to max(1,|f^(n)|)
KQUAD = 10


# ---------------------------------------------------------------------------------------
# function families
# ---------------------------------------------------------------------------------------
def _shift_poly(cs, x0):
    """coefficients of P(x0 + t) in t (Gaussian rationals), cs Fractions"""
    out = [(F(0), F(0))] * len(cs)
    out = list(out)
    # Horner-style repeated synthetic shift
    coef = [(c, F(0)) for c in cs]
    n = len(coef)
    for i in range(n):
        for j in range(n - 2, i - 1, -1):
            coef[j] = Q.cadd(coef[j], Q.cmul(coef[j + 1], x0))
    return coef


def _series_div(num, den, N):
    """first N+1 Taylor coefficients of num(t)/den(t), den[0] != 0 (Gaussian rationals)"""
    d0 = den[0]
    n2 = Q.cabs2(d0)
    inv = (d0[0] / n2, -d0[1] / n2)
    out = []
    for i in range(N + 1):
        s = num[i] if i < len(num) else (F(0), F(0))
        for j in range(1, min(i, len(den) - 1) + 1):
            s = Q.csub(s, Q.cmul(den[j], out[i - j]))
        out.append(Q.cmul(s, inv))
    return out


class Fn(object):
    def __init__(self, d):
        self.d = d


class PolyF(Fn):
    """P(x) / Q(x)  (Q = 1 for polynomials); dyadic coefficients"""

    def tree(self, mp):
        d = self.d
        P = [Q.mk(mp, c) for c in d['P']]
        Qc = [Q.mk(mp, c) for c in d.get('Q', [[1, 0]])]

        def ev(cs, x):
            s = cs[-1]
            for c in reversed(cs[:-1]):
                s = s * x + c
            return s
        if len(Qc) == 1 and d.get('Q', [[1, 0]])[0] == [1, 0]:
            if d.get('style') == 'pow':
                return lambda x: sum(c * x ** j for j, c in enumerate(P))
            return lambda x: ev(P, x) + 0 * x if len(P) == 1 else ev(P, x)
        return lambda x: ev(P, x) / ev(Qc, x)

    def taylor(self, x0, N):
        """exact Taylor coefficients a_0..a_N at x0 (Gaussian rational pair)"""
        d = self.d
        P = _shift_poly([Q.dy(c) for c in d['P']], x0)
        Qc = _shift_poly([Q.dy(c) for c in d.get('Q', [[1, 0]])], x0)
        return _series_div(P, Qc, N)

    def deriv(self, x0, n):
        a = self.taylor(x0, n + 2)
        real = x0[1] == 0
        out = []
        for k in (n, n + 1, n + 2):
            v = Q.cscale(a[k], math.factorial(k))
            out.append(v[0] if real else v)
        return out[0], out[1:]

    def poles_ok(self, x0):
        """distance from x0 to every pole >= 1/2: checked on the exact denominator by Rouche-free bound: |Q(x0)| must exceed
        sum_{j>=1} |Q^(j)(x0)|/j! (1/2)^j  (then Q has no zero in the disc |t| <= 1/2)"""
        d = self.d
        if 'Q' not in d:
            return True
        Qc = _shift_poly([Q.dy(c) for c in d['Q']], x0)
        lead = Q.isqrt_floor(Q.cabs2(Qc[0]))
        rest = sum((Q.isqrt_floor(Q.cabs2(c)) + F(1, 1 << 60)) * F(1, 2) ** j for j, c in enumerate(Qc) if j >= 1)
        return lead > rest

    def degree(self):
        return len(self.d['P']) - 1 if 'Q' not in self.d else None

    def maxabs(self, x0, r):
        """upper bound of |f| on |z - x0| = r (Fraction) or None"""
        if 'Q' in self.d:
            return None
        m = Q.isqrt_floor(Q.cabs2(x0)) + F(1, 1 << 60) + r
        return sum(abs(Q.dy(c)) * m ** j for j, c in enumerate(self.d['P']))


class ExpF(Fn):
    """P(x) e^{k x} T(w x + phi), T in 1 | cos | sin"""

    def tree(self, mp):
        d = self.d
        P = [Q.mk(mp, c) for c in d['P']]
        k, w, ph = Q.mk(mp, d['k']), Q.mk(mp, d['w']), Q.mk(mp, d['phi'])
        T = d['T']

        def ev(x):
            s = P[-1]
            for c in reversed(P[:-1]):
                s = s * x + c
            return s
        one = len(d['P']) == 1 and d['P'][0] == [1, 0]
        if T == '1':
            g = lambda x: mp.exp(k * x)
        elif T == 'cos':
            g = (lambda x: mp.exp(k * x) * mp.cos(w * x + ph)) if d['k'][0] else (lambda x: mp.cos(w * x + ph))
        else:
            g = (lambda x: mp.exp(k * x) * mp.sin(w * x + ph)) if d['k'][0] else (lambda x: mp.sin(w * x + ph))
        return g if one else (lambda x: ev(x) * g(x))

    def _dn(self, rmp, x0, n, conj=False):
        """n-th derivative of P(x) exp(z x + i phi) at x0 (complex, reference); conj: z = k - i w, phase -phi"""
        d = self.d
        sg = -1 if conj else 1
        z = rmp.mpc(Q.rq(rmp, Q.dy(d['k'])), sg * Q.rq(rmp, Q.dy(d['w'])) if d['T'] != '1' else 0)
        ph = sg * Q.rq(rmp, Q.dy(d['phi'])) if d['T'] != '1' else rmp.mpf(0)
        x = Q.rc(rmp, x0)
        cs = [Q.dy(c) for c in d['P']]
        ders = [cs]
        while len(ders[-1]) > 1:
            c = ders[-1]
            ders.append([c[j] * j for j in range(1, len(c))])
        tot = rmp.mpc(0)
        for j in range(min(n, len(ders) - 1) + 1):
            pv = rmp.mpc(0)
            for cc in reversed(ders[j]):
                pv = pv * x + Q.rq(rmp, cc)
            tot += math.comb(n, j) * pv * z ** (n - j)
        return tot * rmp.exp(z * x + rmp.mpc(0, 1) * ph)

    def oracle_n(self, x0, n):
        T = self.d['T']
        real = x0[1] == 0

        def fn(rmp):
            a = self._dn(rmp, x0, n)
            if T == '1':
                return a.real if real else a
            b = self._dn(rmp, x0, n, conj=True)       # cos t = (e^{it} + e^{-it})/2, sin t = (e^{it} - e^{-it})/(2i): valid for complex x
            v = (a + b) / 2 if T == 'cos' else (a - b) / rmp.mpc(0, 2)
            return v.real if real else v
        return Q.RefOracle(fn)

    def deriv(self, x0, n):
        return self.oracle_n(x0, n), [self.oracle_n(x0, n + 1), self.oracle_n(x0, n + 2)]

    def poles_ok(self, x0):
        return True

    def degree(self):
        return None

    def maxabs(self, x0, r):
        d = self.d
        m = float(Q.isqrt_floor(Q.cabs2(x0))) + 1e-9 + float(r)
        pm = sum(abs(float(Q.dy(c))) * m ** j for j, c in enumerate(d['P']))
        k, w = abs(float(Q.dy(d['k']))), (abs(float(Q.dy(d['w']))) if d['T'] != '1' else 0.0)
        ex = float(Q.dy(d['k'])) * float(x0[0]) + k * float(r) + w * (abs(float(x0[1])) + float(r))
        try:
            return F(pm * math.exp(ex) * 1.001)
        except OverflowError:
            return None


def fn_of(d):
    return PolyF(d) if d['fam'] in ('poly', 'ratl') else ExpF(d)


def xpt(x):
    if isinstance(x[0], (list, tuple)):
        return (Q.dy(x[0]), Q.dy(x[1]))
    return (Q.dy(x), F(0))


def xtree(mp, x, form='mpf'):
    if isinstance(x[0], (list, tuple)):
        return Q.mkc(mp, x)
    q = Q.dy(x)
    if form == 'py':
        if q.denominator == 1:
            return int(q)
        if abs(q.numerator).bit_length() <= 53:
            return float(q)
    return Q.mk(mp, q)


def mag(o, p):
    """float magnitude of an oracle value (exact or reference); None if unavailable"""
    if isinstance(o, Q.RefOracle):
        V, why = o.value(p)
        return None if V is None else float(abs(V))
    if isinstance(o, tuple):
        return math.sqrt(float(Q.cabs2(o)))
    return abs(float(o))


def smooth_ok(o, nxt, p):
    m0 = mag(o, p)
    if m0 is None:
        return True
    for t in nxt:
        m = mag(t, p)
        if m is not None and m > 2.0 ** SMOOTH * max(1.0, m0):
            return False
    return True


# ---------------------------------------------------------------------------------------
def judge(rec, desc, v, oracle, p, inside, why, cls, nontrivial=True, key=None, ident_extra=None):
    ident = repr(sorted((k, repr(x)) for k, x in desc.items())) + repr(ident_extra)
    rec.case(ident, nontrivial and inside, cls=cls + ('/in' if inside else '/outside-envelope'))
    verdict, units, tier, expect = Q.decide(v, oracle, p, TOL)
    rec.event('decided by: ' + tier)
    case = dict(desc, why_outside=why)
    if ident_extra is not None:
        case['index'] = ident_extra
    if verdict == 'held':
        if inside:
            rec.maximum('log2 err/(2^-p max(1,|V|)) inside envelope [%s]' % cls.split('/')[0], units, case)
    elif verdict == 'violated':
        if inside:
            rec.violation(key or mech_key(desc), '%s off by 2^%.1f * 2^-p * max(1,|V|) (allowed 2^%d)' % (desc['kind'], units, TOL), case,
                          observed=Q.show(v), expected=expect, severity=round(min(units, 1e6), 1))
        else:
            rec.note('outside envelope: error above tolerance', {'case': case, 'log2_err_units': units, 'value': Q.show(v), 'expected': expect}, cap=40)
            rec.event('outside-envelope cases above tolerance (observed, not asserted)')
    else:
        rec.undecided(verdict, case)
    if inside and len(rec.samples) < 8:
        rec.sample({'case': desc, 'value': Q.show(v), 'expected': expect, 'tier': tier, 'log2_err_units': units})
    return verdict


def mech_key(desc):
    k = desc['kind']
    if k in ('diff', 'diffs', 'taylor', 'diffun', 'partial'):
        opts = desc.get('opts', {})
        if opts.get('relative') and 'h' not in opts and 'x' in desc:
            x0 = xpt(desc['x'])
            m = math.sqrt(float(Q.cabs2(x0))) if Q.cabs2(x0) else 0.0
            if m and not (0.5 <= m < 1):
                # path key: hsteps() took the 'relative' branch with a non-zero magnitude correction
                return 'C28/hsteps/relative-step-scaled-inversely/%s' % ('large-x' if m >= 1 else 'tiny-x')
        o = '+'.join(sorted(n for n in opts if n not in ('radius',))) or 'default'
        m = opts.get('method', 'step')
        return 'C28/%s/%s/%s/%s' % (k, m, o if m == 'step' else 'quad', desc['f']['fam'] if 'f' in desc else 'nd')
    return 'C28/%s' % k


def _opts(mp, opts):
    kw = {}
    for k, v in opts.items():
        if k in ('h', 'radius'):
            kw[k] = Q.mk(mp, v)
        elif k == 'direction' and isinstance(v, list):
            kw[k] = mp.mpc(v[0], v[1])
        else:
            kw[k] = v
    return kw


def envelope_1d(fn, x0, n, opts, p, o, nxt, kind='diff'):
    """a-priori predicate for one derivative of order n at x0 with the given options"""
    why = []
    d = fn.d
    if not fn.poles_ok(x0):
        why.append('closer than 1/2 to a pole')
    if d['fam'] == 'exp' and (abs(Q.dy(d['k'])) > 8 or abs(Q.dy(d['w'])) > 8):
        why.append('rate or frequency above 8')
    method = opts.get('method', 'step')
    deg = fn.degree()
    if method == 'step':
        if not smooth_ok(o, nxt, p):
            why.append('next derivatives grow by more than 2^%d' % SMOOTH)
        if 'h' in opts:
            h = Q.dy(opts['h'])
            central = not opts.get('direction')
            exact = deg is not None and deg <= n + (1 if central else 0)
            small = central and h <= F(2) ** (-(p // 2 + 12))
            if kind in ('diffs', 'taylor'):
                # one stencil serves all orders: the k-th difference is centred up to (n_max) h away from x
                exact = deg is not None and deg <= n
                small = h <= F(2) ** (-(p + 6))
            if not (exact or small):
                why.append('user step h too large for a non-exact difference formula')
            if h < F(2) ** (-(p + 16)):
                why.append('user step h below the default step')
        if opts.get('addprec', 10) < 5:
            why.append('addprec below 5')
        if opts.get('relative') and x0 == (F(0), F(0)):
            why.append('relative step at x = 0')
        if not opts.get('relative') and 'h' not in opts and Q.cabs2(x0) > 1:
            # absolute step 2^-(p+addprec) at a large point: the n-th difference cancels about n*mag(x) more bits than the
            # (p+2 addprec)(n+1) working bits of hsteps provide for; the documentation prescribes relative=True there
            mg = int(math.ceil(0.5 * Q.log2f(Q.cabs2(x0))))
            ap = opts.get('addprec', 10)
            if n * mg > ap * (n + 2) - 10:
                why.append('absolute step at a large point (documented remedy: relative=True)')
        dr = opts.get('direction')
        if isinstance(dr, list) and deg is None and d['fam'] == 'ratl':
            why.append('complex direction on a rational function')
    else:
        r = Q.dy(opts.get('radius', [1, -2]))
        M = fn.maxabs(x0, r)
        m0 = mag(o, p)
        if M is None or m0 is None:
            why.append('no a-priori bound on the contour')
        else:
            kq = float(M) * math.factorial(n) / float(r) ** n
            if kq > 2.0 ** KQUAD * max(1.0, m0):
                why.append('contour conditioning n! max|f| / r^n above 2^%d max(1,|V|)' % KQUAD)
        if d['fam'] == 'ratl':
            why.append('contour may enclose a pole')
    return (not why), why


def run_diff(mp, rec, desc):
    """kinds diff / diffun / diffs / taylor on a 1-D function"""
    p = desc['prec']
    fn = fn_of(desc['f'])
    x0 = xpt(desc['x'])
    n = desc['n']
    opts = desc.get('opts', {})
    kind = desc['kind']
    f0 = fn.tree(mp)
    # the test function itself accepts any number type (diffun(f, 0) hands the caller's float straight to f)
    f = lambda t: f0(mp.convert(t))
    old = mp.prec
    label = '%s/%s/%s/%s' % (kind, desc['f']['fam'], opts.get('method', 'step'), '+'.join(sorted(opts)) or 'default')
    if desc['f']['fam'] == 'ratl' and Q.cabs2(_shift_poly([Q.dy(c) for c in desc['f']['Q']], x0)[0]) == 0:
        rec.note('generated point is exactly a pole (skipped)', desc, cap=5)
        return
    try:
        mp.prec = p
        kw = _opts(mp, opts)
        x = xtree(mp, desc['x'], desc.get('form', 'mpf'))
        try:
            if kind == 'diff':
                res = [(n, mp.diff(f, x, n, **kw))]
            elif kind == 'diffun':
                res = [(n, mp.diffun(f, n, **kw)(x))]
            elif kind == 'diffs':
                if desc.get('endless'):
                    g = mp.diffs(f, x, **kw)
                    res = [(k, next(g)) for k in range(n + 1)]
                else:
                    res = list(enumerate(mp.diffs(f, x, n, **kw)))
                    if len(res) != n + 1:
                        rec.case(repr(desc), True, cls=label + '/length')
                        rec.violation('C28/diffs/length', 'diffs(f, x, n) yielded %d values instead of n+1' % len(res), desc,
                                      observed=len(res), expected=n + 1)
                        return
            elif kind == 'taylor':
                kw2 = dict(kw)
                if desc.get('chop') is not None:
                    kw2['chop'] = desc['chop']
                res = list(enumerate(mp.taylor(f, x, n, **kw2)))
                if len(res) != n + 1:
                    rec.case(repr(desc), True, cls=label + '/length')
                    rec.violation('C28/taylor/length', 'taylor(f, x, n) returned %d coefficients instead of n+1' % len(res), desc,
                                  observed=len(res), expected=n + 1)
                    return
            else:
                raise ValueError(kind)
        except Exception as e:
            o, nxt = fn.deriv(x0, n)
            inside, why = envelope_1d(fn, x0, n, opts, p, o, nxt)
            rec.case(repr(desc), inside, cls=label + '/exception')
            if inside:
                rec.violation(mech_key(desc) + '/exception/' + type(e).__name__, '%s raised %s: %s' % (kind, type(e).__name__, str(e)[:80]), desc,
                              observed=repr(e)[:200], expected='a value')
            else:
                rec.note('outside envelope: exception', {'desc': desc, 'exc': repr(e)[:100]})
            return
    finally:
        mp.prec = old
    for k, v in res:
        o, nxt = fn.deriv(x0, k)
        inside, why = envelope_1d(fn, x0, k, opts, p, o, nxt, kind)
        if kind == 'diffs' and opts.get('method', 'step') == 'step' and inside:
            # diffs evaluates all orders from one stencil of n+1 points: the k-th difference is centred up to n h away from x
            pass
        orc = o
        if kind == 'taylor':
            fk = math.factorial(k)
            if isinstance(o, Q.RefOracle):
                orc = Q.RefOracle(lambda rmp, o=o, fk=fk: o.fn(rmp) / fk)
            elif isinstance(o, tuple):
                orc = Q.cscale(o, F(1, fk))
            else:
                orc = o / fk
        judge(rec, desc, v, orc, p, inside, why, label, nontrivial=(k > 0), ident_extra=(k if len(res) > 1 else None))


def run_history(mp, rec, desc):
    """lazily evaluated objects under a changing working precision.
    kind 'diffs-history': g = diffs(f, x, n) created at the first precision of the plan; the plan is a list of
    [precision, number of items to consume]; every yielded derivative must meet the bound at
        min(precision current when the samples it was computed from were taken, precision current when it was yielded)
    -- 'samples taken' is observed behaviourally (the wrapped f was evaluated during that next()), so the rule does not
    depend on how the generator batches its stencils.
    kind 'diffun-history': g = diffun(f, n) built at p1 and called at p2: must meet the bound at p2."""
    fn = fn_of(desc['f'])
    x0 = xpt(desc['x'])
    opts = desc.get('opts', {})
    f0 = fn.tree(mp)
    calls = [0]

    def f(t):
        calls[0] += 1
        return f0(mp.convert(t))
    plan = desc['plan']
    old = mp.prec
    items = []           # (order, value, required precision)
    label = '%s/%s/%s' % (desc['kind'], desc['f']['fam'], 'raise' if plan[-1][0] > plan[0][0] else 'lower')
    try:
        mp.prec = plan[0][0]
        kw = _opts(mp, opts)
        x = xtree(mp, desc['x'], desc.get('form', 'mpf'))
        try:
            if desc['kind'] == 'diffun-history':
                g = mp.diffun(f, desc['n'], **kw)
                mp.prec = plan[1][0]
                items.append((desc['n'], g(x), plan[1][0]))
            else:
                g = mp.diffs(f, x, desc['n'], **kw) if desc['n'] is not None else mp.diffs(f, x, **kw)
                k = 0
                p_sample = None
                for pp, cnt in plan:
                    mp.prec = pp
                    for _ in range(cnt):
                        c0 = calls[0]
                        try:
                            v = next(g)
                        except StopIteration:
                            break
                        if calls[0] > c0:
                            p_sample = pp
                            rec.event('diffs-history: next() that took new samples')
                        items.append((k, v, min(p_sample if p_sample is not None else pp, pp)))
                        k += 1
        except Exception as e:
            rec.case(repr(desc), True, cls=label + '/exception')
            rec.violation('C28/%s/exception/%s' % (desc['kind'], type(e).__name__), '%s raised %s: %s' % (desc['kind'], type(e).__name__, str(e)[:80]),
                          desc, observed=repr(e)[:200], expected='values')
            return
    finally:
        mp.prec = old
    if mp.prec != old:
        pass
    rec.event('history cases run (lazy object used under a changed precision)')
    for k, v, preq in items:
        o, nxt = fn.deriv(x0, k)
        inside, why = envelope_1d(fn, x0, k, opts, preq, o, nxt, 'diffs' if desc['kind'] == 'diffs-history' else 'diff')
        judge(rec, desc, v, o, preq, inside, why, label, nontrivial=(k > 0), key='C28/%s/precision-change' % desc['kind'],
              ident_extra=(k, preq))


def run_partial(mp, rec, desc):
    """separable product f1(x) f2(y) [f3(z)] or a polynomial in several variables"""
    p = desc['prec']
    orders = desc['orders']
    xs = [xpt(x) for x in desc['xs']]
    opts = desc.get('opts', {})
    inside, why = True, []
    if 'terms' in desc:
        terms = desc['terms']
        dim = len(xs)

        def build(mp):
            cs = [(Q.mk(mp, c), e) for c, e in terms]
            if dim == 2:
                return lambda x, y: sum(c * x ** e[0] * y ** e[1] for c, e in cs)
            return lambda x, y, z: sum(c * x ** e[0] * y ** e[1] * z ** e[2] for c, e in cs)
        tot = F(0)
        for c, e in terms:
            t = Q.dy(c)
            for xv, ek, nk in zip(xs, e, orders):
                if nk > ek:
                    t = F(0); break
                t *= F(math.perm(ek, nk)) * xv[0] ** (ek - nk)
            tot += t
        oracle = tot
        fam = 'polynd'
    else:
        fns = [fn_of(d) for d in desc['fs']]

        def build(mp):
            ts = [g.tree(mp) for g in fns]
            if len(ts) == 2:
                return lambda x, y: ts[0](x) * ts[1](y)
            return lambda x, y, z: ts[0](x) * ts[1](y) * ts[2](z)
        parts = []
        for g, xv, nk in zip(fns, xs, orders):
            o, nxt = g.deriv(xv, nk)
            ok, w = envelope_1d(g, xv, nk, opts, p, o, nxt)
            inside &= ok; why += w
            parts.append(o)
        if all(not isinstance(o, Q.RefOracle) for o in parts):
            oracle = parts[0]
            for o in parts[1:]:
                oracle = oracle * o
        else:
            def fn(rmp, parts=parts):
                r = rmp.mpf(1)
                for o in parts:
                    r = r * (o.fn(rmp) if isinstance(o, Q.RefOracle) else Q.rq(rmp, o))
                return r
            oracle = Q.RefOracle(fn)
        # a product of factors: each factor's *value* scale matters for the absolute criterion -> require |factors| <= 2^6
        for g, xv, nk, o in zip(fns, xs, orders, parts):
            m = mag(o, p)
            if m is not None and m > 64:
                inside = False; why.append('factor derivative larger than 2^6 (error of one factor is amplified by the others)')
        fam = 'separable'
    f = build(mp)
    old = mp.prec
    label = 'partial/%s/dim%d/%s' % (fam, len(xs), '+'.join(sorted(opts)) or 'default')
    try:
        mp.prec = p
        try:
            v = mp.diff(f, tuple(xtree(mp, x) for x in desc['xs']), tuple(orders), **_opts(mp, opts))
        except Exception as e:
            rec.case(repr(desc), inside, cls=label + '/exception')
            if inside:
                rec.violation('C28/partial/exception/' + type(e).__name__, 'partial diff raised %s: %s' % (type(e).__name__, str(e)[:80]), desc,
                              observed=repr(e)[:200], expected='a value')
            return
    finally:
        mp.prec = old
    judge(rec, desc, v, oracle, p, inside, why, label, nontrivial=sum(orders) > 0, key='C28/partial/%s' % fam)


def run_difference(mp, rec, desc):
    p = desc['prec']
    s = [Q.dy(c) for c in desc['s']]
    n = desc['n']
    exact = sum((-1) ** (k + n) * math.comb(n, k) * s[k] for k in range(n + 1))
    old = mp.prec
    try:
        mp.prec = p
        seq = [Q.mk(mp, c) for c in desc['s']]
        if desc.get('ints'):
            seq = [int(Q.dy(c)) for c in desc['s']]
        v = mp.difference(seq, n)
    finally:
        mp.prec = old
    # inside the envelope every partial sum is exactly representable: bits(s) + n + 2 <= p
    bits = max([abs(q.numerator).bit_length() + q.denominator.bit_length() for q in s] + [1])
    inside = bits + n + 2 <= p
    rec.case(repr(desc), inside and n >= 1, cls='difference/n%d/%s' % (min(n, 3), 'in' if inside else 'outside-envelope'))
    rec.event('difference results compared exactly')
    got = Q.fr(v)
    if got != exact:
        if inside:
            rec.violation('C28/difference/not-exact', 'difference(s, n) differs from the exact n-th forward difference', desc,
                          observed=Q.show(v), expected=Q._shortq(exact))
        else:
            verdict, units = Q.decide_exact(got, exact, p, TOL)
            rec.note('difference with rounding (outside the exact envelope)', {'desc': desc, 'log2_err_units': units}, cap=10)


def run_differint(mp, rec, desc):
    p = desc['prec']
    k = desc['k']
    x = Q.dy(desc['x'])
    nn = Q.dy(desc['order'])
    inside, why = True, []
    # closed form Gamma(k+1)/Gamma(k-n+1) x^(k-n)
    if nn.denominator == 1:
        n = int(nn)
        if n > k:
            oracle = F(0)
        else:
            c = F(1)
            if n >= 0:
                c = F(math.perm(k, n))
            else:
                for j in range(1, -n + 1):
                    c /= (k + j)
            oracle = c * x ** (k - n)
    else:
        def fn(rmp):
            X, N = Q.rq(rmp, x), Q.rq(rmp, nn)
            return rmp.gamma(k + 1) / rmp.gamma(k - N + 1) * X ** (k - N)
        oracle = Q.RefOracle(fn)
    xm, om = Q.mk(mp, desc['x']), (int(nn) if nn.denominator == 1 else Q.mk(mp, desc['order']))
    old = mp.prec
    try:
        mp.prec = p
        try:
            v = mp.differint(lambda t: t ** k, xm, om)
        except Exception as e:
            rec.case(repr(desc), True, cls='differint/exception')
            rec.violation('C28/differint/exception/' + type(e).__name__, 'differint raised %s' % type(e).__name__, desc, observed=repr(e)[:200],
                          expected='a value')
            return
    finally:
        mp.prec = old
    kind = 'integer-order' if nn.denominator == 1 else 'fractional-order'
    judge(rec, desc, v, oracle, p, inside, why, 'differint/' + kind, key='C28/differint/' + kind)


def run_pade(mp, rec, desc):
    p = desc['prec']
    L, M = desc['L'], desc['M']
    a_q = [Q.dy(c) for c in desc['a']]
    old = mp.prec
    try:
        mp.prec = p
        a = [Q.mk(mp, c) for c in desc['a']]
        if desc.get('rounded'):
            a = [+t for t in a]
            a_q = [Q.fr(t) for t in a]
        try:
            pp, qq = mp.pade(a, L, M)
        except ZeroDivisionError as e:
            rec.case(repr(desc), False, cls='pade/singular-system')
            rec.note('pade: singular system', {'desc': desc})
            return
        except Exception as e:
            rec.case(repr(desc), True, cls='pade/exception')
            rec.violation('C28/pade/exception/' + type(e).__name__, 'pade raised %s: %s' % (type(e).__name__, str(e)[:80]), desc,
                          observed=repr(e)[:200], expected='coefficients')
            return
    finally:
        mp.prec = old
    cls = 'pade/L%s/M%s' % ('0' if L == 0 else '+', '0' if M == 0 else '+')
    rec.case(repr(desc), L + M >= 1 or True, cls=cls)
    rec.event('pade residuals checked by exact series multiplication')
    case = desc
    if len(pp) != L + 1 or len(qq) != M + 1:
        rec.violation('C28/pade/shape', 'pade returned %d / %d coefficients for (L, M) = (%d, %d)' % (len(pp), len(qq), L, M), case,
                      observed=[len(pp), len(qq)], expected=[L + 1, M + 1])
        return
    try:
        P = [Q.fr(t) for t in pp]
        Qc = [Q.fr(t) for t in qq]
    except (ValueError, TypeError):
        rec.violation('C28/pade/non-finite', 'pade returned a non-finite coefficient', case, observed=[repr(t) for t in pp + qq])
        return
    if Qc[0] != 1:
        rec.violation('C28/pade/q0', 'denominator is not normalised to q_0 = 1', case, observed=Q._shortq(Qc[0]), expected='1')
        return
    worst = None
    for i in range(L + M + 1):
        conv = sum(Qc[j] * a_q[i - j] for j in range(0, min(M, i) + 1))
        scale = sum(abs(Qc[j] * a_q[i - j]) for j in range(0, min(M, i) + 1))
        pi = P[i] if i <= L else F(0)
        res = abs(conv - pi)
        scale = max(scale + abs(pi), F(1, 1 << 2000))
        units = Q.log2f(res / scale) + p if res else float('-inf')
        if worst is None or units > worst:
            worst = units
        if res > F(2) ** (TOL - p) * scale:
            key = 'C28/pade/series-mismatch/%s' % ('L0M0' if L == 0 and M == 0 else ('M0' if M == 0 else ('numerator' if i <= L else 'denominator-equations')))
            rec.violation(key, 'Q*A - P has a coefficient of order x^%d that is 2^%.1f * 2^-p * scale (allowed 2^%d)' % (i, units, TOL), case,
                          observed={'p': [Q.show(t) for t in pp], 'q': [Q.show(t) for t in qq]}, expected='Q*A - P = O(x^%d)' % (L + M + 1),
                          severity=round(min(units, 1e6), 1))
            return
    rec.maximum('log2 pade residual/(2^-p scale)', worst if worst is not None else -1e9, case)


RUNNERS = {'diffs-history': run_history, 'diffun-history': run_history, 'diff': run_diff, 'diffun': run_diff, 'diffs': run_diff, 'taylor': run_diff, 'partial': run_partial,
           'difference': run_difference, 'differint': run_differint, 'pade': run_pade}


def run_desc(mp, rec, desc):
    desc = {k: v for k, v in desc.items() if k not in ('why_outside', 'index')}
    RUNNERS[desc['kind']](mp, rec, desc)


# ---------------------------------------------------------------------------------------
# generators
# ---------------------------------------------------------------------------------------
def rd(r, lo, hi, bits=4):
    return [r.randint(int(lo * (1 << bits)), int(hi * (1 << bits))), -bits]


def rd_nz(r, lo, hi, bits=4):
    while True:
        d = rd(r, lo, hi, bits)
        if d[0]:
            return d


def gen_fn(r, fam):
    if fam == 'poly':
        deg = r.choice([0, 1, 2, 3, 5, 8, 12])
        return {'fam': 'poly', 'P': [rd(r, -5, 5, 2) for _ in range(deg)] + [rd_nz(r, -5, 5, 2)], 'style': r.choice(['horner', 'pow'])}
    if fam == 'ratl':
        dp, dq = r.choice([0, 1, 2, 3]), r.choice([1, 2, 3])
        return {'fam': 'ratl', 'P': [rd(r, -5, 5, 2) for _ in range(dp)] + [rd_nz(r, -5, 5, 2)],
                'Q': [rd_nz(r, 2, 9, 1)] + [rd(r, -2, 2, 2) for _ in range(dq - 1)] + [rd_nz(r, -2, 2, 2)]}
    deg = r.choice([0, 0, 0, 1, 2])
    T = r.choice(['1', 'cos', 'sin', 'cos', 'sin'])
    k = rd_nz(r, -3, 3, 2) if (T == '1' or r.random() < 0.5) else [0, 0]
    if fam == 'exp-fast':
        k = rd_nz(r, -8, 8, 2)
    return {'fam': 'exp', 'P': [[1, 0]] if deg == 0 else [rd(r, -3, 3, 2) for _ in range(deg)] + [rd_nz(r, -3, 3, 2)],
            'k': k, 'w': rd_nz(r, -4, 4, 2), 'phi': rd(r, -3, 3, 2), 'T': T}


def gen_x(r, kind):
    if kind == 'zero':
        return [0, 0]
    if kind == 'large':
        return [r.randint(1, 15) * r.choice([-1, 1]), r.choice([6, 10, 16, 20])]
    if kind == 'complex':
        return [rd(r, -2, 2, 3), rd_nz(r, -2, 2, 3)]
    if kind == 'tiny':
        return [r.choice([-3, 1, 5]), -r.choice([20, 40, 70])]
    if kind == 'float53':
        m, e = math.frexp(r.uniform(-4, 4) or 0.3)
        return [int(m * (1 << 53)) | 1, e - 53]
    return rd(r, -4, 4, 4)


OPTSETS = ['default', 'default', 'h-exact', 'h-small', 'addprec', 'relative', 'dir+', 'dir-', 'dirj', 'singular', 'quad', 'quad-radius', 'h-big',
           'addprec-small', 'dir+singular']
ENTRY = ['diff', 'diff', 'diff', 'diffun', 'diffs', 'diffs-endless', 'taylor', 'taylor-nochop']
FAMS = ['poly', 'exp', 'ratl', 'poly', 'exp', 'exp-fast']
XK = ['mid', 'mid', 'zero', 'large', 'complex', 'tiny', 'mid', 'float53']
OTHER = ['history/diffs-raise', 'history/diffs-lower', 'history/diffs-endless-raise', 'history/diffs-endless-lower', 'history/diffun', 'partial/poly2', 'partial/poly3', 'partial/sep2', 'partial/sep3', 'difference', 'difference-int', 'differint/int', 'differint/frac', 'pade/dense',
         'pade/exp', 'pade/edge', 'pade/rounded']


def gen_opts(r, name, p, n, fn):
    if name == 'default':
        return {}
    if name == 'h-exact':
        return {'h': [1, -r.choice([3, 10, 20, p])]}
    if name == 'h-small':
        return {'h': [1, -(p // 2 + 12 + r.choice([0, 3, 10]))]}
    if name == 'h-big':
        return {'h': [1, -r.choice([10, 20])]}
    if name == 'addprec':
        return {'addprec': r.choice([5, 20, 50, 100])}
    if name == 'addprec-small':
        return {'addprec': r.choice([0, 2])}
    if name == 'relative':
        return {'relative': True}
    if name == 'dir+':
        return {'direction': 1}
    if name == 'dir-':
        return {'direction': -1}
    if name == 'dirj':
        return {'direction': r.choice([[0, 1], [0, -1], [1, 1]])}
    if name == 'singular':
        return {'singular': True}
    if name == 'dir+singular':
        return {'direction': r.choice([1, -1]), 'singular': True}
    if name == 'quad':
        return {'method': 'quad'}
    if name == 'quad-radius':
        return {'method': 'quad', 'radius': r.choice([[1, 0], [2, 0], [1, -1], [4, 0], [1, -3]])}
    raise ValueError(name)


def gen_main(r, i, p):
    # the cell is a seed-independent function of the case index (decorrelated dimensions); the seed only varies the parameters
    import random
    cr = random.Random('C28-cell-%d' % i)
    entry = cr.choice(ENTRY)
    fam = cr.choice(FAMS)
    optn = cr.choice(OPTSETS)
    xk = cr.choice(XK)
    d = gen_fn(r, fam)
    if fam == 'ratl' and xk in ('large',):
        xk = 'mid'
    n = cr.choice([0, 1, 1, 2, 2, 3, 4, 5, 6, 8, 10])
    if xk == 'large' and d['fam'] == 'poly':
        d['P'] = d['P'][:6]
    if xk == 'large' and d['fam'] == 'exp':
        xk = 'mid'
    opts = gen_opts(r, optn, p, n, d)
    if opts.get('method') == 'quad':
        n = min(n, 6)
        p = min(p, 150)
    kind = entry.split('-')[0]
    desc = {'kind': kind, 'f': d, 'x': gen_x(r, xk), 'n': n, 'opts': opts, 'prec': p}
    if entry == 'diffs-endless':
        desc['endless'] = True
    if entry == 'taylor-nochop':
        desc['chop'] = False
    if (r.random() < 0.15 and xk in ('mid', 'zero')) or (xk == 'float53' and r.random() < 0.8):
        desc['form'] = 'py'           # the evaluation point is handed over as a Python int / float object
    if kind in ('diffs', 'taylor') and opts.get('method') == 'quad':
        desc['n'] = min(n, 4)
    return desc


def gen_other(r, cell, p):
    if cell.startswith('history'):
        sub = cell.split('/')[1]
        d = gen_fn(r, r.choice(['poly', 'exp', 'exp', 'ratl']))
        x = gen_x(r, r.choice(['mid', 'mid', 'zero']))
        p1 = r.choice([30, 40, 53, 64, 80, 100, 120])
        dl = r.choice([20, 25, 40, 64, 100])
        p2 = p1 + dl
        if sub == 'diffun':
            lo, hi = (p1, p2) if r.random() < 0.6 else (p2, p1)
            return {'kind': 'diffun-history', 'f': d, 'x': x, 'n': r.choice([1, 2, 3, 5]), 'opts': {}, 'plan': [[lo, 0], [hi, 1]], 'prec': hi}
        raise_ = sub.endswith('raise')
        a, b = (p1, p2) if raise_ else (p2, p1)
        if 'endless' in sub:
            # change the precision after j items, j from 1 upwards (the statement's bound applies at the precision of each sampling)
            j = r.choice([1, 2, 3, 4, 5, 6, 8])
            plan = [[a, j], [b, r.choice([3, 5, 8])]]
            if r.random() < 0.3:
                plan.append([a, 3])
            return {'kind': 'diffs-history', 'f': d, 'x': x, 'n': None, 'opts': r.choice([{}, {}, {'direction': 1}, {'singular': True}]),
                    'plan': plan, 'prec': max(a, b)}
        n = r.choice([2, 3, 5, 8])
        j = r.choice([1, 1, 2, 3])
        return {'kind': 'diffs-history', 'f': d, 'x': x, 'n': n, 'opts': r.choice([{}, {}, {'addprec': 20}]), 'plan': [[a, j], [b, n + 1]],
                'prec': max(a, b)}
    if cell.startswith('partial'):
        sub = cell.split('/')[1]
        dim = 2 if sub.endswith('2') else 3
        pp = min(p, 120 if dim == 2 else 64)
        orders = [r.choice([0, 1, 1, 2, 3]) for _ in range(dim)]
        if dim == 3:
            orders = [min(o, 2) for o in orders]
        opts = r.choice([{}, {}, {}, {'direction': 1}, {'addprec': 20}, {'singular': True}])
        if sub.startswith('poly'):
            terms = [([r.randint(-9, 9) or 1, -r.choice([0, 1, 2])], [r.randint(0, 4) for _ in range(dim)]) for _ in range(r.randint(1, 5))]
            return {'kind': 'partial', 'terms': terms, 'xs': [rd(r, -3, 3, 3) for _ in range(dim)], 'orders': orders, 'opts': opts, 'prec': pp}
        fs = [gen_fn(r, r.choice(['poly', 'exp', 'exp'])) for _ in range(dim)]
        for f in fs:
            if f['fam'] == 'poly':
                f['P'] = f['P'][:5]
        return {'kind': 'partial', 'fs': fs, 'xs': [rd(r, -2, 2, 3) for _ in range(dim)], 'orders': orders, 'opts': opts, 'prec': pp}
    if cell.startswith('difference'):
        n = r.choice([0, 1, 2, 3, 5, 8, 12, 20])
        ints = cell.endswith('int')
        bits = r.choice([3, 8, 16]) if p >= 53 else 3
        s = [[r.randint(-(1 << bits), 1 << bits), 0 if ints else -r.choice([0, 1, 4])] for _ in range(n + 1 + r.choice([0, 0, 3]))]
        return {'kind': 'difference', 's': s, 'n': n, 'prec': p, 'ints': ints}
    if cell.startswith('differint'):
        pp = min(p, 64)
        k = r.choice([1, 2, 3, 4])
        if cell.endswith('int'):
            order = [r.choice([0, 1, 2, 3, -1, -2]), 0]
        else:
            order = [r.choice([1, -1, 3, -3, 5]), -r.choice([1, 1, 2])]
        return {'kind': 'differint', 'k': k, 'x': rd_nz(r, 0.5, 4, 2), 'order': order, 'prec': pp}
    if cell.startswith('pade'):
        sub = cell.split('/')[1]
        if sub == 'edge':
            L, M = r.choice([(0, 0), (0, 0), (1, 0), (3, 0), (0, 1), (0, 3), (5, 0)])
        else:
            L, M = r.randint(0, 5), r.randint(1, 5)
        N = L + M + 1 + r.choice([0, 0, 2])
        if sub == 'exp':
            a = []
            for k in range(N):
                q = F(1, math.factorial(k)) * r.choice([1, 1, -1]) ** k
                # nearest dyadic with p+8 bits below the leading bit
                sh = p + 8 + math.factorial(k).bit_length()
                a.append([int(q * (1 << sh)), -sh])
            return {'kind': 'pade', 'a': a, 'L': L, 'M': M, 'prec': p, 'rounded': True}
        a = [rd_nz(r, -6, 6, r.choice([0, 2, 5])) for _ in range(N)]
        if r.random() < 0.5:
            a[0] = rd_nz(r, 2, 6, 2)
        return {'kind': 'pade', 'a': a, 'L': L, 'M': M, 'prec': p, 'rounded': sub == 'rounded'}
    raise ValueError(cell)


PRECS = [30, 40, 53, 64, 80, 100, 113, 150, 200, 250, 300]
N_SHARDS = 16
# seed-independent regression witnesses, run by shard 0 of every tier
WITNESSES = [
    {'kind': 'diff', 'f': {'fam': 'poly', 'P': [[0, 0], [0, 0], [0, 0], [1, 0]], 'style': 'pow'}, 'x': [5, 31], 'n': 1, 'opts': {'relative': True}, 'prec': 53},
    {'kind': 'diff', 'f': {'fam': 'exp', 'P': [[1, 0]], 'k': [1, 0], 'w': [1, 0], 'phi': [0, 0], 'T': '1'}, 'x': [5, -100], 'n': 2,
     'opts': {'relative': True}, 'prec': 53},
    {'kind': 'pade', 'a': [[2, 0], [3, 0], [5, 0]], 'L': 0, 'M': 0, 'prec': 53},
    {'kind': 'pade', 'a': [[2, 0], [3, 0], [5, 0], [1, 0]], 'L': 1, 'M': 2, 'prec': 53},
    {'kind': 'diff', 'f': {'fam': 'exp', 'P': [[1, 0]], 'k': [1, 0], 'w': [1, 0], 'phi': [0, 0], 'T': '1'}, 'x': [3, 0], 'n': 4, 'opts': {}, 'prec': 53},
]


def shards(tier, seed):
    n = int((420 if tier == 'quick' else 5200) * DEV_SCALE)
    return [{'n': n} for _ in range(N_SHARDS)]


def run_shard(shard, rec):
    import mpmath
    mp = mpmath.mp
    r = G.rng(PROP, shard['seed'], shard['shard'])
    from vf.instrument import AnchorCount
    D_ = 'mpmath.calculus.differentiation:'
    anchors = [D_ + n for n in ('difference', 'hsteps', 'diff', '_partial_diff', 'diffs', 'differint', 'diffun', 'taylor', 'pade')]
    budget = {'quick': 200.0, 'thorough': 2000.0}[shard['tier']]
    with AnchorCount(rec, anchors):
        idx = shard['shard'] * 11
        if shard['shard'] == 0:
            for w in WITNESSES:
                run_desc(mp, rec, dict(w))
            rec.event('fixed witnesses run', len(WITNESSES))
        t0 = time.process_time()
        for j in range(shard['n']):
            i = idx + j
            p = PRECS[i % len(PRECS)] if r.random() < 0.6 else r.randint(30, 300)
            if j % 3 == 2:
                cell = OTHER[(i // 3) % len(OTHER)]
                desc = gen_other(r, cell, p)
            else:
                desc = gen_main(r, i, p)
                cell = desc['kind']
            t1 = time.process_time()
            run_desc(mp, rec, desc)
            rec.maximum('cpu seconds for one case [%s]' % cell, round(time.process_time() - t1, 2), {'prec': desc['prec']})
            if time.process_time() - t0 > budget:
                rec.event('shards stopped by their time budget')
                break
    rec.note('shard seconds', [shard['shard'], round(time.process_time(), 1)], cap=20)


def required(agg, tier):
    miss = []
    cl = agg['classes']

    def seen(prefix, frag=''):
        return any(k.startswith(prefix) and frag in k and k.endswith('/in') for k in cl)
    for kind in ('diff/', 'diffun/', 'diffs/', 'taylor/'):
        for fam in ('poly', 'exp', 'ratl'):
            if not seen(kind + fam):
                miss.append('no in-envelope %s case on family %s' % (kind, fam))
    for o in ('direction', 'singular', 'addprec', 'relative', 'h', 'method'):
        if not any(k.startswith('diff/') and o in k.split('/')[-2] and k.endswith('/in') for k in cl):
            miss.append('option %s never observed inside the envelope' % o)
    if not seen('diff/', '/quad/'):
        miss.append('method=quad never observed inside the envelope')
    for need in ('partial/polynd/dim2', 'partial/polynd/dim3', 'partial/separable/dim2', 'differint/integer-order', 'differint/fractional-order'):
        if not seen(need):
            miss.append('no in-envelope case of %s' % need)
    if not any(k.startswith('difference/') and k.endswith('/in') for k in cl):
        miss.append('no difference() case')
    for need in ('pade/L0/M0', 'pade/L+/M0', 'pade/L0/M+', 'pade/L+/M+'):
        if need not in cl:
            miss.append('no %s case' % need)
    if not agg['events'].get('history cases run (lazy object used under a changed precision)') or \
            not agg['events'].get('diffs-history: next() that took new samples'):
        miss.append('no diffs()/diffun() object was used under a changed precision')
    for need in ('diffs-history/', 'diffun-history/'):
        if not any(k.startswith(need) and k.endswith('/in') for k in cl):
            miss.append('no in-envelope %s case' % need)
    if not agg['events'].get('pade residuals checked by exact series multiplication'):
        miss.append('pade residual monitor saw nothing')
    return miss


def replay(case, rec):
    import mpmath
    run_desc(mpmath.mp, rec, case['case'])
